"""Object model for evaluating small container-manipulating functions from their source.

An extension of lib/absint.py's evaluator for code that works on aggregates, std::vector and its iterators,
raw pointers to elements and fixed character buffers (coverage.cc, the constant renderers, producers).
Values are exact (Python integers wrapped to 64 bits), objects have identity (pointers and references alias,
copy construction and assignment copy), every container access is bounds-checked: an access outside a
container is reported as OutOfBounds (positive evidence of a memory error), a checked accessor (`at`) that
would throw raises Thrown.  Anything not modelled raises Broken (exit 2)."""
from absint import Evaluator, Thrown, Ret, LayerEnv
from zw import Broken, unwrap

M64 = (1 << 64) - 1


class OutOfBounds(Exception):
    """the interpreted code accessed a container or buffer outside its bounds"""


class UndefinedArith(OutOfBounds):
    """the interpreted code performed arithmetic whose behaviour is undefined (signed overflow, bad shift, division by zero)"""


INT_TYPES = {
    "bool": (1, False), "char": (8, True), "signed char": (8, True), "unsigned char": (8, False),
    "short": (16, True), "unsigned short": (16, False), "int": (32, True), "unsigned int": (32, False),
    "long": (64, True), "unsigned long": (64, False), "long long": (64, True), "unsigned long long": (64, False),
}


def tinfo(t):
    if not t:
        return None
    t = t.replace("const ", "").replace("volatile ", "").strip()
    if t.endswith("&"):
        t = t[:-1].strip()
    if t.endswith(" const"):
        t = t[:-6].strip()
    return INT_TYPES.get(t)


def conv(v, t):
    """value of integer `v` after conversion to C++ type `t` (modular for every integer type, as GCC/Clang define it)"""
    ti = tinfo(t)
    if ti is None or not isinstance(v, (int, bool)):
        return v
    bits, signed = ti
    if bits == 1:
        return bool(v)
    v = int(v) & ((1 << bits) - 1)
    if signed and v >> (bits - 1):
        v -= 1 << bits
    return v


class Struct:
    """aggregate with named fields; `addr` gives it pointer identity"""
    def __init__(self, tname, fields):
        self._t = tname
        self._f = list(fields)
        for k, v in fields.items():
            setattr(self, k, v)

    @property
    def addr(self):
        return id(self)

    def fields(self):
        return {k: v for k, v in vars(self).items() if k not in ("_t", "_f")}

    def copy_value(self):
        return Struct(self._t, {k: (v.copy_value() if hasattr(v, "copy_value") else v) for k, v in self.fields().items()})

    def assign_from(self, other):
        for k, v in other.fields().items():
            setattr(self, k, v.copy_value() if hasattr(v, "copy_value") else v)

    def __repr__(self):
        return "%s{%s}" % (self._t, ", ".join("%s=%r" % kv for kv in self.fields().items()))


class Obj:
    """instance of a repository class: fields are attributes, set by running the class's constructors from source"""
    def __init__(self, cls):
        self._cls = cls

    @property
    def addr(self):
        return id(self)

    def _fields(self):
        return {k: v for k, v in vars(self).items() if k != "_cls"}

    def copy_value(self):
        o = Obj(self._cls)
        for k, v in self._fields().items():
            setattr(o, k, v.copy_value() if hasattr(v, "copy_value") else v)
        return o

    def assign_from(self, other):
        for k, v in other._fields().items():
            setattr(self, k, v.copy_value() if hasattr(v, "copy_value") else v)

    def __repr__(self):
        return "%s%r" % (self._cls.split("::")[-1], self._fields())


class Sym:
    """an opaque global object (a constant domain, a value type descriptor): only its identity matters"""
    _all = {}

    def __init__(self, q):
        self.q = q

    @classmethod
    def of(cls, q):
        if q not in cls._all:
            cls._all[q] = Sym(q)
        return cls._all[q]

    @property
    def addr(self):
        return id(self)

    def copy_value(self):
        return self

    def __getattr__(self, name):
        if not name.startswith("m_"):
            raise AttributeError(name)           # only data members (the repository's m_ convention), never evaluator protocol names
        return Sym.of(self.q + "." + name)       # a field of an opaque object is opaque too

    def __repr__(self):
        return "<%s>" % self.q


class VarPtr:
    """pointer to a scalar local variable or field (out-parameters of C functions)"""
    def __init__(self, get, set_, name):
        self._get, self._set, self.name = get, set_, name

    @property
    def addr(self):
        return id(self)

    def load(self):
        return self._get()

    def store(self, v):
        self._set(v)


class Vec:
    def __init__(self, items=None, tname="vector"):
        self.items = list(items or [])
        self._t = tname

    def copy_value(self):
        return Vec([x.copy_value() if hasattr(x, "copy_value") else x for x in self.items], self._t)

    def assign_from(self, other):
        self.items = other.copy_value().items

    def __repr__(self):
        return "%s%r" % (self._t, self.items)


def _invalidate(vec, thr):
    """std::vector: a modification invalidates the iterators at or after `thr` (0: all of them - insertion may reallocate, and code
    that relies on it not doing so without a reserve() is wrong for some size)"""
    if type(vec).__name__ != "Vec":
        return                # node-based containers keep their iterators
    vec.__dict__["_gen"] = vec.__dict__.get("_gen", 0) + 1
    vec.__dict__.setdefault("_events", []).append((vec.__dict__["_gen"], thr))
    if len(vec.__dict__["_events"]) > 64:
        del vec.__dict__["_events"][:32]


class It:
    """random-access iterator into a Vec"""
    def __init__(self, vec, pos, born=None):
        self.vec, self.pos = vec, pos
        self.born = getattr(vec, "_gen", 0) if born is None else born

    def check_valid(self, what):
        evs = getattr(self.vec, "_events", None)
        if evs:
            for gen, thr in evs:
                if gen > self.born and self.pos >= thr:
                    raise OutOfBounds("%s an iterator that an insertion into / erasure from its vector has invalidated (the vector may have moved its elements)" % what)

    def copy_value(self):
        return It(self.vec, self.pos, self.born)

    def assign_from(self, other):
        self.vec, self.pos, self.born = other.vec, other.pos, getattr(other, "born", 0)

    def arith(self, op, n):
        if isinstance(n, It):
            if op != "-":
                raise Broken("iterator arithmetic %s between two iterators" % op)
            return self.pos - n.pos
        n = int(n)
        if n > (1 << 63):
            n -= 1 << 64
        return It(self.vec, self.pos + (n if op == "+" else -n), self.born)

    def cmp_with(self, op, other):
        if not isinstance(other, It):
            raise Broken("iterator compared with a non-iterator")
        self.check_valid("comparison of")
        other.check_valid("comparison with")
        a, b = self.pos, other.pos
        return {"==": a == b, "!=": a != b, "<": a < b, ">": a > b, "<=": a <= b, ">=": a >= b}[op]

    def deref(self):
        self.check_valid("dereference of")
        if not (0 <= self.pos < len(self.vec.items)):
            raise OutOfBounds("dereference of an iterator at position %d of a vector of %d elements" % (self.pos, len(self.vec.items)))
        return self.vec.items[self.pos]

    def __repr__(self):
        return "it@%d" % self.pos


class RIt(It):
    """reverse iterator: position counted from the back"""
    def copy_value(self):
        return RIt(self.vec, self.pos, self.born)

    def check_valid(self, what):
        evs = getattr(self.vec, "_events", None)
        if evs and any(gen > self.born for gen, thr in evs):
            raise OutOfBounds("%s a reverse iterator whose vector was modified since it was obtained" % what)

    def arith(self, op, n):
        if isinstance(n, It):
            return self.pos - n.pos
        return RIt(self.vec, self.pos + (int(n) if op == "+" else -int(n)), self.born)

    def deref(self):
        i = len(self.vec.items) - 1 - self.pos
        if not (0 <= i < len(self.vec.items)):
            raise OutOfBounds("dereference of a reverse iterator at position %d of a vector of %d elements" % (self.pos, len(self.vec.items)))
        return self.vec.items[i]


class SetObj(Vec):
    """std::set over values with a natural order (integers, tuples, strings, handles by address): sorted, no duplicates"""
    def __init__(self, items=None):
        Vec.__init__(self, [], "set")
        for x in items or []:
            self.insert(x)

    def copy_value(self):
        return SetObj(self.items)

    def _pos(self, x):
        import bisect
        ks = [_okey(y) for y in self.items]
        i = bisect.bisect_left(ks, _okey(x))
        return i, (i < len(ks) and ks[i] == _okey(x))

    def insert(self, x):
        i, hit = self._pos(x)
        if hit:
            return (It(self, i), False)
        self.items.insert(i, x)
        return (It(self, i), True)

    def find(self, x):
        i, hit = self._pos(x)
        return It(self, i if hit else len(self.items))


class Opt:
    """nonstd::optional<T>: empty or holding a value; a value of a repository class is destroyed (its destructor interpreted) when
    the optional is reset, emptied by assigning nullopt, or re-emplaced"""
    def __init__(self, elem_t, val=None):
        self.elem_t, self.val = elem_t, val

    @property
    def addr(self):
        return id(self)

    def copy_value(self):
        return Opt(self.elem_t, self.val.copy_value() if hasattr(self.val, "copy_value") else self.val)

    def __repr__(self):
        return "optional(%r)" % (self.val,) if self.val is not None else "nullopt"


def _okey(x):
    """total order on abstract keys: integers by value, tuples component-wise, handles by their address"""
    if isinstance(x, bool):
        return (0, int(x))
    if isinstance(x, int):
        return (0, x)
    if isinstance(x, tuple):
        return (2, tuple(_okey(y) for y in x))
    if x is None:
        return (1, 0)
    if isinstance(x, StdStr):
        return (3, bytes(x.b))
    if hasattr(x, "__lt__") and type(x).__lt__ is not object.__lt__ and hasattr(x, "v"):
        return (4, x.v)                       # a model object that defines its own order by content
    return (1, getattr(x, "addr", None) if isinstance(getattr(x, "addr", None), int) else id(x))


class MapObj(Vec):
    """std::map: (key, value) pairs sorted by key, unique keys; iterators dereference to the pair"""
    def __init__(self, items=None):
        Vec.__init__(self, sorted(items or [], key=lambda kv: _okey(kv[0])), "map")

    def copy_value(self):
        return MapObj([(k, v.copy_value() if hasattr(v, "copy_value") else v) for k, v in self.items])

    def _pos(self, key):
        ks = [_okey(k) for k, _ in self.items]
        import bisect
        i = bisect.bisect_left(ks, _okey(key))
        return i, (i < len(ks) and ks[i] == _okey(key))

    def insert(self, kv):
        i, hit = self._pos(kv[0])
        if hit:
            return (It(self, i), False)
        self.items.insert(i, (kv[0], kv[1]))
        return (It(self, i), True)

    def find(self, key):
        i, hit = self._pos(key)
        return It(self, i if hit else len(self.items))


class CmpSet(SetObj):
    """std::set with a comparator of the repository (a function object whose operator() is interpreted): elements are kept in
    the order the comparator gives; two elements are the same iff neither is less than the other"""
    def __init__(self, ev, functor, items=None):
        Vec.__init__(self, [], "set")
        self.ev, self.functor = ev, functor
        for x in items or []:
            self.insert(x)

    def copy_value(self):
        c = CmpSet(self.ev, self.functor)
        c.items = list(self.items)
        return c

    def _less(self, x, y):
        return _apply(self.ev, self.functor, x, y)

    def _lb(self, x):
        lo, n = 0, len(self.items)
        while n > 0:
            step = n // 2
            if self._less(self.items[lo + step], x):
                lo += step + 1
                n -= step + 1
            else:
                n = step
        return lo

    def insert(self, x):
        i = self._lb(x)
        if i < len(self.items) and not self._less(x, self.items[i]):
            return (It(self, i), False)
        self.items.insert(i, x)
        return (It(self, i), True)

    def find(self, x):
        i = self._lb(x)
        return It(self, i if i < len(self.items) and not self._less(x, self.items[i]) else len(self.items))


def _targs_of(t):
    """top-level template arguments of `name<a, b<c, d>, e>`"""
    i = t.find("<")
    if i < 0 or not t.rstrip().endswith(">"):
        return []
    inner, out, depth, cur = t[i + 1:t.rstrip().rfind(">")], [], 0, ""
    for ch in inner:
        if ch in "<(":
            depth += 1
        elif ch in ">)":
            depth -= 1
        if ch == "," and depth == 0:
            out.append(cur.strip())
            cur = ""
        else:
            cur += ch
    if cur.strip():
        out.append(cur.strip())
    return out


class Buf:
    """fixed-size array of cells (char buf[N])"""
    def __init__(self, n):
        self.cells = [None] * n

    def __repr__(self):
        return "buf[%d]" % len(self.cells)


class Ptr:
    """pointer into a Buf or a string literal"""
    def __init__(self, buf, off):
        self.buf, self.off = buf, off

    @property
    def addr(self):
        return (id(self.buf) << 8) + self.off

    def copy_value(self):
        return Ptr(self.buf, self.off)

    def arith(self, op, n):
        if isinstance(n, Ptr):
            return self.off - n.off
        n = int(n)
        if n > (1 << 63):
            n -= 1 << 64
        return Ptr(self.buf, self.off + (n if op == "+" else -n))

    def cmp_with(self, op, other):
        a, b = self.off, other.off
        return {"==": a == b, "!=": a != b, "<": a < b, ">": a > b, "<=": a <= b, ">=": a >= b}[op]

    def cells(self):
        return self.buf.cells if isinstance(self.buf, Buf) else self.buf

    def load(self):
        c = self.cells()
        if not (0 <= self.off < len(c)):
            raise OutOfBounds("read at offset %d of a buffer of %d" % (self.off, len(c)))
        return c[self.off]

    def store(self, v):
        if not isinstance(self.buf, Buf):
            raise OutOfBounds("write through a pointer into a string literal")
        if not (0 <= self.off < len(self.buf.cells)):
            raise OutOfBounds("write at offset %d of a buffer of %d" % (self.off, len(self.buf.cells)))
        self.buf.cells[self.off] = v

    def cstr(self):
        """the NUL-terminated string starting here"""
        out = []
        p = self.off
        c = self.cells()
        while True:
            if not (0 <= p < len(c)):
                raise OutOfBounds("string read runs to offset %d of a buffer of %d without a terminator" % (p, len(c)))
            if c[p] is None:
                raise OutOfBounds("string read reaches an uninitialised cell at offset %d" % p)
            if c[p] == 0:
                return "".join(chr(x) for x in out)
            out.append(c[p])
            p += 1


class StdStr:
    """std::string: a byte string with the library's member functions (length-counted, embedded NUL allowed).  A `const char *`
    argument (Ptr) is a C string: the members that take one stop at its first NUL, exactly as the library does."""
    def __init__(self, b=b""):
        self.b = bytes(b)

    @property
    def addr(self):
        return id(self)

    def copy_value(self):
        return StdStr(self.b)

    @property
    def items(self):
        return [conv(x, "char") for x in self.b]       # range-for over a string visits its chars

    def assign_from(self, o):
        self.b = StdStr.of(o).b

    @staticmethod
    def of(v):
        if isinstance(v, StdStr):
            return v
        if isinstance(v, Ptr):
            return StdStr(v.cstr().encode("latin-1"))
        if isinstance(v, (int, bool)):
            return StdStr(bytes([int(v) & 0xff]))
        if isinstance(v, list):
            return StdStr(bytes([int(x) & 0xff for x in v]))
        raise Broken("cannot make a std::string from %r" % (v,))

    @staticmethod
    def construct(args):
        args = [a for a in args if not isinstance(a, Sym)]
        if not args:
            return StdStr()
        if len(args) == 1:
            return StdStr.of(args[0]).copy_value()
        if len(args) == 2 and isinstance(args[0], Ptr) and isinstance(args[1], int):
            c = args[0].cells()
            n = int(args[1])
            if args[0].off + n > len(c):
                raise OutOfBounds("std::string(ptr, %d) reads past a buffer of %d" % (n, len(c)))
            return StdStr(bytes(x & 0xff for x in c[args[0].off:args[0].off + n]))
        if len(args) == 2 and isinstance(args[0], int) and isinstance(args[1], int):
            return StdStr(bytes([args[1] & 0xff]) * int(args[0]))
        if len(args) == 2 and isinstance(args[0], It) and isinstance(args[1], It):
            return StdStr(bytes(int(x) & 0xff for x in args[0].vec.items[args[0].pos:args[1].pos]))
        raise Broken("std::string constructor with unmodelled arguments %r" % (args,))

    def _cmp3(self, other):
        o = StdStr.of(other).b
        return (self.b > o) - (self.b < o)

    def cmp_with(self, op, other):
        c = self._cmp3(other)
        return {"==": c == 0, "!=": c != 0, "<": c < 0, ">": c > 0, "<=": c <= 0, ">=": c >= 0}[op]

    def arith(self, op, other):
        if op != "+":
            raise Broken("std::string %s" % op)
        return StdStr(self.b + StdStr.of(other).b)

    def cxx(self, name, ev, a):
        n = len(self.b)
        if name in ("size", "length"):
            return n
        if name == "empty":
            return n == 0
        if name in ("c_str", "data"):
            return Ptr(list(self.b) + [0], 0)
        if name == "operator[]":
            i = int(a[0])
            if not (0 <= i <= n):
                raise OutOfBounds("operator[] (%d) on a string of length %d" % (i, n))
            return conv(self.b[i] if i < n else 0, "char")
        if name == "at":
            i = int(a[0])
            if not (0 <= i < n):
                raise Thrown("std::out_of_range from string::at(%d)" % i)
            return conv(self.b[i], "char")
        if name in ("front", "back"):
            if n == 0:
                raise OutOfBounds("%s() on an empty string" % name)
            return conv(self.b[0 if name == "front" else -1], "char")
        if name in ("find", "rfind"):
            needle = StdStr.of(a[0]).b
            pos = int(a[1]) if len(a) > 1 and isinstance(a[1], int) else (0 if name == "find" else n)
            r = self.b.find(needle, pos) if name == "find" else self.b.rfind(needle, 0, min(n, pos + len(needle)))
            return M64 if r < 0 else r
        if name == "compare":
            if len(a) == 1:
                return self._cmp3(a[0])
            if len(a) in (3, 5) and isinstance(a[0], int):
                pos, ln = int(a[0]), int(a[1])
                if pos > n:
                    raise Thrown("std::out_of_range from string::compare(%d, ...)" % pos)
                sub = StdStr(self.b[pos:pos + min(ln, n - pos)])
                other = StdStr.of(a[2])
                if len(a) == 5:
                    p2, l2 = int(a[3]), int(a[4])
                    if p2 > len(other.b):
                        raise Thrown("std::out_of_range from string::compare")
                    other = StdStr(other.b[p2:p2 + min(l2, len(other.b) - p2)])
                return sub._cmp3(other)
            raise Broken("string::compare with unmodelled arguments")
        if name == "substr":
            pos = int(a[0]) if a else 0
            ln = int(a[1]) if len(a) > 1 else M64
            if pos > n:
                raise Thrown("std::out_of_range from string::substr(%d)" % pos)
            return StdStr(self.b[pos:pos + min(ln, n - pos)])
        if name in ("append", "operator+="):
            self.b += StdStr.of(a[0]).b
            return self
        if name == "push_back":
            self.b += bytes([int(a[0]) & 0xff])
            return None
        if name == "clear":
            self.b = b""
            return None
        if name in ("begin", "cbegin", "end", "cend", "rbegin", "rend"):
            v = Vec([conv(x, "char") for x in self.b], "string")
            if name.startswith("r"):
                return RIt(v, 0 if name == "rbegin" else n)
            return It(v, 0 if name.endswith("begin") else n)
        raise Broken("std::string::%s is not modelled" % name)

    def __repr__(self):
        return repr(self.b)


def _chk_at(o, i):
    if not (0 <= i < len(o.items)):
        raise Thrown("std::out_of_range from at(%d) on %d elements" % (i, len(o.items)))
    return o.items[i]


def _chk_idx(o, i, what):
    if not (0 <= i < len(o.items)):
        raise OutOfBounds("%s on element %d of a vector of %d" % (what, i, len(o.items)))
    return o.items[i]


def _cp(x):
    return x.copy_value() if hasattr(x, "copy_value") else x


def _erase(o, a):
    for it in a[:2]:
        if isinstance(it, It):
            it.check_valid("erase through")
    if len(a) == 2:
        if not (0 <= a[0].pos <= a[1].pos <= len(o.items)):
            raise OutOfBounds("erase of [%d, %d) on a vector of %d" % (a[0].pos, a[1].pos, len(o.items)))
        if a[0].pos != a[1].pos:
            del o.items[a[0].pos:a[1].pos]
            _invalidate(o, a[0].pos)
    else:
        _chk_idx(o, a[0].pos, "erase")
        del o.items[a[0].pos]
        _invalidate(o, a[0].pos)
    return It(o, a[0].pos)


def _insert(o, a):
    if isinstance(a[0], It):
        a[0].check_valid("insertion at")
    if not (0 <= a[0].pos <= len(o.items)):
        raise OutOfBounds("insert at %d on a vector of %d" % (a[0].pos, len(o.items)))
    if len(a) == 3 and isinstance(a[1], It) and isinstance(a[2], It):
        new = [_cp(x) for x in _elems(a[1], a[2])]
        o.items[a[0].pos:a[0].pos] = new                                         # insert (pos, first, last)
        if new:
            _invalidate(o, 0)
        return It(o, a[0].pos)
    o.items.insert(a[0].pos, _cp(a[1]))
    _invalidate(o, 0)
    return It(o, a[0].pos)


def _accumulate(ev, o, a):
    first, last, acc = a[0], a[1], a[2]
    fn = a[3] if len(a) > 3 else None
    for x in _elems(first, last):
        acc = ev.arith("+", acc, x) if fn is None else _apply2v(ev, fn, acc, x)
    return acc


def _apply2v(ev, fn, x, y):
    from absint import Closure
    if isinstance(fn, Closure):
        return ev.call_closure(fn, [x, y])
    if isinstance(fn, dict) and fn.get("body") is not None:
        return ev.call(fn, None, [x, y])
    cls = getattr(fn, "_cls", None) or (getattr(fn, "_t", None) if isinstance(fn, Struct) else None)
    if cls and cls.startswith("std::multiplies"):
        return ev.arith("*", x, y)
    if cls and cls.startswith("std::plus"):
        return ev.arith("+", x, y)
    raise Broken("algorithm called with a binary operation the evaluator does not model")


def _remove_if(ev, o, a):
    """std::remove_if as libstdc++ does it: kept elements are moved to the front in order, the iterator past them is returned, and
    what lies behind it is left over (here: the stale elements; the caller is expected to erase the whole tail)"""
    first, last, pred = a[0], a[1], a[2]
    r = _rng(first, last)
    items = first.vec.items
    out = first.pos
    for i in r:
        if not ev.truth(_apply1(ev, pred, items[i])):
            if out != i:
                items[out] = items[i]
            out += 1
    return It(first.vec, out)


def _inc(o, n):
    o.pos += n
    return o


def _apply(ev, fn, x, y):
    from absint import Closure
    if isinstance(fn, Closure):
        return ev.truth(ev.call_closure(fn, [x, y]))
    if isinstance(fn, dict) and fn.get("body") is not None:
        return ev.truth(ev.call(fn, None, [x, y]))          # a plain function used as the predicate
    if fn is None:
        return ev.binop("==", x, y)
    cls = getattr(fn, "_cls", None) or (getattr(fn, "_t", None) if isinstance(fn, Struct) else None)
    if cls and ev.prog is not None:
        # a function object of the repository: its (possibly templated) operator() with two parameters
        ops = [f for f in ev.prog.funcs.values() if f.get("cls") == cls and f["n"] == "operator()" and len(f["params"]) == 2 and f.get("body") is not None]
        if ops:
            return ev.truth(ev.call(ops[0], fn, [x, y]))
    raise Broken("algorithm called with a predicate the evaluator does not model")


def _less(ev, cmp, x, y):
    return _apply(ev, cmp, x, y) if cmp is not None else ev.truth(ev.binop("<", x, y))


def _lower_bound(ev, o, a):
    """the bisection libstdc++ performs (so that a range that is not ordered by the comparator gives what the real call gives)"""
    first, last, val = a[0], a[1], a[2]
    cmp = a[3] if len(a) > 3 else None
    _rng(first, last)
    lo, count = first.pos, last.pos - first.pos
    while count > 0:
        step = count // 2
        if _less(ev, cmp, first.vec.items[lo + step], val):
            lo += step + 1
            count -= step + 1
        else:
            count = step
    return It(first.vec, lo)


def _binary_search(ev, o, a):
    it = _lower_bound(ev, o, a)
    cmp = a[3] if len(a) > 3 else None
    return it.pos != a[1].pos and not _less(ev, cmp, a[2], it.vec.items[it.pos])


def _sort(ev, o, a):
    import functools
    first, last = a[0], a[1]
    cmp = a[2] if len(a) > 2 else None
    r = _rng(first, last)
    seg = first.vec.items[first.pos:last.pos]
    seg.sort(key=functools.cmp_to_key(lambda x, y: -1 if _less(ev, cmp, x, y) else (1 if _less(ev, cmp, y, x) else 0)))
    first.vec.items[first.pos:last.pos] = seg
    return None


def _apply1(ev, fn, x):
    from absint import Closure
    if isinstance(fn, Closure):
        return ev.call_closure(fn, [x])
    if isinstance(fn, dict) and fn.get("body") is not None:
        return ev.call(fn, None, [x])
    raise Broken("algorithm called with a function the evaluator does not model")


def _elems(a, b):
    return [a.vec.items[i] for i in _rng(a, b)]


def _rng(a, b):
    if a.vec is not b.vec:
        raise OutOfBounds("an algorithm is given iterators into two different containers as one range")
    if not (0 <= a.pos <= b.pos <= len(a.vec.items)):
        raise OutOfBounds("an algorithm is given the range [%d, %d) of a container of %d" % (a.pos, b.pos, len(a.vec.items)))
    return range(a.pos, b.pos)


def _mismatch(ev, o, a):
    f1, l1, f2 = a[0], a[1], a[2]
    pred = a[3] if len(a) > 3 and not isinstance(a[3], It) else None
    j = f2.pos
    for i in _rng(f1, l1):
        if not (0 <= j < len(f2.vec.items)):
            raise OutOfBounds("std::mismatch reads element %d of a second range of %d" % (j, len(f2.vec.items)))
        if not _apply(ev, pred, f1.vec.items[i], f2.vec.items[j]):
            return (It(f1.vec, i), It(f2.vec, j))
        j += 1
    return (It(f1.vec, l1.pos), It(f2.vec, j))


def _equal(ev, o, a):
    f1, l1, f2 = a[0], a[1], a[2]
    pred = a[3] if len(a) > 3 and not isinstance(a[3], It) else None
    j = f2.pos
    for i in _rng(f1, l1):
        if not (0 <= j < len(f2.vec.items)):
            raise OutOfBounds("std::equal reads element %d of a second range of %d" % (j, len(f2.vec.items)))
        if not _apply(ev, pred, f1.vec.items[i], f2.vec.items[j]):
            return False
        j += 1
    return True


def _search(ev, o, a):
    f1, l1, f2, l2 = a[0], a[1], a[2], a[3]
    pred = a[4] if len(a) > 4 else None
    r1, r2 = _rng(f1, l1), _rng(f2, l2)
    n, m = len(r1), len(r2)
    for s_ in range(0, n - m + 1):
        if all(_apply(ev, pred, f1.vec.items[f1.pos + s_ + k], f2.vec.items[f2.pos + k]) for k in range(m)):
            return It(f1.vec, f1.pos + s_)
    return It(f1.vec, l1.pos)


def vector_hooks():
    """summaries of std::vector / std::string members and of __normal_iterator's operators"""
    h = _vector_hooks()
    out = {}
    for k, fn in h.items():
        if k.startswith("method:"):
            name = k[7:]
            out[k] = (lambda name, fn: (lambda ev, o, a: o.cxx(name, ev, a) if isinstance(o, StdStr) else fn(ev, o, a)))(name, fn)
        else:
            out[k] = fn
    for name in ("length", "c_str", "data", "find", "rfind", "compare", "substr", "append"):
        out["method:" + name] = (lambda name: (lambda ev, o, a: o.cxx(name, ev, a) if isinstance(o, StdStr) else
                                               (Ptr(o.items, 0) if name == "data" and isinstance(o, Vec) else
                                                (o.find(a[0]) if name == "find" and isinstance(o, (SetObj, MapObj)) else
                                                 (_ for _ in ()).throw(Broken("%s on an object that is not a string" % name))))))(name)
    out["ctor:std::basic_string<*"] = lambda ev, o, a: StdStr.construct(a)
    out["ctor:std::allocator<*"] = lambda ev, o, a: Sym.of("allocator")
    out["std::setfill<char>"] = lambda ev, o, a: ("setfill", chr(int(a[0]) & 0xff))
    out["std::setw"] = lambda ev, o, a: ("setw", int(a[0]))
    out["ctor:std::basic_stringstream<*"] = lambda ev, o, a: OStream()
    out["ctor:std::basic_ostringstream<*"] = lambda ev, o, a: OStream()
    out["method:str"] = lambda ev, o, a: StdStr(o.text().encode("latin-1")) if isinstance(o, OStream) else (_ for _ in ()).throw(Broken("str() on an unmodelled object"))
    out["method:what"] = lambda ev, o, a: Ptr([ord(c) & 0xff for c in (o[1] if isinstance(o, tuple) else "error")] + [0], 0)
    out["ctor:std::runtime_error"] = lambda ev, o, a: ("exception", a[0].b.decode("latin-1") if isinstance(a[0], StdStr) else (a[0].cstr() if isinstance(a[0], Ptr) else "error"))
    out["std::operator+<char*"] = lambda ev, o, a: StdStr.of(a[0]).arith("+", a[1])
    out["std::to_string"] = lambda ev, o, a: StdStr(str(int(a[0])).encode())
    return out


def _vector_hooks():
    return {
        "method:size": lambda ev, o, a: len(o.items),
        "method:empty": lambda ev, o, a: not o.items,
        "method:at": lambda ev, o, a: _chk_at(o, a[0]),
        "method:operator[]": lambda ev, o, a: (o.items[o._pos(a[0])[0]][1] if o._pos(a[0])[1] else (_ for _ in ()).throw(Broken("read of a map element that was never stored"))) if isinstance(o, MapObj) else _chk_idx(o, a[0], "operator[]"),
        "method:front": lambda ev, o, a: _chk_idx(o, 0, "front()"),
        "method:back": lambda ev, o, a: _chk_idx(o, len(o.items) - 1, "back()"),
        "method:begin": lambda ev, o, a: It(o, 0),
        "method:cbegin": lambda ev, o, a: It(o, 0),
        "method:end": lambda ev, o, a: It(o, len(o.items)),
        "method:rbegin": lambda ev, o, a: RIt(o, 0),
        "method:crbegin": lambda ev, o, a: RIt(o, 0),
        "method:rend": lambda ev, o, a: RIt(o, len(o.items)),
        "method:crend": lambda ev, o, a: RIt(o, len(o.items)),
        "method:cend": lambda ev, o, a: It(o, len(o.items)),
        "method:push_back": lambda ev, o, a: (o.items.append(_cp(a[0])), _invalidate(o, 0), None)[2],
        "method:emplace_back": lambda ev, o, a: (o.items.append(_cp(a[0])), _invalidate(o, 0), None)[2] if len(a) == 1 else (_ for _ in ()).throw(Broken("emplace_back with %d arguments" % len(a))),
        "method:pop_back": lambda ev, o, a: (_chk_idx(o, len(o.items) - 1, "pop_back()"), o.items.pop(), _invalidate(o, len(o.items)))[1],
        "method:clear": lambda ev, o, a: (o.items.clear(), _invalidate(o, 0), None)[2],
        "method:insert": lambda ev, o, a: (o.insert(a[0]) if isinstance(o, (SetObj, MapObj)) and len(a) == 1 else
                                           ([o.insert(_cp(x)) for x in _elems(a[0], a[1])] and None if isinstance(o, (SetObj, MapObj)) and len(a) == 2 and isinstance(a[0], It) and isinstance(a[1], It)
                                            else _insert(o, a))),
        "method:find": lambda ev, o, a: o.find(a[0]) if isinstance(o, (SetObj, MapObj)) else (_ for _ in ()).throw(Broken("find() on an unmodelled container")),
        "method:count": lambda ev, o, a: (1 if o.find(a[0]).pos < len(o.items) else 0) if isinstance(o, (SetObj, MapObj)) else sum(1 for x in o.items if x == a[0]),
        "method:emplace": lambda ev, o, a: (o.insert((a[0], a[1])) if isinstance(o, MapObj) and len(a) == 2 else
                                            (_insert(o, a) if isinstance(o, Vec) and not isinstance(o, (SetObj, MapObj)) and len(a) == 2 and isinstance(a[0], It) else
                                             (_ for _ in ()).throw(Broken("emplace on an unmodelled container / argument list")))),
        "std::ref<*": lambda ev, o, a: a[0],
        "std::cref<*": lambda ev, o, a: a[0],
        "method:erase": lambda ev, o, a: _erase(o, a),
        "method:operator*": lambda ev, o, a: o.deref() if isinstance(o, It) else (o.load() if isinstance(o, Ptr) else o),
        "method:operator->": lambda ev, o, a: o.deref() if isinstance(o, It) else o,
        "method:operator++": lambda ev, o, a: (_inc(o, 1) if not a else (o.copy_value(), _inc(o, 1))[0]),
        "method:operator--": lambda ev, o, a: (_inc(o, -1) if not a else (o.copy_value(), _inc(o, -1))[0]),
        "method:operator+": lambda ev, o, a: o.arith("+", a[0]),
        "method:operator-": lambda ev, o, a: o.arith("-", a[0]),
        "method:operator+=": lambda ev, o, a: _inc(o, a[0]),
        "method:operator-=": lambda ev, o, a: _inc(o, -a[0]),
        "__gnu_cxx::operator-*": lambda ev, o, a: a[0].arith("-", a[1]),
        "std::begin<*": lambda ev, o, a: It(a[0], 0),
        "std::end<*": lambda ev, o, a: It(a[0], len(a[0].items)),
        "std::find<*": lambda ev, o, a: next((It(a[0].vec, i) for i in range(a[0].pos, a[1].pos) if ev.binop("==", a[0].vec.items[i], a[2])), a[1].copy_value()),
        "std::reverse<*": lambda ev, o, a: a[0].vec.items.__setitem__(slice(a[0].pos, a[1].pos), a[0].vec.items[a[0].pos:a[1].pos][::-1]),
        "std::next<*": lambda ev, o, a: a[0].arith("+", a[1] if len(a) > 1 else 1),
        "std::prev<*": lambda ev, o, a: a[0].arith("-", a[1] if len(a) > 1 else 1),
        "std::distance<*": lambda ev, o, a: a[1].pos - a[0].pos,
        "std::any_of<*": lambda ev, o, a: any(ev.truth(_apply1(ev, a[2], x)) for x in _elems(a[0], a[1])),
        "std::all_of<*": lambda ev, o, a: all(ev.truth(_apply1(ev, a[2], x)) for x in _elems(a[0], a[1])),
        "std::none_of<*": lambda ev, o, a: not any(ev.truth(_apply1(ev, a[2], x)) for x in _elems(a[0], a[1])),
        "std::count_if<*": lambda ev, o, a: sum(1 for x in _elems(a[0], a[1]) if ev.truth(_apply1(ev, a[2], x))),
        "std::find_if<*": lambda ev, o, a: next((It(a[0].vec, i) for i in _rng(a[0], a[1]) if ev.truth(_apply1(ev, a[2], a[0].vec.items[i]))), a[1].copy_value()),
        "std::make_pair<*": lambda ev, o, a: (a[0], a[1]),
        "ctor:std::pair<*": lambda ev, o, a: (a[0], a[1]) if len(a) == 2 else (a[0] if len(a) == 1 and isinstance(a[0], tuple) else (_ for _ in ()).throw(Broken("std::pair constructed from %d arguments" % len(a)))),
        "std::accumulate<*": _accumulate,
        "std::lower_bound<*": _lower_bound,
        "std::binary_search<*": _binary_search,
        "std::sort<*": _sort,
        "method:flags": lambda ev, o, a: (o.get_flags() if not a else o.set_flags(a[0])) if isinstance(o, OStream) else (_ for _ in ()).throw(Broken("flags() on an unmodelled stream")),
        "method:fill": lambda ev, o, a: ((ord(o.fill) if not a else (setattr(o, "fill", chr(int(a[0]) & 0xff)), 0)[1])) if isinstance(o, OStream) else (_ for _ in ()).throw(Broken("fill() on an unmodelled stream")),
        "std::remove_if<*": _remove_if,
        "std::mismatch<*": _mismatch,
        "std::equal<*": _equal,
        "std::search<*": _search,
        "std::min<*": lambda ev, o, a: a[1] if a[1] < a[0] else a[0],
        "std::max<*": lambda ev, o, a: a[1] if a[0] < a[1] else a[0],
    }


class OStream:
    """std::ostream collecting its output; the formatting flags the repository uses are modelled"""
    def __init__(self):
        self.out = []
        self.base, self.showbase, self.boolalpha = 10, False, False
        self.fill, self.width = " ", 0

    @property
    def addr(self):
        return id(self)

    def copy_value(self):
        return self

    def text(self):
        return "".join(self.out)

    def get_flags(self):
        return ("fmtflags", self.base, self.showbase, self.boolalpha)

    def set_flags(self, f):
        if not (isinstance(f, tuple) and f and f[0] == "fmtflags"):
            raise Broken("stream flags set from a value the model does not know")
        old = self.get_flags()
        _, self.base, self.showbase, self.boolalpha = f
        return old

    def _emit(self, text):
        # std::setw applies to the next formatted insertion only; padding on the left (the repository never sets std::left)
        if self.width and len(text) < self.width:
            text = self.fill * (self.width - len(text)) + text
        self.width = 0
        self.out.append(text)

    def put(self, v, t=None):
        if isinstance(v, tuple) and v and v[0] == "setfill":
            self.fill = v[1]
            return self
        if isinstance(v, tuple) and v and v[0] == "setw":
            self.width = v[1]
            return self
        if isinstance(v, Sym):
            q = v.q
            if q in ("std::hex", "std::oct", "std::dec"):
                self.base = {"std::hex": 16, "std::oct": 8, "std::dec": 10}[q]
            elif q in ("std::showbase", "std::noshowbase"):
                self.showbase = q == "std::showbase"
            elif q in ("std::boolalpha", "std::noboolalpha"):
                self.boolalpha = q == "std::boolalpha"
            elif q in ("std::endl<char, std::char_traits<char>>", "std::endl"):
                self.out.append("\n")
            elif q in ("std::flush<char, std::char_traits<char>>", "std::flush"):
                pass
            else:
                raise Broken("stream manipulator %s is not modelled" % q)
            return self
        if isinstance(v, bool):
            self._emit(("true" if v else "false") if self.boolalpha else ("1" if v else "0"))
            return self
        if isinstance(v, StdStr):
            self._emit(v.b.decode("latin-1"))
            return self
        if isinstance(v, Ptr):
            self._emit(v.cstr())
            return self
        if isinstance(v, int):
            ti = tinfo(t)
            if ti is not None and ti[0] == 8:
                self._emit(chr(v & 0xff))       # a char
                return self
            if self.base == 10:
                self._emit(str(v))
            else:
                # hex/oct output converts to the unsigned representation of the operand's width
                bits = ti[0] if ti else 64
                u = v & ((1 << bits) - 1)
                digits = ("%x" if self.base == 16 else "%o") % u
                prefix = ("0x" if self.base == 16 else "0") if (self.showbase and u != 0) else ""
                self._emit(prefix + digits)
            return self
        raise Broken("insertion of %r into a stream is not modelled" % (v,))


UNION_ALIASES = {"mpz_class": {"m_u": "unsigned long", "m_i": "long"}}


class CxxEvaluator(Evaluator):
    def __init__(self, hooks, globals_=None, prog=None, structs=None, defaults=None):
        """structs: aggregate type name -> field names in declaration order (brace initialisation);
        defaults: type name -> factory for a default-constructed object"""
        h = vector_hooks()
        h.update(hooks)
        Evaluator.__init__(self, h, globals_ or {}, ptr_lt=True, prog=prog)
        self.structs = structs or {}
        self.defaults = defaults or {}
        self._dtor_cache = {}
        self.owning_destroy = False       # opt-in: unique_ptr re-assignment destroys the old pointee (whole-engine interpretation)
        self.statics = {}          # function-local statics keep their value between calls of one evaluator

    def arith(self, op, a, b):
        """untyped fallback (no type recorded on the node): unsigned 64-bit"""
        if hasattr(a, "arith"):
            return a.arith(op, b)
        if isinstance(a, (int, bool)) and isinstance(b, (int, bool)):
            return self.typed(op, int(a), int(b), "unsigned long", "unsigned long", "unsigned long", None)
        return Evaluator.arith(self, op, a, b)

    def typed(self, op, a, b, t, ot, rt, loc):
        """C++ semantics of `a op b` for integers: operands converted to their (already promoted) types, the result
        computed exactly and then wrapped (unsigned) or required to be representable (signed: overflow is undefined)"""
        a, b = conv(a, ot or t), conv(b, rt or ot or t)
        if op in ("==", "!=", "<", ">", "<=", ">="):
            return {"==": a == b, "!=": a != b, "<": a < b, ">": a > b, "<=": a <= b, ">=": a >= b}[op]
        ti = tinfo(t) or (64, False)
        bits, signed = ti
        a, b = int(a), int(b)
        if op in ("/", "%"):
            if b == 0:
                raise UndefinedArith("division by zero at %s" % loc)
            q = abs(a) // abs(b)
            if (a < 0) != (b < 0):
                q = -q
            r = q if op == "/" else a - q * b
        elif op in ("<<", ">>"):
            if not (0 <= b < bits):
                raise UndefinedArith("shift by %d on a %d-bit operand at %s" % (b, bits, loc))
            if op == "<<" and signed and a < 0:
                raise UndefinedArith("left shift of a negative value at %s" % loc)
            r = a << b if op == "<<" else a >> b
            if op == "<<" and signed and r >= 1 << (bits - 1):
                raise UndefinedArith("left shift overflows a signed %d-bit value at %s" % (bits, loc))
        else:
            try:
                r = {"+": a + b, "-": a - b, "*": a * b, "|": a | b, "&": a & b, "^": a ^ b}[op]
            except KeyError:
                raise Broken("unmodelled arithmetic operator %s" % op)
        if bits == 1:
            return bool(r)
        if signed:
            if not (-(1 << (bits - 1)) <= r < (1 << (bits - 1))):
                raise UndefinedArith("signed %d-bit overflow in `%d %s %d` at %s" % (bits, a, op, b, loc))
            return r
        return r & ((1 << bits) - 1)

    def call(self, func, this, args):
        if this is None and getattr(self, "null_is_null", False) and func.get("cls") and not func.get("static") \
           and func.get("n") != str(func.get("cls")).split("::")[-1].split("<")[0]:
            # (opt-in: evaluators whose every object is modelled) a non-static member function entered with a null `this`
            raise OutOfBounds("%s is called through a null pointer" % func.get("q"))
        args = [conv(a, p.get("t")) for p, a in zip(func["params"], args)] + list(args[len(func["params"]):])
        return conv(Evaluator.call(self, func, this, args), func.get("ret"))

    def _resolve_virtual(self, cls, fn, nargs, depth=0):
        idx = self.prog.__dict__.get("_method_index")
        if idx is None:
            idx = self.prog.__dict__["_method_index"] = {}
            for f in self.prog.funcs.values():
                if f.get("body") is not None and f.get("cls"):
                    idx.setdefault((f["cls"], f["n"], len(f["params"])), []).append(f)
        cands = idx.get((cls, fn, nargs), [])
        if len(cands) == 1:
            return cands[0]
        if len(cands) > 1:
            raise Broken("virtual call of %s::%s is ambiguous" % (cls, fn))
        if depth < 5:
            for b in (self.prog.records.get(cls) or {}).get("bases", []):
                bn = b if isinstance(b, str) else (b.get("t") or "")
                r = self._resolve_virtual(bn, fn, nargs, depth + 1)
                if r is not None:
                    return r
        return None

    def new_object(self, cls, args=()):
        """an instance of a repository class: built by its constructor of that arity when the facts have one (this runs the default
        member initialisers too), otherwise an object without fields"""
        last = cls.split("::")[-1].split("<")[0]
        cands = [f for f in self.prog.funcs.values() if f.get("cls") == cls and f["n"] == last and len(f["params"]) == len(args)
                 and (f.get("body") is not None or f.get("inits"))] if self.prog is not None else []
        if len(cands) > 1:
            # overloads of one arity: the parameter type names the class (or a base) of the argument object
            def fits(p_, a_):
                t_ = (p_.get("t") or "")
                ac = getattr(a_, "_cls", None)
                if ac:
                    names = [ac] + (self.prog.bases(ac) if hasattr(self.prog, "bases") else [])
                    return any(n_ and n_.split("::")[-1] in t_ for n_ in names)
                return True
            fit = [f for f in cands if all(fits(p_, a_) for p_, a_ in zip(f["params"], args))]
            if len(fit) == 1:
                cands = fit
        if len(cands) == 1:
            return self.construct(cands[0], Obj(cls), list(args))
        o = Obj(cls)
        # no constructor in the facts (implicit and never ODR-used here): the default member initialisers still apply
        def defaults(c, depth=0):
            rec = (self.prog.records.get(c) if self.prog is not None else None) or {}
            for b in rec.get("bases", []):
                bn = b if isinstance(b, str) else (b.get("t") or "")
                if depth < 4:
                    defaults(bn, depth + 1)
            for fl in rec.get("fields", []):
                if fl.get("init") is not None and fl.get("n"):
                    v = self.eval(fl["init"], {}, o)
                    if isinstance(v, list) and len(v) == 1:
                        v = v[0]
                    setattr(o, fl["n"], conv(v, fl.get("t")))
                elif fl.get("n") and (fl.get("t") or "").startswith(("std::unique_ptr<", "std::shared_ptr<")):
                    setattr(o, fl["n"], None)         # a default-constructed smart pointer is null (scalars stay indeterminate)
                elif fl.get("n") and (fl.get("t") or "").startswith("std::vector<"):
                    setattr(o, fl["n"], Vec([], "vector"))
                elif fl.get("n") and (fl.get("t") or "").startswith("nonstd::optional_lite::optional<"):
                    setattr(o, fl["n"], Opt((fl["t"])[len("nonstd::optional_lite::optional<"):-1].strip()))
        defaults(cls)
        return o

    def _alias_sync(self, obj, field, val):
        """members of an anonymous union share their bytes: a store to one is visible, reinterpreted, through the others"""
        al = UNION_ALIASES.get(getattr(obj, "_cls", None))
        if al and field in al and isinstance(val, (int, bool)):
            for other, t in al.items():
                setattr(obj, other, conv(val, t))

    def construct(self, func, this, args):
        """constructor from source: delegating and member initialisers (in declaration order as recorded), then the body"""
        if isinstance(this, (Obj, Struct)):
            this.__dict__["_constructed"] = True       # built by the repository's own constructor: every field it has was stored by it
        env = {}
        for p, a in zip(func["params"], args):
            env[p["id"]] = conv(a, p.get("t"))
        for i in func.get("inits", []):
            if i.get("base") and isinstance(i.get("init"), dict) and i["init"].get("k") == "ctor":
                tgt = self.prog.funcs.get(i["init"].get("fid")) if self.prog else None
                if tgt is not None and (tgt.get("inits") or tgt.get("body") is not None) and not i["init"].get("implicit"):
                    self.construct(tgt, this, [self.eval(a, env, this) for a in i["init"]["a"]])
                continue
            if i.get("delegating"):
                tgt = self.prog.funcs.get(i["init"].get("fid")) if self.prog else None
                if tgt is None:
                    raise Broken("delegating constructor target %s unknown" % i["init"].get("fid"))
                self.construct(tgt, this, [self.eval(a, env, this) for a in i["init"]["a"]])
            elif i.get("field") is not None:
                v = self.eval(i["init"], env, this)
                if isinstance(v, list) and len(v) == 1:
                    v = v[0]
                if isinstance(i["init"], dict) and i["init"].get("k") == "ilist":
                    v = conv(v, i["init"].get("t"))
                if hasattr(this, "on_store"):
                    v = this.on_store(i["field"], v)
                if i["field"] == "":
                    continue        # anonymous union member: initialised through its named members
                setattr(this, i["field"], v)
                self._alias_sync(this, i["field"], v)
        from absint import Ret
        try:
            self.block(func.get("body"), env, this)
        except Ret:
            pass
        return this

    def _default(self, t):
        t = (t or "").replace("const ", "").strip()
        if t in self.defaults:
            return self.defaults[t]()
        if t in self.structs:
            return Struct(t, {f: None for f in self.structs[t]})
        return None

    def _dtor_of(self, obj):
        cls = getattr(obj, "_cls", None)
        if not cls or self.prog is None:
            return None
        key = ("dtor", cls)
        if key not in self._dtor_cache:
            last = cls.split("::")[-1].split("<")[0]
            c = [f for f in self.prog.funcs.values() if f.get("cls") == cls and f["n"] == "~" + last and f.get("body") is not None]
            self._dtor_cache[key] = c[0] if len(c) == 1 else None
        return self._dtor_cache[key]

    def run_dtor(self, obj):
        d = self._dtor_of(obj)
        if d is not None and not getattr(obj, "_destroyed", False):
            obj._destroyed = True
            self.call(d, obj, [])

    def destroy(self, obj, depth=0):
        """end of an object's lifetime: its destructor body, then its members in reverse declaration order (members held by value,
        by optional or by unique_ptr are destroyed with it; shared_ptr members only drop a reference, which is not modelled)"""
        if obj is None or depth > 12:
            return
        if isinstance(obj, Opt):
            if obj.val is not None:
                self.destroy(obj.val, depth + 1)
            obj.val = None
            return
        if isinstance(obj, Vec) and not isinstance(obj, (SetObj, MapObj)):
            return
        if not isinstance(obj, Obj) or getattr(obj, "_dead", False):
            return
        obj._dead = True
        self.run_dtor(obj)
        rec = (self.prog.records.get(getattr(obj, "_cls", "")) if self.prog is not None else None) or {}
        for fl in reversed(rec.get("fields", [])):
            t = (fl.get("t") or "").replace("const ", "").strip()
            v = getattr(obj, fl.get("n", ""), None) if fl.get("n") else None
            if v is None:
                continue
            if t.startswith("nonstd::optional_lite::optional<") or t.startswith("std::unique_ptr<") or (self.prog is not None and t in self.prog.records):
                if isinstance(v, (Obj, Opt)):
                    self.destroy(v, depth + 1)

    def opt_call(self, o, fn, args, e):
        """member functions of nonstd::optional"""
        if fn in ("operator bool", "has_value"):
            return o.val is not None
        if fn in ("operator->", "operator*", "value"):
            if o.val is None:
                raise OutOfBounds("access to the value of an empty optional at %s" % e.get("l"))
            return o.val
        if fn == "reset":
            if o.val is not None:
                self.destroy(o.val)
            o.val = None
            return None
        if fn == "emplace":
            if o.val is not None:
                self.destroy(o.val)
            t = o.elem_t
            if t.startswith("std::basic_string<"):
                o.val = StdStr.construct(args)
            elif self.prog is not None and t in self.prog.records:
                o.val = self.new_object(t, args)
            elif len(args) == 1:
                o.val = _cp(args[0])
            else:
                raise Broken("optional<%s>::emplace with %d arguments is not modelled" % (t, len(args)))
            return o.val
        if fn == "operator=":
            v = args[0] if args else None
            if isinstance(v, Sym) and "nullopt" in str(getattr(v, "q", v)):
                v = None
            if isinstance(v, Opt):
                v = v.val
            if o.val is not None and v is not o.val:
                self.destroy(o.val)
            o.val = _cp(v) if v is not None else None
            return o
        raise Broken("optional::%s is not modelled (at %s)" % (fn, e.get("l")))

    def block(self, s, env, this):
        if isinstance(s, dict) and s.get("k") == "block":
            # automatic objects of repository classes with a destructor are destroyed when the block is left, in reverse order of
            # their declaration, whichever way it is left (RAII guards)
            ids = [v["id"] for st in s.get("s", []) if isinstance(st, dict) and st.get("k") == "decl" for v in st["vars"] if not v.get("static")]
            if not ids:
                return Evaluator.block(self, s, env, this)
            escaping = None
            try:
                return Evaluator.block(self, s, env, this)
            except Ret as r:
                escaping = r.v
                raise
            finally:
                for vid in reversed(ids):
                    o = env.get(vid) if not isinstance(env, LayerEnv) else dict.get(env, vid)
                    if isinstance(o, Obj) and o is not escaping and self._dtor_of(o) is not None:
                        self.destroy(o)
        if isinstance(s, dict) and s.get("k") in ("cast", "ctor") and self.prog is not None:
            # an expression statement that only creates a temporary (`guard {x};`): the temporary dies at the end of the statement
            self.steps += 1
            v = self.eval(s, env, this)
            if isinstance(v, Obj) and self._dtor_of(v) is not None:
                self.destroy(v)
            return
        if isinstance(s, dict) and s.get("k") == "decl":
            self.steps += 1
            for v in s["vars"]:
                if v.get("static"):
                    if v["id"] not in self.statics:
                        if v.get("init") is None:
                            t0 = v.get("t", "")
                            self.statics[v["id"]] = self._default(t0) if tinfo(t0) is None else conv(0, t0)
                        else:
                            self.statics[v["id"]] = conv(self.eval(v["init"], env, this), v.get("t"))
                    continue
                if v.get("init") is None:
                    t = v.get("t", "")
                    if t.endswith("]") and "[" in t:
                        n = t[t.index("[") + 1:-1]
                        if n.isdigit():
                            env[v["id"]] = Buf(int(n))
                        elif v.get("vla") is not None:
                            sz = self.eval(v["vla"], env, this)
                            if not isinstance(sz, int) or sz < 0 or sz > 1 << 20:
                                raise OutOfBounds("variable-length array `%s` of size %s at %s" % (v["n"], sz, v.get("l")))
                            env[v["id"]] = Buf(sz)
                        else:
                            env[v["id"]] = None
                    else:
                        env[v["id"]] = self._default(t)
                else:
                    val = self.eval(v["init"], env, this)
                    t = v.get("t", "")
                    if isinstance(val, list) and t.replace("const ", "") in self.structs:
                        val = Struct(t.replace("const ", ""), dict(zip(self.structs[t.replace("const ", "")], val)))
                    env[v["id"]] = conv(val, t)
            return
        return Evaluator.block(self, s, env, this)

    def eval(self, e, env, this):
        if e is None:
            return None
        k = e.get("k")
        if k == "call" and e.get("fn") == "reset" and (e.get("cls") or "").startswith(("std::unique_ptr<", "std::shared_ptr<")) and e.get("obj") is not None \
           and isinstance(e["obj"], dict) and e["obj"].get("k") in ("ref", "mem"):
            # p.reset (q): p now points at q (what a unique_ptr owned so far is deleted by the store)
            val = self.eval(e["a"][0], env, this) if e.get("a") else None
            self.store(e["obj"], val, env, this)
            return None
        if k == "call" and e.get("fn") == "operator=" and (e.get("cls") or "").startswith(("std::unique_ptr<", "std::shared_ptr<")) and e.get("a"):
            # (move) assignment of a smart pointer: the target is re-bound (a unique_ptr deletes what it owned), a moved-from source is null
            lhs_n, rhs_n = (e["obj"], e["a"][0]) if e.get("obj") is not None else ((e["a"][0], e["a"][1]) if len(e["a"]) == 2 else (None, None))
            if lhs_n is not None:
                val = self.eval(rhs_n, env, this)
                self.store(lhs_n, val, env, this)
                self._null_moved_from(rhs_n, env, this)
                return val
        if k == "call" and (e.get("f") or "").startswith("std::make_pair<") and len(e.get("a", [])) == 2 and self.hook_for(e["f"]) is self.hooks.get("std::make_pair<*"):
            vals = [self.eval(a, env, this) for a in e["a"]]
            for a in e["a"]:
                self._null_moved_from(a, env, this)         # make_pair (std::move (p), ...) takes the pointer over
            return (vals[0], vals[1])
        if k == "call" and e.get("fn") == "emplace_back" and (e.get("cls") or "").startswith("std::vector<std::basic_string<") and e.get("obj") is not None and len(e.get("a", [])) != 1:
            # the element is constructed in place from the arguments: std::string (ptr, len), (count, char), () ...
            o = self.eval(e["obj"], env, this)
            args = [self.eval(a, env, this) for a in e["a"]]
            if isinstance(o, Vec):
                o.items.append(StdStr.construct(args))
                _invalidate(o, 0)
                return None
        if k == "call" and e.get("fn") == "emplace" and (e.get("cls") or "").startswith("std::map<") and e.get("obj") is not None and len(e.get("a", [])) == 2:
            m = self.eval(e["obj"], env, this)
            if isinstance(m, MapObj):
                key, arg = self.eval(e["a"][0], env, this), self.eval(e["a"][1], env, this)
                ta = _targs_of(e["cls"])
                vt = ta[1] if len(ta) >= 2 else None
                # the mapped value is constructed in place from the argument
                if vt and self.prog is not None and vt in self.prog.records and getattr(arg, "_cls", None) != vt:
                    arg = self.new_object(vt, [arg])
                return m.insert((_cp(key), arg))
        if k == "call" and (e.get("cls") or "").startswith("nonstd::optional_lite::optional<"):
            tgt = e.get("obj") if e.get("obj") is not None else (e["a"][0] if e.get("a") else None)
            o = self.eval(tgt, env, this) if tgt is not None else None
            if isinstance(o, Opt):
                rest = e.get("a", []) if e.get("obj") is not None else e.get("a", [])[1:]
                return self.opt_call(o, e.get("fn"), [self.eval(a, env, this) for a in rest], e)
        if k == "call" and (e.get("f") or "").startswith(("nonstd::optional_lite::operator==", "nonstd::optional_lite::operator!=")) and len(e.get("a", [])) == 2:
            l_, r_ = self.eval(e["a"][0], env, this), self.eval(e["a"][1], env, this)
            isnull = lambda z: z is None or (isinstance(z, Sym) and "nullopt" in str(getattr(z, "q", z))) or (isinstance(z, Opt) and z.val is None)
            if isinstance(l_, Opt) or isinstance(r_, Opt):
                if isnull(l_) or isnull(r_):
                    eq = isnull(l_) and isnull(r_)
                else:
                    eq = self.truth(self.binop("==", l_.val if isinstance(l_, Opt) else l_, r_.val if isinstance(r_, Opt) else r_))
                return eq if "operator==" in e["f"] else not eq
        if k == "other" and e.get("cls") in ("CompoundLiteralExpr", "MaterializeTemporaryExpr", "CXXBindTemporaryExpr", "ExprWithCleanups") and e.get("sub"):
            return self.eval(e["sub"][0], env, this)
        if k == "ilist" and len(e.get("a", [])) == 1 and self.prog is not None:
            # `T &r {obj}` / `T x {same_type_obj}`: list-initialisation from an object of the very type binds / copies that object
            t1 = (e.get("t") or "").replace("const ", "").rstrip("& ").strip()
            a0 = e["a"][0]
            st0 = (a0.get("t") or "").replace("const ", "").rstrip("& ").strip() if isinstance(a0, dict) else ""
            if t1 and t1 == st0 and t1 in self.prog.records:
                return self.eval(a0, env, this)
        if k == "ilist" and (e.get("t") or "").replace("const ", "") not in self.structs and self.prog is not None:
            t = (e.get("t") or "").replace("const ", "")
            rec = self.prog.records.get(t)
            if rec is not None and rec.get("fields") and not rec.get("bases") and len(e.get("a", [])) <= len(rec["fields"]):
                self.structs[t] = [f["n"] for f in rec["fields"]]     # aggregate initialisation of a repository struct
        if k == "ilist" and (e.get("t") or "").replace("const ", "") in self.structs:
            t = e["t"].replace("const ", "")
            vals = [self.eval(a, env, this) for a in e["a"]]
            return Struct(t, dict(zip(self.structs[t], vals + [0] * (len(self.structs[t]) - len(vals)))))
        if k == "str":
            return Ptr([ord(c) for c in e["v"]] + [0], 0)
        if k == "ref" and e.get("d") == "global" and e.get("q") not in self.globals and "iv" in e and tinfo(e.get("t")) is not None:
            return conv(int(e["iv"]), e.get("t"))
        if k == "str" and False:
            pass
        if k == "ref" and e.get("d") == "global" and e.get("q") not in self.globals and tinfo(e.get("t")) is None:
            return Sym.of(e.get("q"))
        if k == "ref" and e.get("d") == "slocal" and e.get("id") in self.statics:
            return self.statics[e["id"]]
        if k == "new":
            if e.get("array"):
                raise Broken("array new is not modelled")
            if e.get("init") is None:
                return self._default(e.get("t")) or Struct(e.get("t") or "?", {})
            return self.eval(e["init"], env, this)           # a pointer to an object is the object
        if k == "delete":
            self.eval(e.get("e"), env, this)
            return None
        if k == "ref" and e.get("d") == "func":
            f = self.prog.funcs.get(e.get("fid")) if self.prog else None
            if f is None:
                return Sym.of(e.get("q"))        # a library function used as a value (stream manipulators)
            return f
        if k == "un" and e.get("op") == "&":
            u = e["e"]
            while isinstance(u, dict) and u.get("k") == "cast":
                u = u["e"]
            if isinstance(u, dict) and u.get("k") == "call" and u.get("fn") == "operator*" and not (self.prog is not None and (self.prog.funcs.get(u.get("fid")) or {}).get("body") is not None) \
               and self.hook_for(u.get("f", "")) is None:
                it = self.eval(u.get("obj") if u.get("obj") is not None else u["a"][0], env, this)      # evaluated exactly once
                if isinstance(it, It) and not isinstance(it, RIt) and it.vec.items and isinstance(it.vec.items[0], (int, bool)):
                    return Ptr(it.vec.items, it.pos)      # address of an element of a vector of scalars: a pointer into its storage
                if isinstance(it, It):
                    return it.deref()                     # the address of an object is the object
                if isinstance(it, (Ptr, VarPtr)):
                    return it
                return it                                 # smart pointer: &*p is the pointee
            if isinstance(u, dict) and u.get("k") == "ref" and u.get("d") in ("local", "param", "slocal"):
                cur = env.get(u["id"])
                if cur is None or isinstance(cur, (int, bool)):
                    vid, vt = u["id"], u.get("t")
                    return VarPtr(lambda: env.get(vid), lambda v: env.__setitem__(vid, conv(v, vt)), u.get("n"))
            if isinstance(u, dict) and u.get("k") == "mem":
                b = self.eval(u["b"], env, this)
                cur = getattr(b, u["n"], None) if not isinstance(b, dict) else b.get(u["n"])
                if (cur is None or isinstance(cur, (int, bool))) and isinstance(b, (Obj, Struct)):
                    nm, vt = u["n"], u.get("t")
                    return VarPtr(lambda: getattr(b, nm, None), lambda v: setattr(b, nm, conv(v, vt)), nm)
        if k == "ctor":
            c = (e.get("c") or "")
            h = self.hook_for("ctor:" + c)
            if h is not None:
                return h(self, None, [self.eval(a, env, this) for a in e.get("a", [])])
            if not e.get("a") and self.hook_for("ctor:" + c) is None:
                d = self._default(c)
                if d is not None:
                    return d
            if not e.get("a") and c.startswith("std::set<"):
                ta = _targs_of(c)
                if len(ta) >= 2 and self.prog is not None and ta[1] in self.prog.records:
                    return CmpSet(self, self.new_object(ta[1]))
                return SetObj()
            if not e.get("a") and c.startswith("std::map<"):
                return MapObj()
            if not e.get("a") and c.startswith("std::vector<"):
                return Vec([], "vector")
            if not e.get("a") and e.get("implicit") and self.hook_for("ctor:" + c) is None and \
               not (self.prog is not None and (self.prog.funcs.get(e.get("fid")) or {}).get("inits")):
                return Struct(c, {})       # implicitly default-constructed aggregate: fields are set by whoever fills it
            f = self.prog.funcs.get(e.get("fid")) if (self.prog is not None and e.get("own")) else None
            if f is not None and not e.get("implicit") and self.hook_for("ctor:" + c) is None and (f.get("body") is not None or f.get("inits")):
                return self.construct(f, Obj(c), [self.eval(a, env, this) for a in e["a"]])
            if c.startswith("std::vector<") and self.hook_for("ctor:" + c) is None:
                vals = [self.eval(a, env, this) for a in e.get("a", [])
                        if not (isinstance(unwrap(a), dict) and unwrap(a).get("k") == "ctor" and (unwrap(a).get("c") or "").startswith("std::allocator<"))]
                if not vals:
                    return Vec([], "vector")
                if len(vals) == 1 and isinstance(vals[0], list):
                    return Vec([_cp(x) for x in vals[0]], "vector")
                if len(vals) == 1 and isinstance(vals[0], Vec):
                    return vals[0].copy_value()
                fid_ = e.get("fid") or ""
                if len(vals) == 2 and isinstance(vals[0], It) and isinstance(vals[1], It) and vals[0].vec is vals[1].vec:
                    return Vec([_cp(x) for x in vals[0].vec.items[vals[0].pos:vals[1].pos]], "vector")       # vector (first, last)
                if vals and isinstance(vals[0], int) and not isinstance(vals[0], bool) and "::vector(unsigned long" in fid_:
                    # vector (n) / vector (n, value): n value-initialised elements, or n copies
                    n_ = vals[0]
                    if not (0 <= n_ <= 1 << 16):
                        raise OutOfBounds("vector of %d elements at %s" % (n_, e.get("l")))
                    if len(vals) == 2:
                        return Vec([_cp(vals[1]) for _ in range(n_)], "vector")
                    et = c[len("std::vector<"):].strip()
                    if et.startswith(("std::unique_ptr<", "std::shared_ptr<")) or et.split(",")[0].rstrip().endswith("*"):
                        return Vec([None] * n_, "vector")
                    if tinfo(et.split(",")[0].strip()) is not None:
                        return Vec([0] * n_, "vector")
                raise Broken("vector constructor with unmodelled arguments at %s" % e.get("l"))
            if len(e.get("a", [])) == 1 and e.get("cm") and c.startswith(("std::shared_ptr<", "std::unique_ptr<", "std::__shared_ptr<")):
                v = self.eval(e["a"][0], env, this)         # copying/moving a smart pointer shares the pointee
                if e.get("cm") == "move":
                    self._null_moved_from(e["a"][0], env, this)
                return v
            if len(e.get("a", [])) == 1 and (e.get("cm") or "__normal_iterator<" in c):
                v = self.eval(e["a"][0], env, this)
                return v.copy_value() if hasattr(v, "copy_value") else v
        if k == "bin" and e.get("op") not in (",", "&&", "||"):
            a = self.eval(e["lhs"], env, this)
            b = self.eval(e["rhs"], env, this)
            if isinstance(a, (int, bool)) and isinstance(b, (int, bool)) and (e.get("t") or e.get("ot")):
                return self.typed(e["op"], a, b, e.get("t"), e.get("ot"), e.get("rt"), e.get("l"))
            return self.binop(e["op"], a, b)
        if k == "cast":
            v = self.eval(e["e"], env, this)
            if isinstance(v, list) and len(v) <= 1 and tinfo((e.get("t") or "").replace("const ", "")) is not None:
                return conv(v[0] if v else 0, e.get("t"))        # `size_t {1}` / `int {}`: a scalar
            if isinstance(v, list) and not v and self.prog is not None and (e.get("t") or "").replace("const ", "") in self.prog.records:
                return self.new_object((e.get("t") or "").replace("const ", ""))      # `T {}` of a repository class: value-initialised object
            if e.get("ck") == "reinterpret" and hasattr(v, "reinterpret_as"):
                # an abstract library object states itself what a reinterpretation of its storage reads (its first member)
                return v.reinterpret_as(e.get("t"))
            return conv(v, e.get("t"))
        if k == "asg":
            rhs = self.eval(e["rhs"], env, this)
            op = e["op"]
            if op != "=":
                cur = self.eval(e["lhs"], env, this)
                if isinstance(cur, (int, bool)) and isinstance(rhs, (int, bool)):
                    ct = e.get("ct") or e.get("t")
                    rhs = self.typed(op[:-1], cur, rhs, ct, e.get("clt") or ct, ct if op[:-1] not in ("<<", ">>") else e.get("rt"), e.get("l"))
                else:
                    rhs = self.arith(op[:-1], cur, rhs)
            rhs = conv(rhs, e.get("t") or e.get("ot"))
            self.store(e["lhs"], rhs, env, this)
            return rhs
        if k == "un" and e.get("op") in ("-", "~", "+") :
            v = self.eval(e["e"], env, this)
            if not isinstance(v, (int, bool)):
                if isinstance(v, tuple) and v and v[0] == "enum" and v[2] is not None:
                    v = int(v[2])
                else:
                    raise Broken("unary %s on a value the evaluator does not model at %s" % (e["op"], e.get("l")))
            if isinstance(v, (int, bool)):
                t = e.get("t") or "unsigned long"
                v = conv(v, t)
                bits, signed = tinfo(t) or (64, False)
                r = {"-": -int(v), "~": ~int(v), "+": int(v)}[e["op"]]
                if signed and not (-(1 << (bits - 1)) <= r < (1 << (bits - 1))):
                    raise UndefinedArith("signed %d-bit overflow in `%s%d` at %s" % (bits, e["op"], v, e.get("l")))
                return conv(r, t)
        if k == "un" and e.get("op") in ("++", "--"):
            cur = self.eval(e["e"], env, this)
            if isinstance(cur, (int, bool)):
                t = e.get("t") or e.get("ot") or "unsigned long"
                new = self.typed("+" if e["op"] == "++" else "-", cur, 1, t, t, t, e.get("l"))
                self.store(e["e"], new, env, this)
                return cur if e.get("post") else new
        if k == "un" and e.get("op") == "*":
            v = self.eval(e["e"], env, this)
            if isinstance(v, (Ptr, VarPtr)):
                return v.load()
            if isinstance(v, It):
                return v.deref()
            if hasattr(v, "load") and getattr(v, "is_pointer_model", False):
                return v.load()           # a rule's own model of a pointer (e.g. a pointer into an iterator)
            return v
        if k == "un" and e.get("op") in ("++", "--") and True:
            cur = self.eval(e["e"], env, this)
            if isinstance(cur, (Ptr, It)):
                new = cur.arith("+" if e["op"] == "++" else "-", 1)
                self.store(e["e"], new, env, this)
                return cur if e.get("post") else new
        if k == "sizeof" and "iv" not in e:
            raise Broken("sizeof without a compile-time value")
        if k == "idx":
            b = self.eval(e["b"], env, this)
            i = self.eval(e["i"], env, this)
            if isinstance(b, Buf):
                b = Ptr(b, 0)
            if isinstance(b, Ptr):
                return b.arith("+", i).load()
            if isinstance(b, Vec):
                return _chk_idx(b, i, "operator[]")
            if isinstance(b, It):
                return b.arith("+", i).deref()
            raise Broken("subscript of an object the evaluator does not model")
        if k == "mem":
            b = self.eval(e["b"], env, this)
            if isinstance(b, It):
                b = b.deref()
            if isinstance(b, Ptr) and e.get("arrow") and e["n"] != "":
                b = b.load()          # p->field on a pointer into an array of structs
            if isinstance(b, (Obj, Struct)):
                if e["n"] == "":
                    return b
                if not hasattr(b, e["n"]):
                    if not b.__dict__.get("_constructed"):
                        # an object a rule put together by hand: a field the rule did not specify is an unspecified value (copying it
                        # around - an explicit copy constructor - is harmless; deciding on it is an unmodelled case further down)
                        return Sym.of("unspecified:" + e["n"])
                    raise OutOfBounds("read of the field %s of %s before anything was stored in it" % (e["n"], getattr(b, "_cls", getattr(b, "_t", "?"))))
                return getattr(b, e["n"])
            # (the base class would evaluate e["b"] a second time: finish here with the value already computed)
            if e["n"] == "":
                return b
            if isinstance(b, tuple) and e["n"] in ("first", "second") and (not b or b[0] != "enum"):
                return b[0 if e["n"] == "first" else 1]
            if isinstance(b, dict):
                if e["n"] not in b:
                    raise Broken("abstract object has no field %s" % e["n"])
                return b[e["n"]]
            if hasattr(b, e["n"]):
                return getattr(b, e["n"])
            if b is None and e.get("arrow"):
                bt = str((unwrap(e["b"]) or {}).get("t", "")) if isinstance(e.get("b"), dict) else ""
                if bt.rstrip().endswith("*") or bt.startswith(("std::unique_ptr<", "std::shared_ptr<", "const std::unique_ptr<", "const std::shared_ptr<")) or getattr(self, "null_is_null", False):
                    raise OutOfBounds("the field %s is read through a null pointer at %s" % (e["n"], e.get("l")))
            raise Broken("read of the field %s of an object the domain does not model (%s)" % (e["n"], type(b).__name__))
        if k == "call" and e.get("f", "").startswith(("std::make_unique<", "std::make_shared<")) and self.hook_for(e["f"]) is None and self.prog is not None and e.get("targs"):
            T = e["targs"][0]
            args = [self.eval(a, env, this) for a in e.get("a", [])]
            if T.startswith("std::basic_string<"):
                return StdStr.construct(args)
            if T.startswith("std::vector<"):
                return Vec([] if not args else list(args[0].items if isinstance(args[0], Vec) else args[0]), "vector")
            last = T.split("::")[-1].split("<")[0]
            cands = [f for f in self.prog.funcs.values() if f.get("cls") == T and f["n"] == last and len(f["params"]) == len(args)
                     and (f.get("body") is not None or f.get("inits"))]
            if not cands:
                # inherited constructors (`using base::base;`): the base's constructor initialises the derived object
                for b in (self.prog.records.get(T) or {}).get("bases", []):
                    bn = b if isinstance(b, str) else (b.get("t") or b.get("n", ""))
                    bl = bn.split("::")[-1].split("<")[0]
                    cands += [f for f in self.prog.funcs.values() if f.get("cls") == bn and f["n"] == bl and len(f["params"]) == len(args)
                              and (f.get("body") is not None or f.get("inits"))]
            if len(cands) > 1 and len(e["targs"]) == len(args) + 1:
                norm = lambda t: t.replace("const ", "").replace("&", "").replace(" ", "")
                want = [norm(t) for t in e["targs"][1:]]
                exact = [f for f in cands if [norm(p_.get("t", "")) for p_ in f["params"]] == want]
                if len(exact) == 1:
                    cands = exact
            if len(cands) > 1:
                # overloads of the same arity: keep those whose parameter kinds fit the argument values
                def fits(p_, a_):
                    t_ = (p_.get("t") or "").replace("const ", "").strip()
                    smart = t_.startswith(("std::shared_ptr<", "std::unique_ptr<"))
                    if isinstance(a_, (Vec,)):
                        return not smart and (("vector" in t_) or ("seq_t" in t_) or ("set<" in t_) or ("map<" in t_))
                    if isinstance(a_, bool) or (isinstance(a_, int)):
                        return tinfo(t_.rstrip("&").strip()) is not None or t_ in ("size_t", "std::size_t")
                    if isinstance(a_, StdStr):
                        return "string" in t_
                    return True
                fit = [f for f in cands if all(fits(p_, a_) for p_, a_ in zip(f["params"], args))]
                if len(fit) == 1:
                    cands = fit
            if len(cands) == 1:
                return self.construct(cands[0], Obj(T), args)
            if not cands and not args and T in self.prog.records:
                return self.new_object(T)         # implicit default constructor
            if len(args) == 1 and isinstance(args[0], Obj) and args[0]._cls == T:
                return args[0].copy_value()
            raise Broken("cannot resolve the constructor of %s with %d arguments (%d candidates)" % (T, len(args), len(cands)))
        if k == "call" and e.get("virt") and e.get("own") and e.get("obj") is not None and self.prog is not None and self.hook_for(e.get("f", "")) is None:
            # virtual call on an interpreted object: dispatch on the object's dynamic class
            o = self.eval(e["obj"], env, this)
            args = [self.eval(a, env, this) for a in e.get("a", [])]
            target = None
            if isinstance(o, Obj):
                target = self._resolve_virtual(o._cls, e.get("fn"), len(args))
            if target is None:
                static = self.prog.funcs.get(e.get("fid"))
                h = self.hooks.get("method:" + e["fn"]) if e.get("fn") else None
                if static is not None and static.get("body") is not None:
                    target = static
                elif h is not None:
                    return h(self, o, args)
                else:
                    raise Broken("virtual call of %s on %s cannot be resolved (at %s)" % (e.get("f"), getattr(o, "_cls", type(o).__name__), e.get("l")))
            r_ = self.call(target, o, args)
            self.copy_out(target["params"], e.get("a", []), self._last_env, env, this)
            return r_
        if k == "call" and e.get("fn") == "operator<<" and e.get("a") and not (self.prog is not None and (self.prog.funcs.get(e.get("fid")) or {}).get("body") is not None):
            # insertion into a std::ostream (member or free operator<< of the library)
            aa = ([e["obj"]] if e.get("obj") is not None else []) + list(e["a"])
            if len(aa) == 2:
                strm = self.eval(aa[0], env, this)
                if isinstance(strm, OStream):
                    val = self.eval(aa[1], env, this)
                    ua = unwrap(aa[1])
                    t = ua.get("t") if isinstance(ua, dict) else None
                    if isinstance(ua, dict) and ua.get("k") == "chr":
                        t = "char"
                    # the overload the compiler selected says how the operand is formatted
                    fid = e.get("fid") or ""
                    ptail = fid[fid.rfind(",") + 1:fid.rfind(")")].strip() if fid.endswith(")") and "," in fid else (fid[fid.rfind("(") + 1:fid.rfind(")")].strip() if fid.endswith(")") else "")
                    if ptail in ("char", "signed char", "unsigned char"):
                        t = ptail
                    return strm.put(val, t)
        if k == "call" and e.get("f", "").startswith("std::swap<") and len(e.get("a", [])) == 2:
            a = self.eval(e["a"][0], env, this)
            b = self.eval(e["a"][1], env, this)
            if a is not b and type(a) is type(b) and isinstance(a, (Vec, Obj, Struct, StdStr)):
                # the two objects exchange their contents where they are: whoever refers to them (a reference variable, the owner
                # a getter returned them from) sees the exchange
                a.__dict__, b.__dict__ = b.__dict__, a.__dict__
                return None
            self.store(e["a"][0], _cp(b), env, this)
            self.store(e["a"][1], _cp(a), env, this)
            return None
        if k == "ref" and e.get("d") in ("local", "param", "slocal") and e.get("id") in env and isinstance(env[e["id"]], Buf):
            return Ptr(env[e["id"]], 0)          # array-to-pointer decay
        return Evaluator.eval(self, e, env, this)

    def _null_moved_from(self, a, env, this):
        """a smart pointer that is move-constructed from `std::move (lvalue)` leaves the lvalue null"""
        u = a
        while isinstance(u, dict) and u.get("k") in ("cast", "paren") and isinstance(u.get("e"), dict):
            u = u["e"]
        if not (isinstance(u, dict) and u.get("k") == "call" and (u.get("f") or "").startswith("std::move<") and len(u.get("a", [])) == 1):
            return
        src = u["a"][0]
        while isinstance(src, dict) and src.get("k") in ("cast", "paren") and isinstance(src.get("e"), dict):
            src = src["e"]
        if not isinstance(src, dict):
            return
        st = (src.get("t") or "")
        if not st.replace("const ", "").startswith(("std::unique_ptr<", "std::shared_ptr<")):
            return
        try:
            if src.get("k") in ("ref", "mem", "idx"):
                self.store(src, None, env, this)
            elif src.get("k") == "call" and src.get("fn") == "operator[]" and src.get("a"):
                # member operator written infix: the container is the first argument
                cont, idx = (src["obj"], src["a"][0]) if src.get("obj") is not None else ((src["a"][0], src["a"][1]) if len(src["a"]) == 2 else (None, None))
                if cont is None:
                    return
                vec = self.eval(cont, env, this)
                i = self.eval(idx, env, this)
                if isinstance(vec, Vec) and isinstance(i, int) and 0 <= i < len(vec.items):
                    vec.items[i] = None
        except Broken:
            pass

    def store(self, lhs, val, env, this):
        u = lhs
        while isinstance(u, dict) and u.get("k") == "cast":
            u = u["e"]
        k = u.get("k")
        if k == "un" and u.get("op") == "*":
            tgt = self.eval(u["e"], env, this)
            if isinstance(tgt, (Ptr, VarPtr)):
                tgt.store(val)
                return
            if isinstance(tgt, It):
                tgt = tgt.deref()
            if hasattr(tgt, "assign_from"):
                tgt.assign_from(val)
                return
            raise Broken("store through a pointer the evaluator does not model")
        if k == "idx":
            b = self.eval(u["b"], env, this)
            i = self.eval(u["i"], env, this)
            if isinstance(b, Buf):
                b = Ptr(b, 0)
            if isinstance(b, Ptr):
                b.arith("+", i).store(val)
                return
            raise Broken("store to a subscript the evaluator does not model")
        if k == "call" and u.get("fn") == "operator[]" and u.get("a"):
            cont_n, idx_n = (u["obj"], u["a"][0]) if u.get("obj") is not None else ((u["a"][0], u["a"][1]) if len(u["a"]) == 2 else (None, None))
            if cont_n is not None:
                cont = self.eval(cont_n, env, this)
                if isinstance(cont, MapObj):
                    key = self.eval(idx_n, env, this)
                    i_, hit = cont._pos(key)
                    if hit:
                        cont.items[i_] = (cont.items[i_][0], val)
                    else:
                        cont.items.insert(i_, (_cp(key), val))
                    return
                if isinstance(cont, Vec) and not isinstance(cont, SetObj):
                    i_ = self.eval(idx_n, env, this)
                    if not (isinstance(i_, int) and 0 <= i_ < len(cont.items)):
                        raise OutOfBounds("store to element %s of a vector of %d" % (i_, len(cont.items)))
                    cont.items[i_] = val
                    return
        if k == "call":
            tgt = self.eval(u, env, this)
            if hasattr(tgt, "assign_from"):
                tgt.assign_from(val)
                return
            raise Broken("store to the result of a call the evaluator does not model")
        if k == "ref" and u.get("d") == "slocal" and u.get("id") in self.statics:
            cur = self.statics[u["id"]]
            if hasattr(cur, "assign_from") and hasattr(val, "assign_from") and type(cur) is type(val):
                cur.assign_from(val)
            else:
                self.statics[u["id"]] = conv(val, u.get("t"))
            return
        if k == "ref":
            t = u.get("t", "")
            cur = env.get(u["id"])
            if isinstance(cur, StdStr) and isinstance(val, (StdStr, Ptr)) and not t.rstrip().endswith("*"):
                cur.assign_from(val)
                return
            is_handle = t.replace("const ", "").strip().startswith(("std::shared_ptr<", "std::unique_ptr<"))       # assignment rebinds the pointer
            if t.replace("const ", "").strip().startswith("std::unique_ptr<") and isinstance(cur, Obj) and cur is not val and self.owning_destroy:
                self.destroy(cur)         # the object owned so far is deleted
            if hasattr(cur, "assign_from") and hasattr(val, "assign_from") and not t.rstrip().endswith("*") and not is_handle and type(cur) is type(val) and not isinstance(cur, (Ptr,)):
                cur.assign_from(val)       # value semantics: the object keeps its identity
                return
            env[u["id"]] = val
            return
        if k == "mem":
            b = self.eval(u["b"], env, this)
            if isinstance(b, It):
                b = b.deref()
            if isinstance(b, tuple) and u["n"] in ("first", "second") and (not b or b[0] != "enum") and len(b) == 2:
                # std::pair is modelled as an immutable tuple: a store to one component replaces the pair in its variable
                self.store(u["b"], (val, b[1]) if u["n"] == "first" else (b[0], val), env, this)
                return
            if isinstance(b, dict):
                b[u["n"]] = val
            else:
                if hasattr(b, "on_store"):
                    val = b.on_store(u["n"], val)
                cur = getattr(b, u["n"], None)
                if (u.get("t") or "").replace("const ", "").strip().startswith("std::unique_ptr<") and isinstance(cur, Obj) and cur is not val and self.owning_destroy:
                    self.destroy(cur)     # unique_ptr member re-assigned: the object owned so far is deleted
                if isinstance(cur, StdStr) and isinstance(val, (StdStr, Ptr)):
                    cur.assign_from(val)          # assignment to a std::string member converts, the member stays a string
                    return
                setattr(b, u["n"], val)
                self._alias_sync(b, u["n"], val)
            return
        return Evaluator.store(self, lhs, val, env, this)
