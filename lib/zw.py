"""Common substrate for the dwgrep static rules.

 * runs bin/prep on /repo's current working tree and the fact extractor
   (build/zwfacts) on every unit (16 jobs, cached per tree hash);
 * Program: merged, resolved facts (functions by id, records, globals, enums);
 * expression helpers over the reduced AST;
 * Report: findings, known-findings matching, evidence file, exit codes.

Exit codes: 0 held, 1 violation (not a known finding), 2 analysis broken.
"""
import json, os, re, subprocess, sys, time, hashlib
from concurrent.futures import ThreadPoolExecutor

VERIF = os.path.dirname(os.path.dirname(os.path.abspath(__file__)))
REPO = os.environ.get("VERIF_REPO", "/repo")


class Broken(Exception):
    """analysis broken: anchor vanished, floor not met, unmodelled shape"""


def prep():
    r = subprocess.run([os.path.join(VERIF, "bin/prep")], stdout=subprocess.PIPE,
                       stderr=subprocess.PIPE, env=dict(os.environ, VERIF_REPO=REPO))
    if r.returncode != 0:
        sys.stderr.write(r.stderr.decode())
        raise Broken("prep failed")
    return r.stdout.decode().strip().splitlines()[-1]


def ensure_tools():
    z = os.path.join(VERIF, "build/zwfacts")
    if not os.path.exists(z) or os.path.getmtime(z) < os.path.getmtime(os.path.join(VERIF, "src/zwfacts.cc")):
        r = subprocess.run([os.path.join(VERIF, "bin/setup")])
        if r.returncode != 0:
            raise Broken("setup failed")
    return z


def extract(work):
    """Run zwfacts on every unit of the compilation database; returns list of fact files."""
    z = ensure_tools()
    db = json.load(open(os.path.join(work, "compile_commands.json")))
    info = json.load(open(os.path.join(work, "units.json")))
    outs = []
    todo = []
    for e in db:
        f = e["file"]
        tag = hashlib.sha1(f.encode()).hexdigest()[:6]
        out = os.path.join(work, "facts", os.path.basename(f)[:-3] + "." + tag + ".json")
        outs.append((f, out))
        if not os.path.exists(out) or os.path.getmtime(out) < os.path.getmtime(z):
            todo.append((f, out))

    def one(fo):
        f, out = fo
        tmp = out + ".tmp"
        cmd = [z, "-p", work, "--out", tmp, "--root", REPO + "/", "--root", info["gen"] + "/",
               "--enumhdr", "/usr/include/dwarf.h", f]
        r = subprocess.run(cmd, stdout=subprocess.PIPE, stderr=subprocess.PIPE)
        if r.returncode != 0 or not os.path.exists(tmp):
            return (f, r.stderr.decode()[-3000:])
        os.rename(tmp, out)
        return None

    if todo:
        with ThreadPoolExecutor(max_workers=16) as ex:
            errs = [e for e in ex.map(one, todo) if e]
        if errs:
            for f, msg in errs:
                sys.stderr.write("zwfacts failed on %s:\n%s\n" % (f, msg))
            raise Broken("unit(s) failed to parse: %s" % ", ".join(f for f, _ in errs))
    return outs, info


# --------------------------------------------------------------------------
# AST helpers

def walk(n):
    """yield every dict node in the reduced AST (pre-order), lambdas included"""
    st = [n]
    while st:
        x = st.pop()
        if isinstance(x, dict):
            yield x
            for v in reversed(list(x.values())):
                if isinstance(v, (dict, list)):
                    st.append(v)
        elif isinstance(x, list):
            for v in reversed(x):
                if isinstance(v, (dict, list)):
                    st.append(v)


def walk_nolambda(n):
    st = [n]
    while st:
        x = st.pop()
        if isinstance(x, dict):
            yield x
            if x.get("k") == "lambda":
                continue
            for v in reversed(list(x.values())):
                if isinstance(v, (dict, list)):
                    st.append(v)
        elif isinstance(x, list):
            for v in reversed(x):
                if isinstance(v, (dict, list)):
                    st.append(v)


def calls(n, lambdas=True):
    for x in (walk(n) if lambdas else walk_nolambda(n)):
        if x.get("k") == "call":
            yield x


SMART = ("std::unique_ptr<", "std::shared_ptr<", "std::__shared_ptr<", "std::__shared_ptr_access<",
         "std::optional<", "nonstd::optional<", "std::reference_wrapper<")


def is_smart_cls(c):
    return bool(c) and c.startswith(SMART)


def _static_type(e):
    if e.get("k") == "ctor":
        return e.get("c", "")
    return (e.get("t") or "").replace("const ", "").strip()


def unwrap(e):
    """see through smart-pointer derefs, std::move/forward, copy/move ctors, casts to the
    underlying object expression"""
    while isinstance(e, dict):
        k = e.get("k")
        if k == "call":
            fn = e.get("fn", "")
            if e.get("ismethod") and is_smart_cls(e.get("cls", "")) and \
               fn in ("operator->", "operator*", "get", "value"):
                e = e.get("obj") if e.get("obj") is not None else (e["a"][0] if e["a"] else None)
                continue
            if e.get("f", "").startswith(("std::move<", "std::forward<")) and len(e["a"]) == 1:
                e = e["a"][0]
                continue
            return e
        if k == "ctor" and e.get("cm") and len(e["a"]) == 1:
            e = e["a"][0]
            continue
        if k == "ctor" and len(e["a"]) == 1 and is_smart_cls(e.get("c", "")) and \
           isinstance(e["a"][0], dict) and e["a"][0].get("k") in ("ref", "mem", "call", "ctor") and \
           is_smart_cls(_static_type(e["a"][0])):
            # converting constructor shared_ptr<base>(shared_ptr<derived>)
            e = e["a"][0]
            continue
        if k == "un" and e.get("op") in ("*",) :
            e = e["e"]
            continue
        if k == "cast" and e.get("ck") in ("static", "cstyle", "functional") and "e" in e:
            # keep the cast visible for rules that care; most want the operand
            return e
        return e
    return e


def is_this_field(e, name=None):
    e = unwrap(e)
    if isinstance(e, dict) and e.get("k") == "mem" and isinstance(e.get("b"), dict) \
       and e["b"].get("k") == "this":
        return name is None or e["n"] == name
    return False


def field_chain(e):
    """('this'|'local:<id>'|'param:<id>'|..., [field, field...]) for a.b.c style access, else None"""
    names = []
    e = unwrap(e)
    while isinstance(e, dict):
        if e.get("k") == "mem":
            names.append(e["n"])
            e = unwrap(e["b"])
        elif e.get("k") == "this":
            return ("this", list(reversed(names)))
        elif e.get("k") == "ref":
            return ("%s:%s" % (e.get("d"), e.get("id", e.get("q"))), list(reversed(names)))
        elif e.get("k") == "call" and e.get("op") == "[]":
            names.append("[]")
            e = unwrap(e["a"][0])
        elif e.get("k") == "call" and e.get("op") in ("->", "*") and e.get("a"):
            names.append("*")          # iterator / handle dereference
            e = unwrap(e["a"][0])
        elif e.get("k") == "call" and e.get("fn") in ("operator->", "operator*") and e.get("obj") is not None:
            names.append("*")
            e = unwrap(e["obj"])
        elif e.get("k") == "idx":
            names.append("[]")
            e = unwrap(e["b"])
        else:
            return None
    return None


def is_null_stack_expr(e):
    """does this returned expression denote 'no stack' (nullptr / {} / make_pair(nullptr, ..))"""
    e0 = e
    e = unwrap(e)
    if e is None:
        return False
    k = e.get("k")
    if k == "null":
        return True
    if k == "ctor":
        if not e["a"]:
            return is_smart_cls(e.get("c", "")) or e.get("c", "").startswith("std::pair<")
        if len(e["a"]) == 1:
            return is_null_stack_expr(e["a"][0])
        if e.get("c", "").startswith("std::pair<"):
            return is_null_stack_expr(e["a"][0])
        return False
    if k == "ilist":
        return not e["a"] or is_null_stack_expr(e["a"][0])
    if k == "call" and e.get("f", "").startswith("std::make_pair<"):
        return is_null_stack_expr(e["a"][0])
    return False


def short(e, depth=0):
    """compact rendering of an expression for reports"""
    if e is None:
        return ""
    if not isinstance(e, dict):
        return str(e)
    if depth > 6:
        return "…"
    k = e.get("k")
    d = depth + 1
    if k == "ref":
        return e["n"]
    if k == "this":
        return "this"
    if k == "mem":
        b = e.get("b")
        if isinstance(b, dict) and b.get("k") == "this":
            return e["n"]
        return short(b, d) + ("->" if e.get("arrow") else ".") + e["n"]
    if k == "call":
        if e.get("ismethod") and is_smart_cls(e.get("cls", "")) and e.get("fn") in ("operator->", "operator*", "operator bool"):
            return short(e.get("obj") or (e["a"][0] if e["a"] else None), d)
        args = ", ".join(short(a, d) for a in e.get("a", []))
        if "obj" in e and e["obj"] is not None:
            return "%s.%s(%s)" % (short(e["obj"], d), e.get("fn", "?"), args)
        return "%s(%s)" % (e.get("fn") or short(e.get("ce"), d), args)
    if k == "ctor":
        if e.get("cm") and len(e["a"]) == 1:
            return short(e["a"][0], d)
        return "%s{%s}" % (e.get("c", "?").split("<")[0], ", ".join(short(a, d) for a in e["a"]))
    if k in ("int", "chr"):
        return str(e["v"])
    if k == "bool":
        return "true" if e["v"] else "false"
    if k == "str":
        return json.dumps(e["v"])
    if k == "null":
        return "nullptr"
    if k == "un":
        return (short(e["e"], d) + e["op"]) if e.get("post") else (e["op"] + short(e["e"], d))
    if k in ("bin", "asg"):
        return "%s %s %s" % (short(e["lhs"], d), e["op"], short(e["rhs"], d))
    if k == "cond":
        return "%s ? %s : %s" % (short(e["c"], d), short(e["a"], d), short(e["b"], d))
    if k == "cast":
        return "(%s)%s" % (e.get("t"), short(e.get("e"), d))
    if k == "lambda":
        return "[lambda@%s]" % e.get("l")
    if k == "new":
        return "new %s" % e.get("t")
    if k == "throw":
        return "throw"
    if k == "ilist":
        return "{%s}" % ", ".join(short(a, d) for a in e["a"])
    return "<%s>" % k


# --------------------------------------------------------------------------

def extract_controls(work):
    """facts for the positive-control units under /verif/controls (compiled with the repo's flags)"""
    z = ensure_tools()
    info = json.load(open(os.path.join(work, "units.json")))
    cdir = os.path.join(VERIF, "controls")
    files = sorted(os.path.join(cdir, f) for f in os.listdir(cdir) if f.endswith(".cc"))
    cwork = os.path.join(work, "controls")
    os.makedirs(cwork, exist_ok=True)
    db = [{"directory": cwork, "file": f, "arguments": ["clang++"] + info["flags"] + ["-c", f]} for f in files]
    json.dump(db, open(os.path.join(cwork, "compile_commands.json"), "w"))
    outs = []
    for f in files:
        out = os.path.join(cwork, os.path.basename(f)[:-3] + ".json")
        if not os.path.exists(out) or os.path.getmtime(out) < max(os.path.getmtime(f), os.path.getmtime(z)):
            r = subprocess.run([z, "-p", cwork, "--out", out, "--root", REPO + "/", "--root", info["gen"] + "/",
                                "--root", cdir + "/", f], stdout=subprocess.PIPE, stderr=subprocess.PIPE)
            if r.returncode != 0:
                sys.stderr.write(r.stderr.decode()[-2000:])
                raise Broken("positive control %s failed to parse" % f)
        outs.append((f, out))
    info = dict(info)
    info["units"] = {"LibzwergCore": files, "LibzwergDw": [], "AuxLib": [], "dwgrep": []}
    return outs, info


class Program:
    def __init__(self, load=True, controls=False):
        self.t0 = time.time()
        self.work = prep()
        if controls:
            outs, self.info = extract_controls(self.work)
        else:
            outs, self.info = extract(self.work)
        self.unit_files = outs
        self.funcs = {}
        self.records = {}
        self.globals = {}
        self.enums = {}
        self.unit_of = {}          # fid -> [unit]
        self.funcs_in_unit = {}    # unit -> [fid]
        if load:
            for unit, path in outs:
                d = json.load(open(path))
                self.funcs_in_unit[unit] = []
                for f in d["functions"]:
                    fid = f["fid"]
                    self.unit_of.setdefault(fid, []).append(unit)
                    self.funcs_in_unit[unit].append(fid)
                    if fid not in self.funcs:
                        f["unit"] = unit
                        self.funcs[fid] = f
                for r in d["records"]:
                    self.records.setdefault(r["q"], r)
                for g in d["globals"]:
                    k = g["q"]
                    if k not in self.globals or (g.get("def") and not self.globals[k].get("def")):
                        g["unit"] = unit
                        self.globals[k] = g
                for e in d["enums"]:
                    self.enums.setdefault(e["q"] + "@" + e["file"] + "#" + (e["consts"][0]["n"] if e["consts"] else ""), e)
        self.by_q = {}
        for f in self.funcs.values():
            self.by_q.setdefault(f["q"], []).append(f)
        self._bases = {}

    # ---- hierarchy
    def bases(self, q):
        """transitive base class names (canonical type strings)"""
        if q in self._bases:
            return self._bases[q]
        out = []
        r = self.records.get(q)
        if r:
            for b in r["bases"]:
                out.append(b["t"])
                out += self.bases(b["t"])
        self._bases[q] = out
        return out

    def derives(self, q, base):
        return q == base or base in self.bases(q)

    def classes_derived_from(self, base):
        return sorted(q for q in self.records if q != base and base in self.bases(q))

    def methods(self, cls, name):
        """function definitions of class `cls` named `name`"""
        return [f for f in self.funcs.values() if f.get("cls") == cls and f["n"] == name]

    def func(self, q):
        """the unique function definition with qualified name q (Broken if 0 or >1)"""
        l = self.by_q.get(q, [])
        if len(l) != 1:
            raise Broken("expected exactly one definition of %s, found %d" % (q, len(l)))
        return l[0]

    def func_opt(self, q):
        l = self.by_q.get(q, [])
        return l[0] if len(l) == 1 else None

    def overrides_of(self, root_fid_prefix):
        """all function definitions that (transitively) override a method whose fid starts with prefix"""
        out = []
        # build method override map from records
        ov = {}
        for r in self.records.values():
            for m in r["methods"]:
                ov[m["fid"]] = m["overrides"]
        for f in self.funcs.values():
            for o in f.get("overrides", []):
                ov.setdefault(f["fid"], f["overrides"])

        def reaches(fid, seen=()):
            if fid.startswith(root_fid_prefix):
                return True
            for o in ov.get(fid, []):
                if o not in seen and reaches(o, seen + (fid,)):
                    return True
            return False
        for f in self.funcs.values():
            if f.get("overrides") and reaches(f["fid"]) and not f["fid"].startswith(root_fid_prefix):
                out.append(f)
        return sorted(out, key=lambda f: f["fid"])

    def field_type(self, cls, name):
        r = self.records.get(cls)
        while r:
            for f in r["fields"]:
                if f["n"] == name:
                    return f["t"]
            nxt = None
            for b in r["bases"]:
                t = self.field_type(b["t"], name)
                if t:
                    return t
            return None
        return None

    def rel(self, path):
        for p in (REPO + "/", self.info["gen"] + "/", VERIF + "/"):
            if path.startswith(p):
                return path[len(p):]
        return path


# --------------------------------------------------------------------------

class BrokenResult(tuple):
    """what a rule function returns (through the isolation wrapper of bin/check) when the analysis of that one rule broke: it
    indexes like an empty (instances, findings, 0) result and carries the reason; apply() records it and goes on to the next rule, so
    violations recognised by other rules are still reported (positive evidence wins over `analysis broken`)."""
    def __new__(cls, msg):
        t = tuple.__new__(cls, ([], [], 0))
        t.broken = msg
        return t


def isolate(fn):
    import functools, traceback

    @functools.wraps(fn)
    def wrapper(*a, **kw):
        try:
            return fn(*a, **kw)
        except Broken as e:
            return BrokenResult(str(e))
        except RecursionError:
            return BrokenResult("recursion limit reached inside %s" % fn.__name__)
        except Exception as e:      # a defect of the checker itself on this tree: analysis broken for this rule, never a verdict
            tb = traceback.format_exc().strip().split("\n")
            return BrokenResult("internal error in %s: %s: %s [%s]" % (fn.__name__, type(e).__name__, e, tb[-3].strip() if len(tb) >= 3 else ""))
    wrapper._isolated = True
    return wrapper


def isolate_rule_modules():
    """wrap the public rule functions (name without leading underscore, first parameter `prog`) of every loaded r_* module"""
    import sys, inspect
    for name, mod in list(sys.modules.items()):
        if not name.startswith("r_") or mod is None:
            continue
        for an, fn in list(vars(mod).items()):
            if an.startswith("_") or not inspect.isfunction(fn) or getattr(fn, "_isolated", False) or fn.__module__ != name:
                continue
            try:
                params = list(inspect.signature(fn).parameters)
            except (TypeError, ValueError):
                continue
            if not params or params[0] != "prog" or not re.fullmatch(r"[a-z][a-z]?[0-9]+[a-z]?(_[a-z0-9]+)?", an):
                continue
            setattr(mod, an, isolate(fn))


class Report:
    """collects obligations and findings for one property check"""

    def __init__(self, prop, tier):
        self.prop = prop
        self.tier = tier
        self.t0 = time.time()
        self.obligations = 0
        self.discharged = 0
        self.findings = []      # dict(rule, key, where, msg, detail)
        self.samples = []
        self.rules = {}         # rule -> dict(instances, discharged, what)
        self.notes = []
        self.assumptions = []
        self.extra = {}
        self.not_decided = ""
        self.clause = ""
        self.broken = []        # (rule, reason) of rules whose analysis broke
        kf = json.load(open(os.path.join(VERIF, "known-findings.json")))
        self.known = [k for k in kf.get("known", []) if k["property"] == prop]
        self.fixed = [k for k in kf.get("fixed", []) if k["property"] == prop]

    def rule(self, rid, what):
        self.rules.setdefault(rid, {"what": what, "instances": 0, "discharged": 0})

    def ok(self, rid, sample=None, n=1):
        self.rules[rid]["instances"] += n
        self.rules[rid]["discharged"] += n
        self.obligations += n
        self.discharged += n
        if sample is not None and len([s for s in self.samples if s.get("rule") == rid]) < 4:
            self.samples.append({"rule": rid, "instance": sample, "verdict": "discharged"})

    def fail(self, rid, key, where, msg, detail=None):
        self.rules[rid]["instances"] += 1
        self.obligations += 1
        self.findings.append({"rule": rid, "key": key, "where": where, "msg": msg,
                              "detail": detail})

    def floor(self, rid, n):
        got = self.rules[rid]["instances"]
        if got < n:
            raise Broken("rule %s matched %d instance(s), below the floor %d confirmed by hand"
                         % (rid, got, n))

    def finish(self):
        wall = time.time() - self.t0
        viol = []
        known_hits = []
        for f in self.findings:
            hit = None
            for k in self.known:
                if k["rule"] == f["rule"] and k["key"] == f["key"]:
                    hit = k
            if hit:
                known_hits.append((f, hit))
            else:
                viol.append(f)
        evdir = os.environ.get("VERIF_EVIDENCE_DIR", os.path.join(VERIF, "evidence"))
        os.makedirs(evdir, exist_ok=True)
        for f, k in known_hits:
            print("KNOWN-FINDING: property=%s rule=%s %s at %s: %s" %
                  (self.prop, f["rule"], f["key"], f["where"], k.get("what", f["msg"])))
            self.samples.append({"rule": f["rule"], "instance": f["key"], "where": f["where"],
                                 "verdict": "known-finding", "msg": f["msg"]})
        replay = None
        if viol:
            rdir = os.path.join(evdir, "replay")
            os.makedirs(rdir, exist_ok=True)
            replay = os.path.join(rdir, "%s.json" % self.prop)
            json.dump({"property": self.prop, "tier": self.tier, "violations": viol},
                      open(replay, "w"), indent=1)
            for f in viol:
                print("FINDING property=%s rule=%s instance=%s at %s: %s" %
                      (self.prop, f["rule"], f["key"], f["where"], f["msg"]))
                self.samples.append({"rule": f["rule"], "instance": f["key"], "where": f["where"],
                                     "verdict": "VIOLATION", "msg": f["msg"]})
        for rid, r in sorted(self.rules.items()):
            print("rule %-5s %4d/%-4d  %s" % (rid, r["discharged"], r["instances"], r["what"]))
        cov = {
            "explanation": ("static analysis over the resolved AST of /repo's current tree. "
                            "Decided: %s  NOT decided: %s" % (self.clause, self.not_decided)),
            "obligations": self.obligations,
            "discharged": self.discharged,
            "rules": self.rules,
            "samples": self.samples[:40],
            "checker_cmd": "/verif/bin/check %s %s" % (self.prop, self.tier),
            "known_findings_matched": [f["key"] for f, _ in known_hits],
            "notes": self.notes,
        }
        cov.update(self.extra)
        ev = {"property_id": self.prop, "tier": self.tier,
              "seed": int(os.environ.get("VERIF_SEED", "0") or 0),
              "level": "other", "coverage": cov,
              "assumptions": self.assumptions + [
                  "clang 14 front end resolves callees, templates and constants as the real compiler does (analysis flags: -std=c++14 -UNDEBUG; asserts are never counted as checks)"],
              "wall_s": round(wall, 2), "violations": len(viol)}
        if self.broken:
            cov["rules_broken"] = [{"rule": r, "reason": m} for r, m in self.broken]
        json.dump(ev, open(os.path.join(evdir, "%s.json" % self.prop), "w"), indent=1)
        if viol:
            for r, m in self.broken:
                print("note: rule %s could not be analysed on this tree: %s" % (r, m))
            print("VIOLATION property=%s replay=%s" % (self.prop, replay))
            return 1
        if self.broken:
            print("ANALYSIS-BROKEN property=%s: %s" % (self.prop, "; ".join("rule %s: %s" % b for b in self.broken)))
            return 2
        print("OK property=%s tier=%s obligations=%d discharged=%d known=%d wall=%.1fs" %
              (self.prop, self.tier, self.obligations, self.discharged + 0, len(known_hits), wall))
        return 0


def always_leaves(st):
    """the statement never completes normally (ends in return / continue / break / throw on every branch)"""
    if not isinstance(st, dict):
        return False
    k = st.get("k")
    if k in ("return", "continue", "break", "throw"):
        return True
    if k == "block":
        return bool(st["s"]) and always_leaves(st["s"][-1])
    if k == "if":
        return st.get("else") is not None and always_leaves(st["then"]) and always_leaves(st["else"])
    return False


def split_cond_returns(st):
    """copy of a statement tree in which `return c ? a : b;` is written `if (c) return a; else return b;`"""
    if isinstance(st, list):
        return [split_cond_returns(x) for x in st]
    if not isinstance(st, dict):
        return st
    if st.get("k") == "return" and isinstance(st.get("e"), dict):
        inner = st["e"]
        while isinstance(inner, dict) and inner.get("k") == "ctor" and inner.get("cm") and len(inner.get("a", [])) == 1:
            inner = inner["a"][0]
        while isinstance(inner, dict) and inner.get("k") in ("paren",) and isinstance(inner.get("e"), dict):
            inner = inner["e"]
        if isinstance(inner, dict) and inner.get("k") == "cond":
            mk = lambda e: split_cond_returns({"k": "return", "e": e, "l": st.get("l")})
            return {"k": "if", "c": inner["c"], "then": mk(inner["a"]), "else": mk(inner["b"]), "l": st.get("l")}
        return st
    out = dict(st)
    for key in ("s", "then", "else", "body", "sub", "handlers", "try"):
        if key in out and isinstance(out[key], (dict, list)):
            out[key] = split_cond_returns(out[key])
    return out


def null_case_region(f, is_producer, first_of_pair=False, producer_fn="the lookup"):
    """Statements executed exactly when the lookup `producer_fn` found nothing.  The lookup result (or, with first_of_pair,
    its first component: std::get<0>(r) / r.first, possibly copied into a local) is tested against nullptr by one `if`;
    the region is the branch taken for null, or, when that branch is absent and the other one always leaves, the
    statements that follow the `if` in its block."""
    t0 = set()
    for x in walk(f["body"]):
        vs = x["vars"] if x.get("k") == "decl" else ([x["var"]] if x.get("k") in ("if", "while") and x.get("var") else [])
        for v in vs:
            if v.get("init") is not None and any(is_producer(c) for c in calls(v["init"])):
                t0.add(v["id"])

    def is_res(e):
        e = unwrap(e)
        return isinstance(e, dict) and e.get("k") == "ref" and e.get("id") in t0

    def is_first(e):
        e = unwrap(e)
        if not isinstance(e, dict):
            return False
        if e.get("k") == "call" and e.get("f", "").startswith("std::get<0") and e.get("a") and is_res(e["a"][0]):
            return True
        if e.get("k") == "mem" and e.get("n") == "first" and is_res(e["b"]):
            return True
        return False
    t1 = set()
    if first_of_pair:
        for x in walk(f["body"]):
            if x.get("k") == "decl":
                for v in x["vars"]:
                    if v.get("init") is not None and is_first(v["init"]):
                        t1.add(v["id"])

    def is_target(e):
        u = unwrap(e)
        if not isinstance(u, dict):
            return False
        if first_of_pair:
            return is_first(u) or (u.get("k") == "ref" and u.get("id") in t1)
        return is_res(u)

    def null_polarity(c):
        """True: the condition holds when the target is null; False: when it is non-null; None: not a null test"""
        c = unwrap(c)
        if not isinstance(c, dict):
            return None
        if c.get("k") == "un" and c.get("op") == "!":
            r = null_polarity(c["e"])
            return None if r is None else not r
        if c.get("k") == "call" and c.get("fn") == "operator bool" and c.get("obj") is not None and is_target(c["obj"]):
            return False
        ops = None
        if c.get("k") == "bin" and c.get("op") in ("==", "!="):
            ops = (c["op"], c["lhs"], c["rhs"])
        elif c.get("k") == "call" and c.get("op") in ("==", "!=") and len(c.get("a", [])) + (1 if c.get("obj") is not None else 0) == 2:
            aa = ([c["obj"]] if c.get("obj") is not None else []) + list(c["a"])
            ops = (c["op"], aa[0], aa[1])
        if ops:
            op, l, r = ops
            isnull = lambda z: isinstance(unwrap(z), dict) and (unwrap(z).get("k") == "null" or short(z) in ("nullptr", "std::shared_ptr{nullptr}", "std::unique_ptr{nullptr}"))
            if (is_target(l) and isnull(r)) or (is_target(r) and isnull(l)):
                return op == "=="
            return None
        if is_target(c):
            return False
        return None
    hits = []

    def rec(st, following):
        if isinstance(st, list):
            for i, x in enumerate(st):
                rec(x, st[i + 1:])
            return
        if not isinstance(st, dict):
            return
        k = st.get("k")
        if k == "block":
            rec(st["s"], None)
            return
        if k == "if":
            cond = st["c"] if st.get("c") is not None else None
            if cond is None and st.get("var") and st["var"]["id"] in (t0 if not first_of_pair else t1):
                pol = False
            else:
                pol = null_polarity(cond) if cond is not None else None
            if pol is not None:
                nb, ob = (st["then"], st.get("else")) if pol else (st.get("else"), st["then"])
                if nb is not None:
                    rest = list(following or []) if not always_leaves(nb) else []
                    hits.append((st, [nb] + rest, ([ob] if ob is not None else []) + (list(following or []) if ob is None or not always_leaves(ob) else [])))
                elif always_leaves(ob) and following is not None:
                    hits.append((st, list(following), [ob]))
                else:
                    raise Broken("%s: the not-found case of %s is neither a branch nor the fall-through after a leaving branch (unmodelled shape at %s)" % (f["q"], producer_fn, st.get("l")))
            rec(st["then"], None)
            rec(st.get("else"), None)
            return
        for key in ("body", "s", "sub", "try", "handlers"):
            if key in st:
                rec(st[key], None)
    rec(split_cond_returns(f["body"]), None)
    if len(hits) != 1:
        raise Broken("%s no longer tests the result of %s against nullptr exactly once (found %d tests; unmodelled shape)" % (f["q"], producer_fn, len(hits)))
    return hits[0]





def expand_locals(e, body, depth=3):
    """the expression with every reference to a local that is initialised once and never written afterwards replaced by its
    initialiser (so that provenance rules see through `auto const x = MACRO (...); use (x)`)"""
    decls, written = {}, set()
    for x in walk(body):
        if x.get("k") == "decl":
            for v in x["vars"]:
                if v.get("init") is not None:
                    decls.setdefault(v["id"], []).append(v["init"])
        tgt = None
        if x.get("k") == "asg":
            tgt = x.get("lhs")
        elif x.get("k") == "un" and x.get("op") in ("++", "--"):
            tgt = x.get("e")
        elif x.get("k") == "call" and x.get("op") in ("=", "+=", "-=", "++", "--") and x.get("a"):
            tgt = x["a"][0]
        t = unwrap(tgt) if tgt is not None else None
        if isinstance(t, dict) and t.get("k") == "ref":
            written.add(t.get("id"))
    single = {i: v[0] for i, v in decls.items() if len(v) == 1 and i not in written}

    def rec(n, d):
        if isinstance(n, list):
            return [rec(x, d) for x in n]
        if not isinstance(n, dict):
            return n
        if n.get("k") == "ref" and n.get("d") == "local" and n.get("id") in single and d > 0:
            return rec(single[n["id"]], d - 1)
        return {k: rec(v, d) for k, v in n.items()}
    return rec(e, depth)
