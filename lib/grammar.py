"""Grammar actions of parser.yy as statements of yyparse.

productions(text) parses the rules section of the bison file into (lhs, rhs symbols, first line, last line of the action).
action(prog, lhs, rhs) finds the statements bison generated for that action inside yyparse (by their parser.yy line numbers) and
the ids of yyvsp / yyval they use, so that a rule can evaluate the action on abstract semantic values."""
import os, re
from zw import Broken, REPO, walk


def productions(text=None):
    if text is None:
        text = open(os.path.join(REPO, "libzwerg/parser.yy")).read()
    lines = text.split("\n")
    marks = [i for i, l in enumerate(lines) if l.strip() == "%%"]
    if len(marks) < 2:
        raise Broken("parser.yy has no delimited rules section")
    out = []
    lhs = None
    depth = 0
    rhs = []
    act_first = None
    in_str = None
    i = marks[0] + 1
    while i < marks[1]:
        line = lines[i]
        j = 0
        while j < len(line):
            c = line[j]
            if depth > 0:
                if in_str:
                    if c == "\\":
                        j += 1
                    elif c == in_str:
                        in_str = None
                elif c in "\"'":
                    in_str = c
                elif line.startswith("//", j):
                    break
                elif c == "{":
                    depth += 1
                elif c == "}":
                    depth -= 1
                    if depth == 0:
                        out.append((lhs, list(rhs), act_first + 1, i + 1))
                        rhs = None
                j += 1
                continue
            if line.startswith("//", j):
                break
            if c == "{":
                depth = 1
                act_first = i
                if rhs is None:
                    rhs = []
                j += 1
                continue
            m = re.match(r"[A-Za-z_][A-Za-z_0-9]*", line[j:])
            if m:
                w = m.group(0)
                k = j + len(w)
                rest = line[k:].lstrip()
                if rest.startswith(":") and depth == 0 and (rhs is None or not rhs) and line[:j].strip() == "":
                    lhs = w
                    rhs = []
                    j = line.index(":", k) + 1
                    continue
                if rhs is None:
                    rhs = []
                rhs.append(w)
                j = k
                continue
            if c == "|":
                if rhs is not None and act_first is None:
                    pass
                rhs = []
            elif c == ";":
                rhs = []
            elif c == "%":
                m2 = re.match(r"%\w+\s+\w+", line[j:])     # %prec TOK
                if m2:
                    j += len(m2.group(0))
                    continue
            j += 1
        i += 1
    return out


def action(prog, lhs, rhs):
    """(statements, {name: id} for yyvsp/yyval, number of rhs symbols) of the action of `lhs: rhs`"""
    prods = [p for p in productions() if p[0] == lhs and p[1] == list(rhs)]
    if len(prods) != 1:
        raise Broken("production %s: %s not found exactly once in parser.yy (%d)" % (lhs, " ".join(rhs), len(prods)))
    _, _, first, last = prods[0]
    yp = prog.func_opt("yyparse")
    if yp is None:
        raise Broken("anchor yyparse vanished")
    from r_scope import switch_groups
    hits = []
    from zw import unwrap
    for sw in [x for x in walk(yp["body"]) if x.get("k") == "switch" and isinstance(unwrap(x.get("c")), dict) and unwrap(x["c"]).get("n") == "yyn"]:
        for labels, stmts in switch_groups(sw):
            locs = [y.get("l") for s in stmts for y in walk(s) if isinstance(y.get("l"), str) and y["l"].startswith("parser.yy:")]
            nums = [int(l.split(":")[1]) for l in locs]
            if nums and all(first <= n <= last for n in nums):
                hits.append(stmts)
    if len(hits) != 1:
        raise Broken("action of %s: %s (parser.yy:%d-%d) not found exactly once in yyparse (%d)" % (lhs, " ".join(rhs), first, last, len(hits)))
    ids = {}
    for s in hits[0]:
        for y in walk(s):
            if y.get("k") == "ref" and y.get("n") in ("yyvsp", "yyval", "yylval", "yyscanner", "t"):
                ids[y["n"]] = y["id"]
    return hits[0], ids, len(rhs)
