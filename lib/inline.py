"""CFG with same-class helper methods inlined (bounded depth), keeping the
correlation between a helper's returned value and the branch taken on it."""
from cfg import CFG, Node
from zw import unwrap, is_null_stack_expr, walk_nolambda, Broken


def truth_of(e):
    """truthiness of a returned expression when it is syntactically known"""
    e = unwrap(e)
    if not isinstance(e, dict):
        return None
    k = e.get("k")
    if k == "bool":
        return bool(e["v"])
    if k == "int":
        return e["v"] != 0
    if is_null_stack_expr(e):
        return False
    if k == "new":
        return True
    if k == "call" and e.get("f", "").startswith(("std::make_unique<", "std::make_shared<")):
        return True
    return None


def strip_boolconv(e):
    """cond `operator bool(x)` / `x != nullptr` -> x ; returns (expr, negated)"""
    neg = False
    while isinstance(e, dict):
        if e.get("k") == "call" and e.get("fn") == "operator bool":
            e = e.get("obj") if e.get("obj") is not None else e["a"][0]
            continue
        if e.get("k") == "call" and e.get("op") in ("!=", "==") and len(e["a"]) == 2:
            a, b = e["a"]
            if isinstance(unwrap(b), dict) and unwrap(b).get("k") == "null":
                if e["op"] == "==":
                    neg = not neg
                e = a
                continue
            if isinstance(unwrap(a), dict) and unwrap(a).get("k") == "null":
                if e["op"] == "==":
                    neg = not neg
                e = b
                continue
        if e.get("k") == "bin" and e.get("op") in ("!=", "==") :
            a, b = e["lhs"], e["rhs"]
            if isinstance(unwrap(b), dict) and unwrap(b).get("k") == "null":
                if e["op"] == "==":
                    neg = not neg
                e = a
                continue
        break
    return e, neg


def bool_split(func):
    """a bool helper's `return <expr>;` with a non-constant expression is read as `if (<expr>) return true; else return
    false;` so that the caller's branch on the helper's result stays correlated with the conditions tested inside"""
    if func.get("ret") != "bool" or func.get("body") is None:
        return func

    def rec(st):
        if isinstance(st, list):
            return [rec(x) for x in st]
        if not isinstance(st, dict):
            return st
        k = st.get("k")
        if k == "return" and st.get("e") is not None and truth_of(st["e"]) is None:
            return {"k": "if", "l": st.get("l"), "c": st["e"],
                    "then": {"k": "return", "l": st.get("l"), "e": {"k": "bool", "v": True}},
                    "else": {"k": "return", "l": st.get("l"), "e": {"k": "bool", "v": False}}}
        if k in ("block", "if", "while", "for", "do", "switch", "case", "default", "try", "rfor", "label"):
            out = dict(st)
            for key in ("s", "then", "else", "body", "sub", "handlers"):
                if key in out and isinstance(out[key], (dict, list)):
                    out[key] = rec(out[key])
            return out
        return st
    out = dict(func)
    out["body"] = rec(func["body"])
    return out


class Inliner:
    def __init__(self, prog, want, maxdepth=4):
        """want(call_node, caller_func) -> callee function dict or None"""
        self.prog = prog
        self.want = want
        self.maxdepth = maxdepth
        self.inlined = []   # (caller q, callee q, loc)

    def build(self, func, depth=0, stack=()):
        g = CFG(func)
        if depth >= self.maxdepth:
            return g
        # iterate over a snapshot of the original nodes
        for n in list(g.nodes):
            if n.kind not in ("stmt", "cond", "ret", "switch"):
                continue
            if not isinstance(n.ast, dict):
                continue
            todo = self.helper_calls(n.ast, func)
            if not todo:
                continue
            for call, callee in todo:
                if callee["fid"] in stack:
                    continue
                self.splice(g, n, call, callee, func, depth, stack)
        return g

    def helper_calls(self, ast, func):
        """helper calls inside this node's AST in evaluation order (inner first)"""
        out = []

        def rec(e):
            if isinstance(e, dict):
                if e.get("k") == "lambda":
                    return
                for v in e.values():
                    if isinstance(v, (dict, list)):
                        rec(v)
                if e.get("k") == "call":
                    c = self.want(e, func)
                    if c is not None:
                        out.append((e, c))
            elif isinstance(e, list):
                for v in e:
                    rec(v)
        rec(ast)
        return out

    def splice(self, g, n, call, callee, func, depth, stack):
        sub = self.build(bool_split(callee), depth + 1, stack + (func["fid"],))
        self.inlined.append((func["q"], callee["q"], call.get("l")))
        off = len(g.nodes)
        for m in sub.nodes:
            nn = Node(m.id + off, m.kind, m.ast, m.loc, m.note)
            nn.succs = [(t + off, lab) for t, lab in m.succs]
            g.nodes.append(nn)
        s_entry, s_exit = sub.entry.id + off, sub.exit.id + off
        g.nodes[s_entry].kind = "join"
        g.nodes[s_entry].note = "inlined " + callee["q"]
        # redirect edges into n to the callee entry
        for m in g.nodes[:off]:
            m.succs = [((s_entry if t == n.id else t), lab) for t, lab in m.succs]
        # classify how the value is used
        mode = "plain"
        top = n.ast
        if n.kind == "cond":
            e, neg = strip_boolconv(top)
            if unwrap(e) is call:
                mode = "cond"
        elif n.kind == "ret":
            if unwrap(top) is call:
                mode = "ret"
        elif n.kind == "stmt" and top.get("k") == "decl" and len(top["vars"]) == 1:
            init = top["vars"][0].get("init")
            e = init
            # shared_ptr<stack> x = helper() : converting constructor around the call
            while isinstance(e, dict) and e.get("k") == "ctor" and len(e["a"]) == 1 and unwrap(e) is e:
                e = e["a"][0]
            if init is not None and unwrap(e) is call and len(n.succs) == 1:
                c = g.nodes[n.succs[0][0]]
                if c.kind == "cond":
                    ce, neg = strip_boolconv(c.ast)
                    ce = unwrap(ce)
                    if isinstance(ce, dict) and ce.get("k") == "ref" and ce.get("id") == top["vars"][0]["id"]:
                        mode = "declcond"
        neg = False
        if mode == "cond":
            _, neg = strip_boolconv(top)
            tsucc = [(t, lab) for t, lab in n.succs if lab is True]
            fsucc = [(t, lab) for t, lab in n.succs if lab is False]
        elif mode == "declcond":
            c = g.nodes[n.succs[0][0]]
            _, neg = strip_boolconv(c.ast)
            tsucc = [(t, lab) for t, lab in c.succs if lab is True]
            fsucc = [(t, lab) for t, lab in c.succs if lab is False]
        for m in g.nodes[off:]:
            is_ret = m.kind == "ret" and any(t == s_exit for t, _ in m.succs)
            if not is_ret:
                continue
            if mode == "ret":
                m.succs = [(g.exit.id, None)]
                continue
            m.kind = "stmt"
            tv = truth_of(m.ast) if mode in ("cond", "declcond") else None
            if tv is not None and neg:
                tv = not tv
            if tv is True:
                m.succs = [(t, ("ret", True)) for t, _ in tsucc] if tsucc else []
            elif tv is False:
                m.succs = [(t, ("ret", False)) for t, _ in fsucc] if fsucc else []
            else:
                m.succs = [(n.id, None)]
        # falling off the end of a void helper
        g.nodes[s_exit].kind = "join"
        g.nodes[s_exit].succs = [(n.id, None)] if mode != "ret" else []
        # the call itself has been expanded: mark so events inside are not double counted
        call["_inlined"] = True
