"""Scanner actions of lexer.ll as statements of yylex, and a harness to interpret one action on an abstract scanner state.

rules() parses the rules section of the flex file into (start condition, pattern text, first line, last line).
run(prog, rule, text, f) interprets the action flex generated for that rule (located inside yylex by its lexer.ll line numbers)
with yytext = text and yylval->f = f (a fmtlit object, built by the repository's own constructor), and returns what the action
did: token returned (or None), start condition switched to (or None), exception, and the fmtlit afterwards."""
import os, re
from zw import Broken, REPO, walk, unwrap


def lexer_path():
    return os.path.join(REPO, "libzwerg/lexer.ll")


def rules():
    lines = open(lexer_path()).read().split("\n")
    idx = [i for i, l in enumerate(lines) if l.strip() == "%%"]
    if len(idx) < 2:
        raise Broken("lexer.ll has no delimited rules section")
    decl = "\n".join(lines[:idx[0]])
    conds = ["INITIAL"] + [c for l in re.findall(r"(?m)^%[xs]\s+(.+)$", decl) for c in l.split()]
    out = []
    cur = None
    for i in range(idx[0] + 1, idx[1]):
        l = lines[i]
        if l and not l[0].isspace() and not l.startswith(("/*", "//", "}", "#")):
            m = re.match(r"<([A-Z_]+)>", l)
            st = m.group(1) if m else "INITIAL"
            rest = l[m.end():] if m else l
            # the pattern ends at the first unquoted, unbracketed blank
            pat, j, inq, inb = "", 0, False, False
            while j < len(rest):
                c = rest[j]
                if c == "\\" and j + 1 < len(rest):
                    pat += rest[j:j + 2]
                    j += 2
                    continue
                if c == '"' and not inb:
                    inq = not inq
                elif c == "[" and not inq:
                    inb = True
                elif c == "]" and not inq:
                    inb = False
                elif c in " \t" and not inq and not inb:
                    break
                pat += c
                j += 1
            if cur:
                out.append((cur[0], cur[1], cur[2], i))
            cur = (st, pat, i + 1)
    if cur:
        out.append((cur[0], cur[1], cur[2], idx[1]))
    return conds, out


def find_rule(state, pattern):
    conds, rs = rules()
    hits = [r for r in rs if r[0] == state and r[1] == pattern]
    if len(hits) != 1:
        raise Broken("scanner rule <%s>%s not found exactly once in lexer.ll (%d)" % (state, pattern, len(hits)))
    return conds, hits[0]


_stmts_cache = {}


def action_stmts(prog, rule):
    key = (id(prog), rule)
    if key in _stmts_cache:
        return _stmts_cache[key]
    yl = prog.func_opt("yylex")
    if yl is None:
        raise Broken("anchor yylex vanished")
    from r_scope import switch_groups
    first, last = rule[2], rule[3]
    hits = []
    for sw in [x for x in walk(yl["body"]) if x.get("k") == "switch"]:
        c = unwrap(sw.get("c"))
        if not (isinstance(c, dict) and c.get("n") == "yy_act"):
            continue
        for labels, stmts in switch_groups(sw):
            # the trailing YY_BREAK sits on the line after the action: for a one-line action that is the next rule's line
            body = [s for s in stmts if not (isinstance(s, dict) and s.get("k") == "break")]
            nums = [int(y["l"].split(":")[1]) for s in body for y in walk(s) if isinstance(y.get("l"), str) and y["l"].startswith("lexer.ll:")]
            if nums and min(nums) >= first and max(nums) <= last:
                hits.append(stmts)
    if len(hits) != 1:
        raise Broken("action of <%s>%s (lexer.ll:%d-%d) not found exactly once in yylex (%d)" % (rule[0], rule[1], first, last, len(hits)))
    _stmts_cache[key] = hits[0]
    return hits[0]


def make_evaluator(prog, subqueries):
    """evaluator for scanner actions; parse_subquery is summarised: it records the text it was given in `subqueries` and returns a
    tree whose string is that text"""
    from cxxobj import CxxEvaluator, Obj, Vec, StdStr, Ptr, Struct, Sym
    from r_scope import tree_types
    tt = tree_types(prog)

    def subq(ev, o, a):
        text = StdStr.of(a[0]).b if not (len(a) == 2) else bytes(x & 0xff for x in a[0].cells()[a[0].off:a[1].off])
        subqueries.append(text)
        t = Obj("tree")
        t.m_tt = ("enum", "CAT", tt["CAT"])
        t.m_children = Vec([], "children")
        t.m_str, t.m_cst, t.m_builtin, t.m_scope = StdStr(text), None, None, None
        return t
    def memcpy(ev, o, a):
        dst, src, n = a[0], a[1], int(a[2])
        if not isinstance(dst, Ptr):
            from cxxobj import Buf
            if isinstance(dst, Buf):
                dst = Ptr(dst, 0)
        sc, dc = src.cells(), dst.cells()
        if src.off + n > len(sc) or dst.off + n > len(dc):
            from cxxobj import OutOfBounds
            raise OutOfBounds("memcpy of %d bytes from a buffer of %d into a buffer of %d" % (n, len(sc) - src.off, len(dc) - dst.off))
        for i in range(n):
            dc[dst.off + i] = sc[src.off + i]
        return dst

    def strtoul(ev, o, a):
        p, endp, base = a[0], a[1], int(a[2])
        from cxxobj import Buf
        if isinstance(p, Buf):
            p = Ptr(p, 0)
        cells = p.cells()
        i = p.off
        text = ""
        while i < len(cells) and cells[i] not in (0, None):
            text += chr(cells[i] & 0xff)
            i += 1
        import re as _re
        digits = {8: "[0-7]", 10: "[0-9]", 16: "[0-9a-fA-F]"}.get(base)
        if digits is None:
            raise Broken("strtoul with base %s is not modelled" % base)
        m = _re.match(r"[ \t\n\v\f\r]*[+-]?" + ("(?:0[xX])?" if base == 16 else "") + "(" + digits + "*)", text)
        used = m.end() if m and m.group(1) else 0
        val = int(m.group(1), base) if used else 0
        if m and used and "-" in text[:m.start(1)]:
            val = (-val) & ((1 << 64) - 1)
        if endp is not None:
            endp.store(Ptr(p.buf, p.off + used))
        return min(val, (1 << 64) - 1)
    def cstr_of(x):
        from cxxobj import Buf
        p_ = Ptr(x, 0) if isinstance(x, Buf) else x
        cells, out, k = p_.cells(), "", p_.off
        while k < len(cells) and cells[k] not in (0, None):
            out += chr(cells[k] & 0xff)
            k += 1
        return out

    def sprintf(ev, o, a):
        """sprintf (buf, fmt, ...) for %c %d %u %x %02x %#x %s; the destination is bounds-checked"""
        import re as _re
        from cxxobj import Buf, OutOfBounds
        fmt, args, out, k = cstr_of(a[1]), list(a[2:]), "", 0
        for m in _re.finditer(r"%(#?)(0?)(\d*)([cduxs])|%%|[^%]+", fmt):
            t = m.group(0)
            if t == "%%":
                out += "%"
            elif t.startswith("%") and m.group(4):
                v = args[k] if k < len(args) else 0
                k += 1
                conv_ = m.group(4)
                if conv_ == "s":
                    piece = cstr_of(v)
                elif conv_ == "c":
                    piece = chr(int(v) & 0xff)
                else:
                    iv = int(v)
                    if conv_ in ("x", "u") and iv < 0:
                        iv += 1 << 32          # an int argument printed as unsigned
                    piece = ("%x" % iv) if conv_ == "x" else ("%d" % iv)
                    if m.group(1) and conv_ == "x" and iv != 0:
                        piece = "0x" + piece
                    if m.group(3):
                        piece = piece.rjust(int(m.group(3)), "0" if m.group(2) else " ")
                out += piece
            else:
                out += t
        dst = Ptr(a[0], 0) if isinstance(a[0], Buf) else a[0]
        cells = dst.cells()
        if dst.off + len(out) + 1 > len(cells):
            raise OutOfBounds("sprintf writes %d bytes (\"%s\" and the terminator) into a buffer of %d" % (len(out) + 1, out, len(cells) - dst.off))
        for n_, ch in enumerate(out + "\0"):
            cells[dst.off + n_] = ord(ch)
        return len(out)
    hooks = {
        "sprintf": sprintf,
        "isprint": lambda ev, o, a: 1 if 0x20 <= (int(a[0]) & 0xff if int(a[0]) >= 0 else -1) <= 0x7e else 0,
        "std::isprint": lambda ev, o, a: 1 if 0x20 <= (int(a[0]) & 0xff if int(a[0]) >= 0 else -1) <= 0x7e else 0,
        "parse_subquery": subq,
        "memcpy": memcpy,
        "strtoul": strtoul,
        "yyget_text": lambda ev, o, a: a[0].text,
        "yyget_leng": lambda ev, o, a: a[0].leng,
        "method:release": lambda ev, o, a: o,
    }
    return CxxEvaluator(hooks, {}, prog=prog)


def new_fmtlit(prog, ev, raw=False):
    from cxxobj import Obj
    fs = [f for f in prog.funcs.values() if f["n"] == "fmtlit" and f.get("cls", "").endswith("fmtlit") and (f.get("body") is not None or f.get("inits"))]
    if len(fs) != 1:
        raise Broken("anchor fmtlit constructor vanished")
    return ev.construct(fs[0], Obj(fs[0]["cls"]), [raw])


def run(prog, ev, rule, text, f, conds):
    """interpret the action of `rule` with yytext = text (bytes) and yylval->f = f"""
    from cxxobj import Struct, Ptr, Obj, OutOfBounds
    from absint import Ret, Break, Thrown
    stmts = action_stmts(prog, rule)
    ids = {}
    for s in stmts:
        for y in walk(s):
            if y.get("k") == "ref" and y.get("n") in ("yylval", "yyscanner", "yyg", "yylval_param", "yy_cp", "yy_bp"):
                ids[y["n"]] = y["id"]
    yylval = Struct("YYSTYPE", {})
    yylval.f = f
    tp = Ptr(list(text) + [0], 0)
    sc = Obj("yyscan")
    sc.text, sc.leng = tp, len(text)
    yyg = Struct("yyguts_t", {})
    yyg.yytext_r, yyg.yyleng_r, yyg.yy_start, yyg.yylval_r = tp, len(text), None, yylval
    env = {}
    for n, v in (("yylval", yylval), ("yyscanner", sc), ("yyg", yyg), ("yylval_param", yylval)):
        if n in ids:
            env[ids[n]] = v
    res = {"token": None, "state": None, "threw": None, "yylval": yylval}
    try:
        for s in stmts:
            ev.block(s, env, None)
    except Ret as r:
        res["token"] = r.v
    except Break:
        pass
    except Thrown as t:
        res["threw"] = str(t)
    if yyg.yy_start is not None:
        idx = (int(yyg.yy_start) - 1) // 2
        res["state"] = conds[idx] if 0 <= idx < len(conds) else idx
    return res
