"""Seeded-mutant self test (thorough tier): apply each patch in mutants/index.json that belongs
to the property to a scratch copy of /repo's working tree (outside /repo and /verif), run the
property's rules on it and require the named instance to be reported."""
import json, os, shutil, subprocess, sys, tempfile
from zw import VERIF, REPO

COPY = ["libzwerg", "dwgrep", "doc", "extern", "known-dwarf.awk", "known-elf.awk", "VERSION.cmake", "version.h.in"]


def scratch_copy(dst):
    os.makedirs(dst, exist_ok=True)
    for c in COPY:
        s = os.path.join(REPO, c)
        if os.path.isdir(s):
            shutil.copytree(s, os.path.join(dst, c), ignore=shutil.ignore_patterns("*.o", "_build"))
        elif os.path.exists(s):
            shutil.copy2(s, os.path.join(dst, c))


def run_mutants(prop, rep):
    idx = json.load(open(os.path.join(VERIF, "mutants/index.json")))
    mine = [m for m in idx if prop in m["properties"]]
    results = []
    if not mine:
        rep.extra["mutants"] = {"total": 0, "detected": 0, "results": []}
        return
    root = tempfile.mkdtemp(prefix="verif-mut.", dir="/var/tmp")
    try:
        def one(m):
            d = os.path.join(root, m["name"])
            scratch_copy(d)
            r = subprocess.run(["patch", "-p1", "-s", "-f", "-i", os.path.join(VERIF, "mutants", m["patch"])],
                               cwd=d, stdout=subprocess.PIPE, stderr=subprocess.STDOUT)
            if r.returncode != 0:
                shutil.rmtree(d, ignore_errors=True)
                return {"name": m["name"], "status": "stale (patch does not apply to the current tree)"}
            env = dict(os.environ, VERIF_REPO=d, VERIF_EVIDENCE_DIR=os.path.join(d, "_evidence"),
                       VERIF_WORK=os.path.join(d, "_work"), VERIF_NO_MUTANTS="1")
            r = subprocess.run([os.path.join(VERIF, "bin/check"), prop, "quick"], env=env,
                               stdout=subprocess.PIPE, stderr=subprocess.STDOUT)
            out = r.stdout.decode(errors="replace")
            if m.get("neutral"):
                shutil.rmtree(d, ignore_errors=True)
                alarms = [l for l in out.splitlines() if l.startswith(("FINDING ", "VIOLATION "))]
                st = "silent (exit %d)" % r.returncode if not alarms else "FALSE ALARM on a behaviour-preserving change"
                res = {"name": m["name"], "rule": "-", "expect": "no finding", "status": st}
                if alarms:
                    res["output_tail"] = "\n".join(alarms)[:1500]
                return res
            hit = False
            for line in out.splitlines():
                if line.startswith("FINDING ") and ("rule=%s " % m["rule"]) in line and \
                   (m["expect"] in line):
                    hit = True
            shutil.rmtree(d, ignore_errors=True)
            st = "detected" if hit else ("NOT DETECTED (exit %d)" % r.returncode)
            res = {"name": m["name"], "rule": m["rule"], "expect": m["expect"], "status": st}
            if not hit:
                res["output_tail"] = out[-1500:]
            return res
        from concurrent.futures import ThreadPoolExecutor
        with ThreadPoolExecutor(max_workers=4) as ex:
            results = list(ex.map(one, mine))
    finally:
        shutil.rmtree(root, ignore_errors=True)
    det = sum(1 for r in results if r["status"] == "detected" or r["status"].startswith("silent"))
    app = sum(1 for r in results if not r["status"].startswith("stale"))
    rep.extra["mutants"] = {"total": len(results), "applicable": app, "detected": det, "results": results}
    for r in results:
        print("mutant %-40s %s" % (r["name"], r["status"]))
    rep.notes.append("seeded-mutant self test: %d/%d applicable mutants detected" % (det, app))
