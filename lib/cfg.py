"""Control-flow graph over the reduced AST (structured C++ statements).

Nodes:
  kind 'entry' | 'exit' | 'stmt' | 'cond' | 'ret' | 'throw' | 'dead' | 'switch' | 'join'
  ast  the reduced-AST node evaluated at this node (expression, decl stmt, ...)
  succs list of (target_id, label) ; label is None, True/False for 'cond',
        ('case', lo, hi) / 'default' / 'nomatch' for 'switch', 'exc' for handler entry.

Conditions are split on && || ! so that every 'cond' node tests one atom.
`return c ? a : b` and `x = c ? a : b` at statement level are split as branches
when requested (split_ternary=True).  Asserts (calls to __assert_fail) are
ignored: the production build compiles them out.
Lambda bodies are not part of the enclosing function's graph.
"""
from zw import walk_nolambda, Broken


class Node:
    __slots__ = ("id", "kind", "ast", "succs", "loc", "note")

    def __init__(self, i, kind, ast=None, loc=None, note=None):
        self.id = i
        self.kind = kind
        self.ast = ast
        self.succs = []
        self.loc = loc
        self.note = note

    def __repr__(self):
        return "<%d %s %s>" % (self.id, self.kind, self.loc)


_ASSERT_MEMO = {}


def contains_assert(e):
    # fact nodes are immutable once loaded and live as long as the program: remember the answer per node
    if isinstance(e, dict):
        k = id(e)
        hit = _ASSERT_MEMO.get(k)
        if hit is not None and hit[0] is e:
            return hit[1]
    r = False
    for x in walk_nolambda(e):
        if x.get("k") == "call" and x.get("fn") in ("__assert_fail", "__assert_perror_fail"):
            r = True
            break
    if isinstance(e, dict):
        _ASSERT_MEMO[k] = (e, r)
    return r


def is_noreturn_call(e):
    if not isinstance(e, dict):
        return False
    if e.get("k") == "call" and (e.get("noreturn") or e.get("fn") in ("abort", "exit", "_exit", "__builtin_unreachable")):
        return True
    return False


def const_truth(e):
    """True/False if the condition is a compile-time constant, else None"""
    if not isinstance(e, dict):
        return None
    if e.get("k") == "bool":
        return bool(e["v"])
    if e.get("k") == "int":
        return e["v"] != 0
    if "iv" in e and e.get("k") not in ("call",):
        try:
            return int(e["iv"]) != 0
        except Exception:
            return None
    return None


class CFG:
    def __init__(self, func, split_ternary=True):
        self.func = func
        self.nodes = []
        self.split_ternary = split_ternary
        self.entry = self.new("entry", loc=func.get("l"))
        self.exit = self.new("exit", loc=func.get("l"))
        self.labels = {}
        self.gotos = []
        self.cur_loc = func.get("l")
        body = func.get("body")
        tb = [] if func.get("allow_break") else None
        ends = self.stmt(body, [(self.entry.id, None)], tb, None)
        self.link(ends + (tb or []), self.exit.id)   # falling off the end (or leaving an action with break)
        for nid, label in self.gotos:
            if label not in self.labels:
                raise Broken("goto to unknown label %s in %s" % (label, func["q"]))
            self.nodes[nid].succs.append((self.labels[label], None))
        self.preds = None

    def new(self, kind, ast=None, loc=None, note=None):
        n = Node(len(self.nodes), kind, ast, loc, note)
        self.nodes.append(n)
        return n

    def link(self, frm, to):
        for nid, label in frm:
            self.nodes[nid].succs.append((to, label))

    # `frm` is a list of dangling edges (node id, label); every builder
    # returns the list of dangling edges leaving the construct.
    def seq_node(self, kind, ast, frm, loc=None):
        n = self.new(kind, ast, loc or (ast.get("l") if isinstance(ast, dict) else None) or self.cur_loc)
        self.link(frm, n.id)
        return n

    def cond(self, e, frm):
        """build condition evaluation; returns (true_edges, false_edges)"""
        if isinstance(e, dict):
            k = e.get("k")
            if k == "un" and e.get("op") == "!":
                t, f = self.cond(e["e"], frm)
                return f, t
            if k == "bin" and e.get("op") == "&&":
                t1, f1 = self.cond(e["lhs"], frm)
                t2, f2 = self.cond(e["rhs"], t1)
                return t2, f1 + f2
            if k == "bin" and e.get("op") == "||":
                t1, f1 = self.cond(e["lhs"], frm)
                t2, f2 = self.cond(e["rhs"], f1)
                return t1 + t2, f2
            if k == "call" and e.get("fn") == "operator bool" and e.get("obj") is not None \
               and isinstance(e["obj"], dict) and e["obj"].get("k") in ("un", "bin") :
                pass
        ct = const_truth(e)
        n = self.seq_node("cond", e, frm, loc=(e.get("l") if isinstance(e, dict) else None))
        if ct is True:
            return [(n.id, True)], []
        if ct is False:
            return [], [(n.id, False)]
        return [(n.id, True)], [(n.id, False)]

    def expr_stmt(self, e, frm, kind="stmt", loc=None):
        """an expression evaluated for effect"""
        if e is None:
            return frm
        if isinstance(e, dict):
            if contains_assert(e):
                return frm
            if self.split_ternary and e.get("k") == "cond":
                t, f = self.cond(e["c"], frm)
                a = self.expr_stmt(e["a"], t, kind, loc)
                b = self.expr_stmt(e["b"], f, kind, loc)
                return a + b
            if e.get("k") == "throw":
                n = self.seq_node("throw", e, frm, loc)
                return []
            if is_noreturn_call(e):
                n = self.seq_node("dead", e, frm, loc)
                return []
        n = self.seq_node(kind, e, frm, loc)
        return [(n.id, None)]

    def stmt(self, s, frm, brk, cont):
        """brk/cont: lists collecting dangling edges for break/continue (or None)"""
        if s is None:
            return frm
        if not frm:
            # unreachable code still gets nodes (labels may make it reachable)
            pass
        k = s.get("k")
        if s.get("l"):
            self.cur_loc = s["l"]
        if k == "block":
            cur = frm
            for c in s["s"]:
                cur = self.stmt(c, cur, brk, cont)
            return cur
        if k == "if":
            cur = frm
            if s.get("init"):
                cur = self.stmt(s["init"], cur, brk, cont)
            if s.get("var"):
                n = self.seq_node("stmt", {"k": "decl", "vars": [s["var"]], "l": s["l"]}, cur, s["l"])
                cur = [(n.id, None)]
            t, f = self.cond(s["c"], cur)
            a = self.stmt(s["then"], t, brk, cont)
            b = self.stmt(s.get("else"), f, brk, cont) if s.get("else") else f
            return a + b
        if k == "while":
            head = self.new("join", loc=s["l"])
            self.link(frm, head.id)
            cur = [(head.id, None)]
            if s.get("var"):
                n = self.seq_node("stmt", {"k": "decl", "vars": [s["var"]], "l": s["l"]}, cur, s["l"])
                cur = [(n.id, None)]
            t, f = self.cond(s["c"], cur)
            b, c = [], []
            body_end = self.stmt(s["body"], t, b, c)
            self.link(body_end + c, head.id)
            return f + b
        if k == "do":
            head = self.new("join", loc=s["l"])
            self.link(frm, head.id)
            b, c = [], []
            body_end = self.stmt(s["body"], [(head.id, None)], b, c)
            t, f = self.cond(s["c"], body_end + c)
            self.link(t, head.id)
            return f + b
        if k == "for":
            cur = frm
            if s.get("init"):
                cur = self.stmt(s["init"], cur, brk, cont)
            head = self.new("join", loc=s["l"])
            self.link(cur, head.id)
            hp = [(head.id, None)]
            if s.get("var"):            # condition declaration, evaluated before every iteration
                n = self.seq_node("stmt", {"k": "decl", "vars": [s["var"]], "l": s["l"]}, hp, s["l"])
                hp = [(n.id, None)]
            if s.get("c") is not None:
                t, f = self.cond(s["c"], hp)
            else:
                t, f = hp, []
            b, c = [], []
            body_end = self.stmt(s["body"], t, b, c)
            inc = body_end + c
            if s.get("inc") is not None:
                inc = self.expr_stmt(s["inc"], inc, loc=s["l"])
            self.link(inc, head.id)
            return f + b
        if k == "rfor":
            n = self.seq_node("stmt", s["range"], frm, s["l"])
            head = self.new("cond", {"k": "rfor-more", "range": s["range"], "var": s["var"], "l": s["l"]}, s["l"])
            self.link([(n.id, None)], head.id)
            b, c = [], []
            body_end = self.stmt(s["body"], [(head.id, True)], b, c)
            self.link(body_end + c, head.id)
            return [(head.id, False)] + b
        if k == "switch":
            cur = frm
            if s.get("init"):
                cur = self.stmt(s["init"], cur, brk, cont)
            if s.get("var"):
                n = self.seq_node("stmt", {"k": "decl", "vars": [s["var"]], "l": s["l"]}, cur, s["l"])
                cur = [(n.id, None)]
            sw = self.seq_node("switch", s["c"], cur, s["l"])
            b = []
            ctx = {"sw": sw, "default": False}
            self._sw_stack = getattr(self, "_sw_stack", [])
            self._sw_stack.append(ctx)
            end = self.stmt(s["body"], [], b, cont)
            self._sw_stack.pop()
            out = end + b
            if not ctx["default"]:
                out = out + [(sw.id, "nomatch")]
            return out
        if k in ("case", "default"):
            ctx = self._sw_stack[-1]
            j = self.new("join", loc=s["l"], note=k)
            self.link(frm, j.id)
            if k == "case":
                lo = s["lo"].get("iv", s["lo"].get("v")) if isinstance(s["lo"], dict) else None
                hi = s["hi"].get("iv", s["hi"].get("v")) if isinstance(s.get("hi"), dict) else lo
                ctx["sw"].succs.append((j.id, ("case", lo, hi, s["lo"])))
            else:
                ctx["default"] = True
                ctx["sw"].succs.append((j.id, "default"))
            return self.stmt(s["sub"], [(j.id, None)], brk, cont)
        if k == "return":
            e = s.get("e")
            if self.split_ternary and isinstance(e, dict):
                # see through an elidable copy/move of a conditional
                inner = e
                while inner.get("k") == "ctor" and inner.get("cm") and len(inner["a"]) == 1:
                    inner = inner["a"][0]
                if isinstance(inner, dict) and inner.get("k") == "cond":
                    t, f = self.cond(inner["c"], frm)
                    for edges, sub in ((t, inner["a"]), (f, inner["b"])):
                        n = self.seq_node("ret", sub, edges, s["l"])
                        n.succs.append((self.exit.id, None))
                    return []
            n = self.seq_node("ret", e, frm, s["l"])
            n.succs.append((self.exit.id, None))
            return []
        if k == "decl":
            # a declaration whose initialiser is a conditional is split as well
            n = self.seq_node("stmt", s, frm, s["l"])
            return [(n.id, None)]
        if k == "break":
            if brk is None:
                raise Broken("break outside loop in %s" % self.func["q"])
            brk.extend(frm)
            return []
        if k == "continue":
            if cont is None:
                raise Broken("continue outside loop in %s" % self.func["q"])
            cont.extend(frm)
            return []
        if k == "null":
            return frm
        if k == "try":
            t = self.new("join", loc=s["l"], note="try")
            self.link(frm, t.id)
            out = self.stmt(s["body"], [(t.id, None)], brk, cont)
            for h in s["handlers"]:
                hn = self.new("join", loc=h["l"], note="catch " + h["t"])
                t.succs.append((hn.id, "exc"))
                out = out + self.stmt(h["body"], [(hn.id, None)], brk, cont)
            return out
        if k == "goto":
            n = self.seq_node("stmt", s, frm, s["l"])
            self.gotos.append((n.id, s["label"]))
            return []
        if k == "label":
            j = self.new("join", loc=s["l"], note="label " + s["n"])
            self.labels[s["n"]] = j.id
            self.link(frm, j.id)
            return self.stmt(s["sub"], [(j.id, None)], brk, cont)
        if k == "otherstmt":
            n = self.seq_node("stmt", s, frm, s["l"])
            return [(n.id, None)]
        # expression statement
        return self.expr_stmt(s, frm, loc=s.get("l"))

    # ------------------------------------------------------------ queries
    def reachable(self, start=None, avoid=lambda n: False, edge_ok=lambda n, t, lab: True):
        start = self.entry.id if start is None else start
        seen = {start}
        st = [start]
        while st:
            i = st.pop()
            n = self.nodes[i]
            if i != start and avoid(n):
                continue
            for t, lab in n.succs:
                if t not in seen and edge_ok(n, t, lab):
                    seen.add(t)
                    st.append(t)
        return seen

    def predecessors(self):
        if self.preds is None:
            self.preds = {n.id: [] for n in self.nodes}
            for n in self.nodes:
                for t, lab in n.succs:
                    self.preds[t].append((n.id, lab))
        return self.preds

    def dump(self):
        out = []
        for n in self.nodes:
            from zw import short
            out.append("%3d %-6s %-14s %s -> %s" % (n.id, n.kind, n.loc or "", short(n.ast)[:70] if isinstance(n.ast, dict) and n.ast.get("k") not in ("decl",) else (n.note or (n.ast or {}).get("k", "") if isinstance(n.ast, dict) else (n.note or "")),
                       ", ".join("%d%s" % (t, "" if l is None else "[%s]" % (l if not isinstance(l, tuple) else l[1])) for t, l in n.succs)))
        return "\n".join(out)
