"""Which rule of lexer.ll fires where: flex's matching discipline (longest match, earliest rule on ties, start conditions, <<EOF>>)
decided from the patterns of the rules section, and the actions interpreted from source through scanner.run.

scan(prog, text) -> list of tokens (NAME, payload) the parser would be handed for the query `text`, or raises ScanError with the
message of the exception an action throws.  Nothing of the repository is executed: the patterns are translated to regular
expressions (the subset of flex syntax the file uses; anything else is Broken), the actions are the statements of yylex located by
their lexer.ll lines."""
import re
from zw import Broken
import scanner


class ScanError(Exception):
    pass


def _definitions():
    lines = open(scanner.lexer_path()).read().split("\n")
    defs = {}
    in_code = False
    for l in lines:
        if l.strip() == "%%":
            break
        if l.startswith("%{"):
            in_code = True
            continue
        if l.startswith("%}"):
            in_code = False
            continue
        if in_code or not l or l[0].isspace() or l.startswith("%"):
            continue
        m = re.match(r"([A-Za-z_][A-Za-z0-9_]*)\s+(\S.*)$", l)
        if m:
            defs[m.group(1)] = m.group(2).strip()
    return defs


_ESC = {"n": "\n", "t": "\t", "r": "\r", "f": "\f", "v": "\v", "a": "\a", "b": "\b", "0": "\0"}


def translate(pat, defs, depth=0):
    """flex pattern -> Python regular expression (str, to be compiled in bytes/latin-1 mode with DOTALL off)"""
    if depth > 8:
        raise Broken("recursive flex definition")
    out = []
    i = 0
    n = len(pat)
    while i < n:
        c = pat[i]
        if c == '"':
            j = i + 1
            lit = []
            while j < n and pat[j] != '"':
                if pat[j] == "\\" and j + 1 < n:
                    d = pat[j + 1]
                    lit.append(_ESC.get(d, d))
                    j += 2
                else:
                    lit.append(pat[j])
                    j += 1
            if j >= n:
                raise Broken("unterminated quoted string in flex pattern %s" % pat)
            out.append("".join(re.escape(ch) for ch in lit))
            i = j + 1
        elif c == "{":
            j = pat.find("}", i)
            name = pat[i + 1:j] if j > 0 else None
            if name and re.fullmatch(r"[A-Za-z_][A-Za-z0-9_]*", name):
                if name not in defs:
                    raise Broken("flex pattern uses undefined name {%s}" % name)
                out.append("(?:" + translate(defs[name], defs, depth + 1) + ")")
                i = j + 1
            elif name and re.fullmatch(r"[0-9]+(,[0-9]*)?", name):
                out.append("{" + name + "}")
                i = j + 1
            else:
                raise Broken("unmodelled {..} in flex pattern %s" % pat)
        elif c == "[":
            j = i + 1
            if j < n and pat[j] == "^":
                j += 1
            if j < n and pat[j] == "]":
                j += 1
            while j < n and pat[j] != "]":
                if pat[j] == "\\":
                    j += 1
                elif pat[j] == "[" and pat[j:j + 2] == "[:":
                    raise Broken("POSIX character class in flex pattern %s (unmodelled)" % pat)
                j += 1
            if j >= n:
                raise Broken("unterminated character class in flex pattern %s" % pat)
            body = pat[i + 1:j]
            # Python treats an unescaped [ inside a class literally but warns; escape it
            body2 = ""
            k = 0
            while k < len(body):
                if body[k] == "\\" and k + 1 < len(body):
                    body2 += body[k:k + 2]
                    k += 2
                    continue
                body2 += "\\[" if body[k] == "[" else body[k]
                k += 1
            out.append("[" + body2 + "]")
            i = j + 1
        elif c == ".":
            out.append("[^\\n]")
            i += 1
        elif c == "\\":
            if i + 1 >= n:
                raise Broken("dangling backslash in flex pattern %s" % pat)
            d = pat[i + 1]
            out.append(re.escape(_ESC[d]) if d in _ESC else "\\" + d)
            i += 2
        elif c in "*+?|()":
            out.append(c)
            i += 1
        elif c in "/^$<>":
            raise Broken("flex operator `%s` in pattern %s (trailing context / anchors are unmodelled)" % (c, pat))
        else:
            out.append(re.escape(c))
            i += 1
    return "".join(out)


class Scanner:
    def __init__(self, prog):
        self.prog = prog
        self.conds, self.rules = scanner.rules()
        self.defs = _definitions()
        self.src = open(scanner.lexer_path()).read().split("\n")
        self.compiled = []
        for r in self.rules:
            st, pat, first, last = r
            if pat == "<<EOF>>":
                self.compiled.append((r, None))
                continue
            try:
                rx = re.compile(translate(pat, self.defs).encode("latin-1"))
            except re.error as x:
                raise Broken("cannot translate flex pattern %s: %s" % (pat, x))
            self.compiled.append((r, rx))
        self.subqueries = []
        self.ev = scanner.make_evaluator(prog, self.subqueries)

    def has_action(self, rule):
        st, pat, first, last = rule
        text = "\n".join(self.src[first - 1:last])
        k = text.find(pat)
        rest = text[k + len(pat):] if k >= 0 else text
        rest = re.sub(r"//[^\n]*", "", rest)
        rest = re.sub(r"(?s)/\*.*?\*/", "", rest)
        return bool(rest.strip())

    def match(self, state, data, pos):
        """(rule, length) flex selects at `pos` in start condition `state`"""
        best = None
        if pos >= len(data):
            for r, rx in self.compiled:
                if r[0] == state and rx is None:
                    return r, 0
            return None, 0
        for r, rx in self.compiled:
            if r[0] != state or rx is None:
                continue
            ln = 0
            # longest prefix this rule matches: candidates are few, inputs short
            for end in range(len(data), pos, -1):
                if rx.fullmatch(data, pos, end):
                    ln = end - pos
                    break
            if ln and (best is None or ln > best[1]):
                best = (r, ln)
        return best if best else (None, 0)

    def tokens(self, text, limit=4000):
        """interpret the scanner on `text` (bytes); returns [(token name, payload)] up to and including TOK_EOF"""
        from cxxobj import OutOfBounds
        toknames = None
        for e in self.prog.enums.values():
            if e["q"].endswith("yytokentype"):
                toknames = {c["v"]: c["n"] for c in e["consts"]}
        if toknames is None:
            raise Broken("enum yytokentype vanished")
        state, pos, f = "INITIAL", 0, None
        out = []
        fired = []
        raw = []                          # (token name, the YYSTYPE object the action filled) for a parser simulation
        steps = 0
        while True:
            steps += 1
            if steps > limit:
                raise Broken("scanner simulation does not terminate on %r" % text)
            rule, ln = self.match(state, text, pos)
            if rule is None:
                raise Broken("no rule of lexer.ll matches at offset %d of %r in <%s> (the default rule would echo to stdout)" % (pos, text, state))
            lexeme = text[pos:pos + ln]
            pos += ln
            fired.append((rule[0], rule[1], lexeme))
            if not self.has_action(rule):
                continue
            self.ev.steps = 0
            try:
                r = scanner.run(self.prog, self.ev, rule, lexeme, f, self.conds)
            except OutOfBounds as x:
                raise ScanError("memory error in the action of <%s>%s on %r: %s" % (rule[0], rule[1], lexeme, x))
            if r["threw"]:
                raise ScanError(r["threw"])
            yl = r["yylval"]
            f = getattr(yl, "f", None) if hasattr(yl, "f") or True else None
            if r["state"] is not None:
                state = r["state"]
            tok = r["token"]
            if tok is not None:
                name = tok[1] if isinstance(tok, tuple) else toknames.get(tok, tok)
                out.append((name, self.payload(name, yl)))
                raw.append((name, yl))
                if name == "TOK_EOF":
                    self.raw_tokens = raw     # set on return: an action may re-enter the scanner (embedded queries)
                    return out, fired
                f = None
            elif rule[1] == "<<EOF>>":
                raise Broken("the <<EOF>> action of <%s> neither returns nor throws" % rule[0])

    def payload(self, name, yl):
        if name == "TOK_LIT_STR":
            return dump_tree(getattr(yl, "t", None))
        if name in ("TOK_WORD", "TOK_NUMWORD", "TOK_LIT_INT", "TOK_OP"):
            s = getattr(yl, "s", None)
            buf = getattr(s, "buf", None)
            ln = getattr(s, "len", None)
            if buf is None or ln is None:
                return None
            cells = buf.cells()
            return bytes(x & 0xff for x in cells[buf.off:buf.off + int(ln)])
        if name == "TOK_LBRACKET":
            return getattr(yl, "u", None)
        return None


def dump_tree(t):
    """canonical nested tuple of a tree object built by the interpreted constructors"""
    if t is None:
        return None
    tt = getattr(t, "m_tt", None)
    s = getattr(t, "m_str", None)
    kids = getattr(getattr(t, "m_children", None), "items", []) or []
    return (tt[1] if isinstance(tt, tuple) else tt, bytes(s.b) if s is not None and hasattr(s, "b") else None, tuple(dump_tree(k) for k in kids))
