"""The op engine interpreted as a whole: build_exec / build_pred (build.cc) run from source on a tree, the ops they construct (op.cc,
their real constructors, layout, bindings, up-references) run from source through virtual dispatch, the per-execution state area
(scon) modelled as a table from layout offsets to state objects (typed: reading a slot as another class than it was constructed as,
or before construction, is an out-of-bounds finding), stacks by the real `stack` class.  Only the leaves are abstract: builtin words
(push a tagged value, drop, fail, yield twice, count up) and values (tagged atoms).

reference(tree, stack) is an independent, direct implementation of the documented meaning of the constructs (doc/syntax.rst) used as
the oracle."""
import itertools
from zw import Broken
from cxxobj import CxxEvaluator, Obj, Vec, It, StdStr, Sym, OutOfBounds
from absint import Thrown


class El:
    def __init__(self, name, clone_of=None):
        self.name, self.clone_of = name, clone_of
        self.addr = id(self)

    def copy_value(self):
        return self

    def __repr__(self):
        return str(self.name)


class Ty:
    def __init__(self, c):
        self.m_code = c

    def copy_value(self):
        return Ty(self.m_code)


class Builtin:
    _cls = "builtin"

    def __init__(self, kind, arg=None):
        self.kind, self.arg = kind, arg
        self.addr = id(self)


class LeafOp:
    _cls = "leaf"

    def __init__(self, bi, upstream):
        self.bi, self.upstream, self.queue = bi, upstream, []
        self.addr = id(self)


class LeafPred:
    _cls = "leafpred"

    def __init__(self, bi):
        self.bi = bi
        self.addr = id(self)


class _Eval(CxxEvaluator):
    def eval(self, e, env, this):
        if isinstance(e, dict) and e.get("k") == "call":
            f = e.get("f") or ""
            for nm in ("con", "des", "get", "reset"):
                if f.startswith("scon::%s<" % nm) and e.get("targs"):
                    sc = self.eval(e["obj"], env, this) if e.get("obj") is not None else None
                    args = [self.eval(a, env, this) for a in e.get("a", [])]
                    return getattr(self.engine, "sc_" + nm)(sc, e["targs"][0], args)
        return CxxEvaluator.eval(self, e, env, this)


class Engine:
    def __init__(self, prog):
        from r_scope import tree_types
        self.prog = prog
        self.tt = tree_types(prog)
        self.be = prog.func_opt("(anonymous namespace)::build_exec")
        if self.be is None:
            raise Broken("anchor build_exec vanished")
        one = lambda q: [f for f in prog.funcs.values() if f["q"] == q and f.get("body") is not None]
        self.push, self.pop, self.setn = one("stack::push"), one("stack::pop"), one("op_origin::set_next")
        if not (len(self.push) == len(self.pop) == len(self.setn) == 1):
            raise Broken("anchors stack::push / stack::pop / op_origin::set_next vanished")
        hooks = {
            "zw_value::clone": lambda ev, o, a: El(o.name, clone_of=o) if isinstance(o, El) else o,
            "zw_value::show": lambda ev, o, a: (a[0].put(StdStr(self.show(o).encode())), None)[1],
            "zw_value::get_type": lambda ev, o, a: Ty(1),
            "value_type::code": lambda ev, o, a: o.m_code,
            "value_type::operator<": lambda ev, o, a: o.m_code < a[0].m_code,
            "zw_value::cmp": self.value_cmp,
            "zw_value::as<value_closure>": lambda ev, o, a: a[0] if getattr(a[0], "_cls", None) == "value_closure" else None,
            "zw_value::is<value_closure>": lambda ev, o, a: getattr(o, "_cls", None) == "value_closure",
            "builtin::build_exec": lambda ev, o, a: (ev.new_object("op_apply", [a[0], a[1], False]) if o.kind == "apply" else LeafOp(o, a[1])) if not o.kind.startswith("pred-") else None,
            "ctor:scon": lambda ev, o, a: self.new_scon(),
            "builtin::build_pred": lambda ev, o, a: LeafPred(o) if o.kind.startswith("pred-") else None,
            "method:next": self.leaf_next,
            "method:state_con": lambda ev, o, a: self.leaf_cd(o, a, "state_con"),
            "method:state_des": lambda ev, o, a: self.leaf_cd(o, a, "state_des"),
            "method:result": self.leaf_result,
            "method:get": lambda ev, o, a: o, "method:release": lambda ev, o, a: o,
            "ctor:std::runtime_error": lambda ev, o, a: "exc",
            "debug_stack": lambda ev, o, a: None,
            "vocabulary::get_builtins": lambda ev, o, a: o.words,
        }
        w = prog.globals.get("selector::W")
        W = (w.get("init") or {}).get("iv") if w else None
        from cxxobj import OStream
        self.cerr = OStream()
        g = {"std::cerr": self.cerr}
        if W is not None:
            g["selector::W"] = W
        self.ev = _Eval(hooks, g, prog=prog)
        self.ev.engine = self
        self.ev.owning_destroy = True

    def value_cmp(self, ev, o, a):
        x, y = self.show(o), self.show(a[0])
        n = "equal" if x == y else ("less" if x < y else "greater")
        for e_ in self.prog.enums.values():
            if e_["q"] == "cmp_result":
                for c in e_["consts"]:
                    if c["n"] == n:
                        return ("enum", c["n"], c["v"])
        raise Broken("enum cmp_result vanished")

    # ---- the state area: one table per scon object (a closure application has a state area of its own)
    @staticmethod
    def _loc(x):
        return x.m_loc if hasattr(x, "m_loc") else x

    @staticmethod
    def new_scon():
        sc = Obj("scon")
        sc._slots = {}          # shared by every copy of the handle
        return sc

    @staticmethod
    def _slots(sc):
        if sc is None or not hasattr(sc, "_slots"):
            raise Broken("state access without a state area")
        return sc._slots

    def sc_con(self, sc, cls, a):
        self._slots(sc)[self._loc(a[0])] = self.ev.new_object(cls, list(a[1:]))

    def sc_des(self, sc, cls, a):
        loc, sl = self._loc(a[0]), self._slots(sc)
        if loc not in sl:
            raise OutOfBounds("the state at offset %s is destroyed without having been constructed" % loc)
        self.ev.destroy(sl.pop(loc))

    def sc_get(self, sc, cls, a):
        loc, sl = self._loc(a[0]), self._slots(sc)
        if loc not in sl:
            raise OutOfBounds("the state at offset %s is used before it is constructed (or after it is destroyed)" % loc)
        st = sl[loc]
        if getattr(st, "_cls", None) != cls:
            raise OutOfBounds("the state at offset %s holds a %s but is used as %s" % (loc, getattr(st, "_cls", None), cls))
        return st

    def sc_reset(self, sc, cls, a):
        st = self.sc_get(sc, cls, a)
        self.ev.destroy(st)
        n = self.ev.new_object(cls, list(a[1:]))
        st.__dict__.clear()
        st.__dict__.update(n.__dict__)

    # ---- leaves
    def pull(self, op, sc):
        if isinstance(op, LeafOp):
            return self.leaf_next(self.ev, op, [sc])
        f = self.ev._resolve_virtual(op._cls, "next", 1)
        if f is None:
            raise Broken("no next() for %s" % op._cls)
        return self.ev.call(f, op, [sc])

    def leaf_next(self, ev, o, a):
        if not isinstance(o, LeafOp):
            raise Broken("next() on an object the engine model does not know")
        sc = a[0]
        key = ("leaf", id(o))
        if key not in self._slots(sc):
            raise OutOfBounds("a builtin word is asked for results in a state area in which its state was never constructed (state_con did not reach it)")
        queue = self._slots(sc)[key]
        while True:
            if queue:
                return queue.pop(0)
            stk = self.pull(o.upstream, sc)
            if stk is None:
                return None
            k = o.bi.kind
            if k == "push":
                ev.call(self.push[0], stk, [El(o.bi.arg)])
                return stk
            if k == "drop":
                ev.call(self.pop[0], stk, [])
                return stk
            if k == "fail":
                continue
            if k == "twice":
                other = self.copy_stack(stk)
                ev.call(self.push[0], stk, [El(o.bi.arg + "1")])
                ev.call(self.push[0], other, [El(o.bi.arg + "2")])
                queue.append(other)
                return stk
            if k == "flip":
                top = stk.m_values.items[-1] if stk.m_values.items else None
                tn = self.show(top) if top is not None else ""
                if tn not in ("a", "b"):
                    continue
                ev.call(self.pop[0], stk, [])
                ev.call(self.push[0], stk, [El("b" if tn == "a" else "a")])
                return stk
            if k == "inc":
                top = stk.m_values.items[-1] if stk.m_values.items else None
                tn = self.show(top) if top is not None else ""
                if not tn.isdigit() or int(tn) >= o.bi.arg:
                    continue
                ev.call(self.pop[0], stk, [])
                ev.call(self.push[0], stk, [El(str(int(tn) + 1))])
                return stk
            raise Broken("unknown leaf %s" % k)

    def leaf_cd(self, o, a, which):
        if not isinstance(o, LeafOp):
            raise Broken("%s on an object the engine model does not know" % which)
        key, sl = ("leaf", id(o)), self._slots(a[0])
        if which == "state_con":
            if key in sl:
                raise OutOfBounds("the state of a builtin word is constructed twice in one state area")
            sl[key] = []
        else:
            if key not in sl:
                raise OutOfBounds("the state of a builtin word is destroyed without having been constructed")
            del sl[key]
        up = o.upstream
        if isinstance(up, LeafOp):
            return self.leaf_cd(up, a, which)
        f = self.ev._resolve_virtual(up._cls, which, 1)
        return self.ev.call(f, up, a)

    def leaf_result(self, ev, o, a):
        if not isinstance(o, LeafPred):
            raise Broken("result() on an object the engine model does not know")
        stk = a[1]
        top = stk.m_values.items[-1] if stk.m_values.items else None
        if o.bi.kind in ("pred-eq2", "pred-ne2"):
            if len(stk.m_values.items) < 2:
                raise Thrown("comparison word on a stack of fewer than two values")
            same = self.show(stk.m_values.items[-1]) == self.show(stk.m_values.items[-2])
            yes = same if o.bi.kind == "pred-eq2" else not same
        else:
            yes = top is not None and self.show(top) == str(o.bi.arg)
        for e_ in self.prog.enums.values():
            if e_["q"] == "pred_result":
                for c in e_["consts"]:
                    if c["n"] == ("yes" if yes else "no"):
                        return ("enum", c["n"], c["v"])
        raise Broken("enum pred_result vanished")

    def copy_stack(self, stk):
        c = Obj("stack")
        c.m_values, c.m_profile = Vec(list(stk.m_values.items), "values"), stk.m_profile
        return c

    # ---- trees
    def tree(self, kind, kids=(), cst=None, name=None, bi=None):
        t = Obj("tree")
        t.m_tt = ("enum", kind, self.tt[kind])
        t.m_children = Vec(list(kids), "children")
        t.m_str = StdStr(name.encode()) if name is not None else StdStr(b"")
        t.m_cst, t.m_builtin, t.m_scope = cst, bi, None
        return t

    def build(self, spec):
        """spec: nested tuples ('CAT', a, b) / ('push', 'x') / ('SUBX', k, a) / ('BIND', 'n') / ('READ', 'n') ..."""
        import r_build
        op = spec[0]
        if op in ("push", "drop", "fail", "twice", "inc", "apply"):
            return self.tree("F_BUILTIN", bi=Builtin(op, spec[1] if len(spec) > 1 else None))
        if op == "top?":
            return self.tree("F_BUILTIN", bi=Builtin("pred-top", spec[1]))
        if op in ("CAT", "ALT", "OR", "CAPTURE", "CLOSE_STAR", "CLOSE_PLUS", "IFELSE", "SCOPE", "NOP", "BLOCK"):
            return self.tree(op, [self.build(x) for x in spec[1:]])
        if op == "SUBX":
            return self.tree("SUBX_EVAL", [self.build(spec[2])], cst=r_build.mkconst(spec[1]))
        if op == "?":
            return self.tree("ASSERT", [self.tree("PRED_SUBX_ANY", [self.build(spec[1])])])
        if op == "!":
            return self.tree("ASSERT", [self.tree("PRED_NOT", [self.tree("PRED_SUBX_ANY", [self.build(spec[1])])])])
        if op in ("BIND", "READ"):
            return self.tree(op, name=spec[1])
        if op == "FORMAT":
            return self.tree("FORMAT", [self.tree("STR", name=x) if isinstance(x, str) else self.build(x) for x in spec[1:]])
        raise Broken("unknown construct %s" % op)

    BUILTIN_WORDS = {"bw": ("push", "B!"), "bdrop": ("drop",)}

    def vocabulary(self):
        from cxxobj import MapObj
        pk = {"top?": "pred-top", "eq2?": "pred-eq2", "ne2?": "pred-ne2"}
        voc = Obj("vocabulary")
        voc.words = MapObj([(StdStr(n.encode()), Builtin(pk.get(d[0], d[0]), *d[1:])) for n, d in self.BUILTIN_WORDS.items()])
        return voc

    def root_bindings(self):
        """the root scope as the library builds it: one binding per builtin word of the vocabulary"""
        from cxxobj import MapObj
        voc = Obj("vocabulary")
        pk = {"top?": "pred-top", "eq2?": "pred-eq2", "ne2?": "pred-ne2"}
        voc.words = MapObj([(StdStr(n.encode()), Builtin(pk.get(d[0], d[0]), *d[1:])) for n, d in self.BUILTIN_WORDS.items()])
        return self.ev.new_object("bindings", [voc])

    def simplified(self, spec):
        """the tree of `spec` after tree::simplify, interpreted from source"""
        fs = [f for f in self.prog.funcs.values() if f["q"] == "tree::simplify" and f.get("body") is not None]
        if len(fs) != 1:
            raise Broken("anchor tree::simplify vanished")
        t = self.build(spec)
        self.ev.steps = 0
        self.ev.call(fs[0], t, [])
        return t

    def run(self, spec, initial, limit=200, tree=None):
        """results of the query `spec` (or of the given tree object) on the stack `initial` (list of atom names, TOS last): list of
        tuples of names, or ('error', msg)"""
        ev = self.ev
        ev.steps = 0
        lay = ev.new_object("layout", [0])
        origin = ev.new_object("op_origin", [lay])
        try:
            # the library's own entry point: tree::build_exec (layout, upstream, vocabulary) makes the root scope of builtin words and
            # the query's top scope below it
            pub = [f for f in self.prog.funcs.values() if f["q"] == "tree::build_exec" and f.get("body") is not None and len(f.get("params", [])) == 3]
            if len(pub) != 1:
                raise Broken("anchor tree::build_exec (layout, upstream, vocabulary) vanished")
            top = ev.call(pub[0], tree if tree is not None else self.build(spec), [lay, origin, self.vocabulary()])
        except Thrown as x:
            return ("error", "compile: %s" % x)
        sc = self.new_scon()
        out = []
        try:
            if isinstance(top, LeafOp):
                self.leaf_cd(top, [sc], "state_con")
            else:
                ev.call(ev._resolve_virtual(top._cls, "state_con", 1), top, [sc])
            st = Obj("stack")
            st.m_values, st.m_profile = Vec([], "values"), 0
            for x in initial:
                ev.call(self.push[0], st, [El(x)])
            ev.call(self.setn[0], origin, [sc, st])
            for _ in range(limit):
                r = self.pull(top, sc)
                if r is None:
                    break
                out.append(tuple(self.show(v) for v in r.m_values.items))
            else:
                return ("error", "more than %d results" % limit)
            again = self.pull(top, sc)
            if again is not None:
                out.append(("<after exhaustion>",) + tuple(self.show(v) for v in again.m_values.items))
            if isinstance(top, LeafOp):
                self.leaf_cd(top, [sc], "state_des")
            else:
                ev.call(ev._resolve_virtual(top._cls, "state_des", 1), top, [sc])
            if getattr(sc, "_slots", None):
                out.append(("<state left behind: %s>" % sorted(str(k) if not isinstance(k, tuple) else "a builtin word's" for k in sc._slots),))
        except Thrown as x:
            return ("error", "run")
        return out

    def show(self, v):
        if isinstance(v, El):
            return str(v.name)
        if getattr(v, "_cls", None) == "value_closure":
            return "<closure>"
        if getattr(v, "_cls", None) == "value_str":
            return '"%s"#%s' % (v.m_str.b.decode("latin-1") if hasattr(getattr(v, "m_str", None), "b") else "?", getattr(v, "m_pos", "?"))
        if getattr(v, "_cls", None) == "value_cst":
            c = getattr(getattr(v, "m_cst", None), "m_value", None)
            if c is None:
                return "<value_cst>"
            sg = getattr(c, "m_sign", None)
            signed = (sg[1] if isinstance(sg, tuple) else sg) in ("sign", 1)
            return str(int(c.m_i if signed and hasattr(c, "m_i") else c.m_u))
        if getattr(v, "_cls", None) == "value_seq":
            s_ = getattr(v, "m_seq", None)
            return "[" + " ".join(self.show(x) for x in (s_.items if hasattr(s_, "items") else s_ or [])) + "]"
        return "<%s>" % getattr(v, "_cls", type(v).__name__)


# ---------------------------------------------------------------------------
# reference semantics (doc/syntax.rst), independent of the implementation

class RefError(Exception):
    pass


def reference(spec, stack, env=None):
    """list-like generator of the result stacks (tuples, TOS last) of `spec` on `stack`; raises RefError for queries that do not compile
    (a name bound twice in one scope, a read of an unbound name) and for run-time errors (stack underflow)"""
    _static(spec, [set(Engine.BUILTIN_WORDS), set()])
    root = {n: BuiltinWord_(d) for n, d in Engine.BUILTIN_WORDS.items()}
    for s, _ in _ref(spec, tuple(stack), (root, {})):
        yield tuple(str(x) for x in s)


def _static(spec, scopes):
    op = spec[0]
    if op == "BIND":
        if spec[1] in scopes[-1]:
            raise RefError("rebound")
        scopes[-1].add(spec[1])
    elif op == "READ":
        if not any(spec[1] in sc for sc in scopes):
            raise RefError("unbound")
    elif op == "CAT":
        for x in spec[1:]:
            _static(x, scopes)
    elif op in ("ALT", "OR"):
        for x in spec[1:]:
            _static(x, scopes + [set()])
    elif op in ("SCOPE", "?", "!"):
        _static(spec[1], scopes + [set()])
    elif op == "SUBX":
        _static(spec[2], scopes)
    elif op in ("CAPTURE", "CLOSE_STAR", "CLOSE_PLUS", "IFELSE"):
        for x in spec[1:]:
            _static(x, scopes)
    elif op == "BLOCK":
        _static(spec[1], scopes + [set()])
    elif op == "FORMAT":
        for x in reversed(spec[1:]):
            if not isinstance(x, str):
                _static(x, scopes + [set()])


class BuiltinWord_:
    def __init__(self, spec):
        self.spec = spec


class Closure_:
    """a block value of the reference semantics: body and the bindings visible where the block was written"""
    def __init__(self, body, scopes):
        self.body, self.scopes = body, scopes

    def __repr__(self):
        return "<closure>"

    def __eq__(self, o):
        return isinstance(o, Closure_) and o.body == self.body

    def __hash__(self):
        return hash(self.body)

    def __str__(self):
        return "<closure>"


def _bind(scopes, name, val):
    fr = dict(scopes[-1])
    fr[name] = val
    return scopes[:-1] + (fr,)


def _ref(spec, s, scopes):
    """yields (stack, scopes after)"""
    op = spec[0]
    inner = scopes + ({},)
    if op == "push":
        yield s + (str(spec[1]),), scopes
    elif op == "drop":
        if not s:
            raise RefError("underflow")
        yield s[:-1], scopes
    elif op == "fail":
        return
    elif op == "twice":
        yield s + (spec[1] + "1",), scopes
        yield s + (spec[1] + "2",), scopes
    elif op == "inc":
        if s and s[-1].isdigit() and int(s[-1]) < spec[1]:
            yield s[:-1] + (str(int(s[-1]) + 1),), scopes
    elif op == "top?":
        if s and s[-1] == str(spec[1]):
            yield s, scopes
    elif op == "flip":
        if s and s[-1] in ("a", "b"):
            yield s[:-1] + ("b" if s[-1] == "a" else "a",), scopes
    elif op in ("eq2?", "ne2?"):
        if len(s) < 2:
            raise RefError("underflow")
        if (str(s[-1]) == str(s[-2])) == (op == "eq2?"):
            yield s, scopes
    elif op == "NOP":
        yield s, scopes
    elif op == "FORMAT":
        # directives are resolved from right to left; each splice is evaluated in plain context on the stack its right neighbour
        # left behind, and its TOS is popped and rendered; one string per combination, numbered from 0 for this input
        def rest(i):
            """(stack, text) pairs for the parts i.. (0-based within spec[1:])"""
            parts = spec[1:]
            if i == len(parts):
                yield s, ""
                return
            for st, suffix in rest(i + 1):
                x = parts[i]
                if isinstance(x, str):
                    yield st, x + suffix
                else:
                    for r, _ in _ref(x, st, inner):
                        if not r:
                            raise RefError("underflow")
                        yield r[:-1], str(r[-1]) + suffix
        for n_, (st, text) in enumerate(rest(0)):
            yield st + ('"%s"#%d' % (text, n_),), scopes
    elif op == "BLOCK":
        yield s + (Closure_(spec[1], scopes),), scopes
    elif op == "apply":
        if not s:
            raise RefError("underflow")
        if not isinstance(s[-1], Closure_):
            return               # diagnostic, nothing yielded
        c = s[-1]
        for r, _ in _ref(c.body, s[:-1], c.scopes + ({},)):
            yield r, scopes
    elif op == "CAT":
        def chain(i, st, sc):
            if i == len(spec):
                yield st, sc
                return
            for r, sc2 in _ref(spec[i], st, sc):
                yield from chain(i + 1, r, sc2)
        yield from chain(1, s, scopes)
    elif op == "ALT":
        for a in spec[1:]:
            for r, _ in _ref(a, s, inner):
                yield r, scopes
    elif op == "OR":
        for a in spec[1:]:
            rs = [r for r, _ in _ref(a, s, inner)]
            if rs:
                for r in rs:
                    yield r, scopes
                return
    elif op == "CAPTURE":
        tops = []
        for r, _ in _ref(spec[1], s, scopes):
            if not r:
                raise RefError("underflow")
            tops.append(r[-1])
        yield s + ("[" + " ".join(tops) + "]",), scopes
    elif op == "SUBX":
        k = spec[1]
        for r, _ in _ref(spec[2], s, scopes):
            if len(r) < k:
                raise RefError("underflow")
            yield s + (r[len(r) - k:] if k else ()), scopes
    elif op == "?":
        if any(True for _ in _ref(spec[1], s, inner)):
            yield s, scopes
    elif op == "!":
        if not any(True for _ in _ref(spec[1], s, inner)):
            yield s, scopes
    elif op == "IFELSE":
        if any(True for _ in _ref(spec[1], s, scopes)):
            for r, _ in _ref(spec[2], s, scopes):
                yield r, scopes
        else:
            for r, _ in _ref(spec[3], s, scopes):
                yield r, scopes
    elif op == "SCOPE":
        for r, _ in _ref(spec[1], s, inner):
            yield r, scopes
    elif op == "BIND":
        if not s:
            raise RefError("underflow")
        yield s[:-1], _bind(scopes, spec[1], s[-1])
    elif op == "READ":
        for sc in reversed(scopes):
            if spec[1] in sc:
                v = sc[spec[1]]
                if isinstance(v, BuiltinWord_):
                    yield from _ref(v.spec, s, scopes)
                    return
                if isinstance(v, Closure_):
                    # a name bound to a block applies it
                    for r, _ in _ref(v.body, s, v.scopes + ({},)):
                        yield r, scopes
                else:
                    yield s + (v,), scopes
                return
        raise RefError("unbound")
    elif op in ("CLOSE_STAR", "CLOSE_PLUS"):
        seen, out, todo = set(), [], []
        if op == "CLOSE_STAR":
            seen.add(s)
            out.append(s)
        todo.append(s)
        while todo:
            cur = todo.pop(0)
            for r, _ in _ref(spec[1], cur, scopes):
                if r not in seen:
                    seen.add(r)
                    out.append(r)
                    todo.append(r)
            if len(out) > 100:
                raise RefError("closure does not converge")
        for r in out:
            yield r, scopes
    else:
        raise Broken("reference semantics: unknown construct %s" % op)
