"""A small evaluator for the reduced AST over a *finite abstract domain*.

It interprets the control structure of one comparator function (statements,
conditions, lambdas, calls resolved through a hook table) on abstract objects
supplied by the rule.  Anything it does not model raises Broken (exit 2):
the rule never guesses.
"""
from zw import Broken, unwrap


class Ret(Exception):
    def __init__(self, v):
        self.v = v


class Break(Exception):
    pass


class Continue(Exception):
    pass


class Thrown(Exception):
    """the interpreted function threw"""


class Goto(Exception):
    def __init__(self, label):
        self.label = label


class LayerEnv(dict):
    """environment of a lambda body: its own parameters and locals, on top of the defining function's environment (captures are
    read from there, and a write to a captured variable (capture by reference) lands there)"""
    def __init__(self, parent):
        dict.__init__(self)
        self.parent = parent

    def __contains__(self, k):
        return dict.__contains__(self, k) or k in self.parent

    def __getitem__(self, k):
        if dict.__contains__(self, k):
            return dict.__getitem__(self, k)
        return self.parent[k]

    def get(self, k, d=None):
        if dict.__contains__(self, k):
            return dict.__getitem__(self, k)
        return self.parent.get(k, d)

    def __setitem__(self, k, v):
        if not dict.__contains__(self, k) and k in self.parent:
            self.parent[k] = v
        else:
            dict.__setitem__(self, k, v)


class Closure:
    def __init__(self, node, env, this):
        self.node = node
        self.env = env
        self.this = this


class Evaluator:
    def __init__(self, hooks, globals_=None, ptr_lt=None, prog=None):
        """hooks: callee qualified name (or prefix ending in '*') -> fn(ev, obj, args).
        With `prog`, calls to repository functions without a hook are interpreted from their bodies."""
        self.prog = prog
        self.hooks = hooks
        self.globals = globals_ or {}
        self.ptr_lt = ptr_lt
        self.steps = 0

    def hook_for(self, f):
        if f in self.hooks:
            return self.hooks[f]
        # prefix hooks (`name*`): the answer per callee is remembered until the hook table changes
        c = self.__dict__.get("_hook_cache")
        if c is None or c[0] != len(self.hooks) or c[1] is not self.hooks:
            c = self.__dict__["_hook_cache"] = (len(self.hooks), self.hooks, {},
                                                [(k[:-1], v) for k, v in self.hooks.items() if k.endswith("*") and not k.endswith("operator*")])
        memo = c[2]
        if f in memo:
            return memo[f]
        r = None
        for pre, v in c[3]:
            if f.startswith(pre):
                r = v
                break
        memo[f] = r
        return r

    def call(self, func, this, args):
        env = {}
        for p, a in zip(func["params"], args):
            env[p["id"]] = a
        self._last_env = env
        try:
            self.block(func["body"], env, this)
        except Ret as r:
            self._last_env = env
            return r.v
        self._last_env = env
        return None

    def copy_out(self, params, arg_nodes, callee_env, env, this):
        """non-const reference parameters of scalar type: what the callee left in them is written back to the caller's lvalue"""
        for p, a in zip(params, arg_nodes):
            t = (p.get("t") or "").strip()
            if not t.endswith("&") or t.endswith("&&") or t.startswith("const ") or " const &" in t:
                continue
            if p["id"] not in callee_env:
                continue
            v = callee_env[p["id"]] if not isinstance(callee_env, LayerEnv) else dict.get(callee_env, p["id"])
            if isinstance(v, (int, bool)) or v is None or t.startswith(("std::shared_ptr<", "std::unique_ptr<")):
                # (a smart pointer handed over by reference: the callee may have re-seated it)
                u = a
                while isinstance(u, dict) and u.get("k") == "cast":
                    u = u["e"]
                if isinstance(u, dict) and u.get("k") in ("ref", "mem"):
                    try:
                        self.store(u, v, env, this)
                    except Broken:
                        pass

    def construct(self, func, this, args):
        """run a constructor: member initialisers (stored as attributes of `this`), then the body"""
        env = {}
        for p, a in zip(func["params"], args):
            env[p["id"]] = a
        for i in func.get("inits", []):
            if i.get("field"):
                v = self.eval(i["init"], env, this)
                if isinstance(v, list) and len(v) == 1:
                    v = v[0]
                if hasattr(this, "on_store"):
                    v = this.on_store(i["field"], v)
                setattr(this, i["field"], v)
        try:
            self.block(func.get("body"), env, this)
        except Ret:
            pass
        return this

    def call_closure(self, c, args):
        env = LayerEnv(c.env)
        for p, a in zip(c.node["params"], args):
            dict.__setitem__(env, p["id"], a)
        self._last_env = env
        try:
            self.block(c.node["body"], env, c.this)
        except Ret as r:
            self._last_env = env
            return r.v
        self._last_env = env
        return None

    def block(self, s, env, this):
        self.steps += 1
        if self.steps > 2000000:
            raise Broken("abstract evaluation does not terminate")
        if s is None:
            return
        k = s.get("k")
        if k == "block":
            stmts = s["s"]
            i = 0
            while i < len(stmts):
                try:
                    self.block(stmts[i], env, this)
                    i += 1
                except Goto as g:
                    # a goto to a label of this very block resumes here; otherwise it keeps propagating outwards
                    j = [n for n, st in enumerate(stmts) if isinstance(st, dict) and st.get("k") == "label" and st.get("n") == g.label]
                    if not j:
                        raise
                    i = j[0]
        elif k == "label":
            self.block(s.get("sub"), env, this)
        elif k == "goto":
            raise Goto(s["label"])
        elif k == "do":
            n = 0
            while True:
                try:
                    self.block(s["body"], env, this)
                except Break:
                    break
                except Continue:
                    pass
                if not self.truth(self.eval(s["c"], env, this)):
                    break
                n += 1
                if n > 10000:
                    raise Broken("loop does not terminate on the abstract domain")
        elif k == "decl":
            for v in s["vars"]:
                env[v["id"]] = self.eval(v.get("init"), env, this) if v.get("init") is not None else None
        elif k == "if":
            if s.get("init"):
                self.block(s["init"], env, this)
            if s.get("var"):
                env[s["var"]["id"]] = self.eval(s["var"].get("init"), env, this)
            c = self.eval(s["c"], env, this)
            if self.truth(c):
                self.block(s["then"], env, this)
            elif s.get("else"):
                self.block(s["else"], env, this)
        elif k == "return":
            raise Ret(self.eval(s.get("e"), env, this) if s.get("e") is not None else None)
        elif k == "for":
            if s.get("init"):
                self.block(s["init"], env, this)
            n = 0

            def more():
                if s.get("var"):           # condition declaration: `for (...; auto x = f (); )`
                    env[s["var"]["id"]] = self.eval(s["var"].get("init"), env, this)
                    return self.truth(env[s["var"]["id"]]) if s.get("c") is None or self._is_var_ref(s["c"], s["var"]["id"]) else self.truth(self.eval(s["c"], env, this))
                return s.get("c") is None or self.truth(self.eval(s["c"], env, this))
            while more():
                try:
                    self.block(s["body"], env, this)
                except Break:
                    break
                except Continue:
                    pass
                if s.get("inc") is not None:
                    self.eval(s["inc"], env, this)
                n += 1
                if n > 10000:
                    raise Broken("loop does not terminate on the abstract domain")
        elif k == "while":
            n = 0

            def wmore():
                if s.get("var"):
                    env[s["var"]["id"]] = self.eval(s["var"].get("init"), env, this)
                    return self.truth(env[s["var"]["id"]])
                return self.truth(self.eval(s["c"], env, this))
            while wmore():
                try:
                    self.block(s["body"], env, this)
                except Break:
                    break
                except Continue:
                    pass
                n += 1
                if n > 10000:
                    raise Broken("loop does not terminate on the abstract domain")
        elif k == "break":
            raise Break()
        elif k == "continue":
            raise Continue()
        elif k == "switch":
            if isinstance(s.get("var"), dict) and s["var"].get("id") is not None:
                # switch (T x = init): the condition variable is initialised first
                env[s["var"]["id"]] = self.eval(s["var"]["init"], env, this) if s["var"].get("init") is not None else None
            v = self.eval(s["c"], env, this)
            if isinstance(v, tuple) and v and v[0] == "enum":
                v = v[2]
            body = s["body"]
            stmts = body["s"] if body.get("k") == "block" else [body]
            # flatten labels: list of (labels, statement)
            flat = []
            for st in stmts:
                labels = []
                while isinstance(st, dict) and st.get("k") in ("case", "default"):
                    if st["k"] == "case":
                        def lab(x):
                            r = x.get("iv", x.get("v"))
                            if r is None:
                                r = self.eval(x, env, this)
                                if isinstance(r, tuple) and r and r[0] == "enum":
                                    r = r[2]
                            if isinstance(r, str):
                                r = int(r)
                            if r is None:
                                raise Broken("case label without a compile-time value at %s" % st.get("l"))
                            return r
                        lo = lab(st["lo"])
                        hi = lab(st["hi"]) if st.get("hi") else lo
                        labels.append((lo, hi))
                    else:
                        labels.append("default")
                    st = st["sub"]
                flat.append((labels, st))
            start = None
            for i, (labels, st) in enumerate(flat):
                if any(l != "default" and l[0] <= v <= l[1] for l in labels):
                    start = i
                    break
            if start is None:
                for i, (labels, st) in enumerate(flat):
                    if "default" in labels:
                        start = i
                        break
            if start is not None:
                try:
                    for labels, st in flat[start:]:
                        self.block(st, env, this)
                except Break:
                    pass
        elif k == "rfor":
            rng = self.eval(s["range"], env, this)
            if hasattr(rng, "items"):
                rng = rng.items
            if not isinstance(rng, (list, tuple)):
                raise Broken("range-for over something the abstract domain does not model")
            vt = (s["var"].get("t") or "").strip()
            by_ref = vt.endswith("&") and not vt.endswith("&&") and not vt.startswith("const ") and " const &" not in vt and isinstance(rng, list)
            for i_, item in enumerate(list(rng)):
                env[s["var"]["id"]] = item
                try:
                    self.block(s["body"], env, this)
                except Break:
                    if by_ref and i_ < len(rng) and env.get(s["var"]["id"]) is not item:
                        rng[i_] = env[s["var"]["id"]]
                    break
                except Continue:
                    pass
                # `for (auto &x: v) x = ...;` assigns to the element itself
                if by_ref and i_ < len(rng) and env.get(s["var"]["id"]) is not item:
                    rng[i_] = env[s["var"]["id"]]
        elif k == "throw":
            raise Thrown(s.get("l"))
        elif k == "try":
            try:
                self.block(s["body"], env, this)
            except Thrown as t:
                hs = s.get("handlers") or []
                if not hs:
                    raise
                # the first handler whose type accepts the exception; an exception of unknown type is taken to be a
                # std::runtime_error (what every throw of the repository and libzwerg's error bridge raise)
                et = getattr(t, "etype", None) or "std::runtime_error"
                fam = {"std::runtime_error": ("std::runtime_error", "std::exception"), "std::logic_error": ("std::logic_error", "std::exception"),
                       "std::bad_alloc": ("std::bad_alloc", "std::exception"),
                       "std::out_of_range": ("std::out_of_range", "std::logic_error", "std::exception"),
                       "std::invalid_argument": ("std::invalid_argument", "std::logic_error", "std::exception")}.get(et, (et,))
                h = None
                for cand in hs:
                    ht = cand.get("t") or "..."
                    if ht == "..." or any(f_ in ht for f_ in fam):
                        h = cand
                        break
                if h is None:
                    raise
                if h.get("var"):
                    env[h["var"]["id"]] = ("exception", str(t))
                self.block(h["body"], env, this)
        elif k == "null":
            return
        elif k in ("call", "asg", "un", "bin", "cond", "ctor", "cast", "new", "delete"):
            if k == "cond" or k == "call":
                # assert(...) expands to a conditional calling __assert_fail: ignore
                from cfg import contains_assert
                if contains_assert(s):
                    return
            self.eval(s, env, this)
        else:
            raise Broken("comparator uses a statement kind the evaluator does not model: %s at %s" % (k, s.get("l")))

    def _is_var_ref(self, c, vid):
        u = unwrap(c)
        while isinstance(u, dict) and u.get("k") == "call" and u.get("fn") == "operator bool":
            u = unwrap(u.get("obj") if u.get("obj") is not None else u["a"][0])
        return isinstance(u, dict) and u.get("k") == "ref" and u.get("id") == vid

    def truth(self, v):
        if isinstance(v, bool):
            return v
        if isinstance(v, tuple) and v and v[0] == "enum":
            return bool(v[2])
        if v is None:
            return False
        if isinstance(v, int):
            return v != 0
        return True   # non-null object / pointer

    def eval(self, e, env, this):
        if e is None:
            return None
        k = e.get("k")
        if k == "int" or k == "chr":
            return e["v"]
        if k == "bool":
            return bool(e["v"])
        if k == "null":
            return None
        if k == "this":
            return this
        if k == "ref":
            if e.get("d") in ("local", "param", "slocal") and e.get("id") in env:
                return env[e["id"]]
            if e.get("d") == "enum":
                return ("enum", e["n"], e.get("iv"))
            if e.get("d") == "global":
                if e.get("q") in self.globals:
                    return self.globals[e["q"]]
                raise Broken("comparator reads global %s which the abstract domain does not provide" % e.get("q"))
            raise Broken("comparator reads unbound name %s" % e.get("n"))
        if k == "lambda":
            return Closure(e, env, this)
        if k == "ctor":
            if e.get("cm") and len(e["a"]) == 1:
                return self.eval(e["a"][0], env, this)
            h = self.hook_for("ctor:" + e.get("c", ""))
            if h:
                return h(self, None, [self.eval(a, env, this) for a in e["a"]])
            if len(e["a"]) == 1:
                return self.eval(e["a"][0], env, this)
            if not e["a"] and e.get("c", "").startswith(("std::unique_ptr<", "std::shared_ptr<")):
                return None       # a default-constructed smart pointer is null
            raise Broken("comparator constructs %s (unmodelled)" % e.get("c"))
        if k == "asg":
            rhs = self.eval(e["rhs"], env, this)
            op = e["op"]
            if op != "=":
                cur = self.eval(e["lhs"], env, this)
                rhs = self.arith(op[:-1], cur, rhs)
            self.store(e["lhs"], rhs, env, this)
            return rhs
        if k == "throw":
            raise Thrown(e.get("l"))
        if k == "un" and e["op"] in ("++", "--"):
            cur = self.eval(e["e"], env, this)
            new = self.arith("+" if e["op"] == "++" else "-", cur, 1)
            self.store(e["e"], new, env, this)
            return cur if e.get("post") else new
        if k == "un":
            op = e["op"]
            if op == "&":
                return self.eval(e["e"], env, this)    # address of an object == the object
            if op == "*":
                return self.eval(e["e"], env, this)
            v = self.eval(e["e"], env, this)
            if op == "!":
                return not self.truth(v)
            if op == "-":
                return -v
            raise Broken("unmodelled unary operator %s" % op)
        if k == "bin":
            op = e["op"]
            if op == ",":
                self.eval(e["lhs"], env, this)
                return self.eval(e["rhs"], env, this)
            if op == "&&":
                return self.truth(self.eval(e["lhs"], env, this)) and self.truth(self.eval(e["rhs"], env, this))
            if op == "||":
                return self.truth(self.eval(e["lhs"], env, this)) or self.truth(self.eval(e["rhs"], env, this))
            a = self.eval(e["lhs"], env, this)
            b = self.eval(e["rhs"], env, this)
            return self.binop(op, a, b)
        if k == "cond":
            return self.eval(e["a"], env, this) if self.truth(self.eval(e["c"], env, this)) else self.eval(e["b"], env, this)
        if k == "ilist":
            return [self.eval(a, env, this) for a in e["a"]]
        if k == "mem":
            b = self.eval(e["b"], env, this)
            if e["n"] == "":
                return b          # member of an anonymous union/struct: same object
            if isinstance(b, tuple) and e["n"] in ("first", "second") and (not b or b[0] != "enum"):
                return b[0 if e["n"] == "first" else 1]
            if isinstance(b, dict):
                if e["n"] not in b:
                    raise Broken("abstract object has no field %s" % e["n"])
                return b[e["n"]]
            if hasattr(b, e["n"]):
                return getattr(b, e["n"])
            raise Broken("comparator reads field %s of an object the domain does not model" % e["n"])
        if k == "cast":
            return self.eval(e["e"], env, this)
        if k in ("sizeof", "other") and "iv" in e:
            return int(e["iv"])
        if k == "call":
            f = e.get("f", "")
            # smart pointer / optional see-through
            if e.get("fn") in ("operator->", "operator*", "get") and e.get("cls", "").startswith(("std::shared_ptr<", "std::__shared_ptr", "std::unique_ptr<")):
                return self.eval(e.get("obj") if e.get("obj") is not None else e["a"][0], env, this)
            if e.get("fn") == "operator bool" and e.get("obj") is not None:
                return self.truth(self.eval(e["obj"], env, this))
            if f.startswith(("std::move<", "std::forward<", "std::cref<", "std::ref<")):
                return self.eval(e["a"][0], env, this)
            if e.get("op") == "()" and e["a"]:
                callee = self.eval(e["a"][0], env, this)
                args = [self.eval(a, env, this) for a in e["a"][1:]]
                if isinstance(callee, Closure):
                    r_ = self.call_closure(callee, args)
                    self.copy_out(callee.node["params"], e["a"][1:], self._last_env, env, this)
                    return r_
                if callable(callee):
                    return callee(self, args)
                raise Broken("call through an object the evaluator does not model at %s" % e.get("l"))
            if e.get("ce") is not None and not f and not e.get("fid"):
                # call through a pointer / reference to function: evaluate the callee expression
                callee = self.eval(e["ce"], env, this)
                args = [self.eval(a, env, this) for a in e.get("a", [])]
                if isinstance(callee, Closure):
                    return self.call_closure(callee, args)
                if isinstance(callee, dict) and callee.get("body") is not None:
                    return self.call(callee, None, args)
                if callable(callee):
                    return callee(self, args)
                raise Broken("indirect call through something the evaluator does not model at %s" % e.get("l"))
            h = self.hook_for(f)
            if h is None and e.get("fn") and ("method:" + e["fn"]) in self.hooks and not e.get("own"):
                h = self.hooks["method:" + e["fn"]]
            if h is not None:
                obj = self.eval(e["obj"], env, this) if e.get("obj") is not None else None
                args = [self.eval(a, env, this) for a in e.get("a", [])]
                if obj is None and e.get("op") and e.get("ismethod") and args:
                    obj, args = args[0], args[1:]      # member operator written infix: the object is the first operand
                return h(self, obj, args)
            has_body = self.prog is not None and e.get("own") and (self.prog.funcs.get(e.get("fid")) or {}).get("body") is not None
            if e.get("op") == "=" and e.get("ismethod") and len(e.get("a", [])) == 2 and e.get("obj") is None and not has_body:
                # assignment operator of a library class (pair, unique_ptr, iterator ...): the target now denotes the value
                rhs = self.eval(e["a"][1], env, this)
                if hasattr(rhs, "copy_value"):
                    rhs = rhs.copy_value()
                self.store(e["a"][0], rhs, env, this)
                return rhs
            if e.get("op") in ("==", "!=", "<", ">", "<=", ">=") and len(e.get("a", [])) == 2 and e.get("obj") is None:
                a = self.eval(e["a"][0], env, this)
                b = self.eval(e["a"][1], env, this)
                if has_body and (hasattr(a, "_cls") or hasattr(b, "_cls") or type(a).__name__ == "Struct" or type(b).__name__ == "Struct"):
                    # an interpreted class instance: its own comparison operator decides, not object identity
                    callee = self.prog.funcs[e["fid"]]
                    if e.get("ismethod") and not e.get("static"):
                        return self.call(callee, a, [b])
                    return self.call(callee, None, [a, b])
                return self.binop(e["op"], a, b)
            if self.prog is not None and e.get("own") and e.get("fid") in self.prog.funcs:
                callee = self.prog.funcs[e["fid"]]
                obj = self.eval(e["obj"], env, this) if e.get("obj") is not None else None
                args = [self.eval(a, env, this) for a in e.get("a", [])]
                anodes = e.get("a", [])
                if obj is None and e.get("op") and e.get("ismethod") and not e.get("static") and args:
                    obj, args = args[0], args[1:]      # member operator written infix
                    anodes = anodes[1:]
                r_ = self.call(callee, obj, args)
                self.copy_out(callee["params"], anodes, self._last_env, env, this)
                return r_
            raise Broken("comparator calls %s, for which the abstract domain has no summary (at %s)" % (f or e.get("fn"), e.get("l")))
        raise Broken("comparator uses an expression kind the evaluator does not model: %s" % k)

    def arith(self, op, a, b):
        if hasattr(a, "arith"):
            return a.arith(op, b)
        if isinstance(a, (int, bool)) and isinstance(b, (int, bool)):
            a, b = int(a), int(b)
            ops = {"+": lambda: a + b, "-": lambda: a - b, "*": lambda: a * b, "|": lambda: a | b, "&": lambda: a & b, "^": lambda: a ^ b,
                   "<<": lambda: a << b if 0 <= b < 128 else 0, ">>": lambda: a >> b if 0 <= b < 128 else 0}
            if op not in ops:
                raise Broken("unmodelled arithmetic operator %s" % op)
            return ops[op]()
        raise Broken("unmodelled arithmetic %s on %r, %r" % (op, type(a).__name__, type(b).__name__))

    def store(self, lhs, val, env, this):
        u = lhs
        while isinstance(u, dict) and u.get("k") == "cast":
            u = u["e"]
        if u.get("k") == "ref":
            env[u["id"]] = val
            return
        if u.get("k") == "mem":
            b = self.eval(u["b"], env, this)
            if isinstance(b, dict):
                b[u["n"]] = val
            else:
                if hasattr(b, "on_store"):
                    val = b.on_store(u["n"], val)
                setattr(b, u["n"], val)
            return
        raise Broken("store to an lvalue the evaluator does not model: %s" % u.get("k"))

    def binop(self, op, a, b):
        rel = ("==", "!=", "<", ">", "<=", ">=")
        if op in rel and a is not None and b is not None:
            # values with an order of their own (iterators, strings, buffers) before pointer identity
            if hasattr(a, "cmp_with"):
                return a.cmp_with(op, b)
            if hasattr(b, "cmp_with"):
                return b.cmp_with({"<": ">", ">": "<", "<=": ">=", ">=": "<="}.get(op, op), a)
        # a pointer that holds an integer constant (`(T *) -1` sentinels) compared with nullptr or with another such constant
        if op in ("==", "!=") and ((a is None and isinstance(b, int) and not isinstance(b, bool)) or (b is None and isinstance(a, int) and not isinstance(a, bool))):
            eq = (a or 0) == (b or 0)
            return eq if op == "==" else not eq
        if op in ("==", "!=") and ((hasattr(a, "addr") and isinstance(b, int) and not isinstance(b, bool)) or (hasattr(b, "addr") and isinstance(a, int) and not isinstance(a, bool))) \
           and not hasattr(a, "cmp_with") and not hasattr(b, "cmp_with"):
            return op == "!="          # an object is never at a sentinel address
        isptr = lambda x: x is None or hasattr(x, "addr")
        if isptr(a) and isptr(b) and not (isinstance(a, (int, bool)) and not isinstance(a, type(None))) :
            aa = 0 if a is None else a.addr
            bb = 0 if b is None else b.addr
            if op == "==":
                return a is b
            if op == "!=":
                return a is not b
            if op in ("<", ">", "<=", ">="):
                if self.ptr_lt is None:
                    raise Broken("pointer order used but no address model supplied")
                return {"<": aa < bb, ">": aa > bb, "<=": aa <= bb, ">=": aa >= bb}[op]
        # an enumerator compared with (or combined with) a plain integer takes part with its compiler-evaluated value
        is_enum = lambda x: isinstance(x, tuple) and len(x) == 3 and x[0] == "enum" and x[2] is not None
        if is_enum(a) and isinstance(b, (int, bool)):
            a = int(a[2])
        elif is_enum(b) and isinstance(a, (int, bool)):
            b = int(b[2])
        if isinstance(a, tuple) and isinstance(b, tuple) and a and a[0] == "enum":
            if op == "==":
                return a == b
            if op == "!=":
                return a != b
        if isinstance(a, (int, bool)) and isinstance(b, (int, bool)):
            if op in ("==", "!=", "<", ">", "<=", ">="):
                return {"==": a == b, "!=": a != b, "<": a < b, ">": a > b, "<=": a <= b, ">=": a >= b}[op]
            return self.arith(op, a, b)
        if op in ("==", "!=") and (a is None) != (b is None) and not isinstance(a if b is None else b, (int, bool, float, str, bytes, tuple)):
            # a pointer to a modelled object compared with nullptr: the object exists, the pointer is not null
            return op == "!="
        if isinstance(a, tuple) and isinstance(b, tuple) and len(a) == len(b) and op in ("==", "!=", "<", ">", "<=", ">=") \
           and not (a and a[0] == "enum") and all(isinstance(x, (int, bool)) for x in a + b):
            # std::tuple of integers: lexicographic, as the standard defines its relational operators
            return {"==": a == b, "!=": a != b, "<": a < b, ">": a > b, "<=": a <= b, ">=": a >= b}[op]
        if hasattr(a, "arith") and op in ("+", "-"):
            return a.arith(op, b)
        if hasattr(a, "cmp_with") and op in ("==", "!=", "<", ">", "<=", ">="):
            return a.cmp_with(op, b)
        raise Broken("unmodelled comparison %s between %r and %r" % (op, type(a).__name__, type(b).__name__))
