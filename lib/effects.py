"""May-throw (exception escape) analysis over the resolved AST facts.

 * explicit `throw` outside a try with a catch-all handler escapes;
 * a call escapes if its callee may throw and it is not inside such a try;
 * virtual calls resolve to every overrider found in the program (class hierarchy analysis);
 * lambdas are pseudo-functions keyed by their location; calling a closure's operator()
   (also inside a template instantiated with that closure type) is an edge to the lambda body;
 * functions defined outside the repository are judged by the ASSUMPTIONS below
   (each entry is one name or name prefix with a reason).
"""
from zw import walk, walk_nolambda, unwrap, Broken

# std / library functions that throw on a violated precondition or bad input
THROWING_EXTERNAL = {
    "at": "range-checked element access throws std::out_of_range",
    "substr": "throws std::out_of_range",
    "stoull": "throws on invalid input / out of range", "stoul": "same", "stoll": "same", "stol": "same", "stoi": "same",
    "stod": "same", "stof": "same",
    "__throw_out_of_range": "", "__throw_length_error": "", "__throw_logic_error": "", "__throw_bad_function_call": "",
    "rethrow_exception": "", "__cxa_rethrow": "", "__cxa_throw": "",
    "value": "optional::value() throws bad_optional_access",
    "stream_exceptions": "",
}
# external callees assumed not to throw (the trusted base of B2); everything not listed in
# THROWING_EXTERNAL and not defined in the repository falls under one of these rows:
ASSUMPTIONS = [
    "C functions of libdw/libdwfl/libelf/libc do not throw",
    "allocation failure is out of model (operator new, container/string/stream growth, make_unique/make_shared allocation)",
    "std:: algorithms, containers, smart pointers and iostream insertion do not throw apart from the functions listed in THROWING_EXTERNAL",
    "destructors do not throw",
]


# call edges that cannot raise although the callee can in general: (caller qualified name, callee qualified name) -> reason
NOTHROW_EDGES = {
    # (the former row for operator<<(ostream&, mpz_class) -> unary minus is now decided structurally: a unary minus applied to an
    # mpz_class variable inside the true arm of `X < 0` cannot reach the overflow branch, which needs an unsigned value)
}


class MayThrow:
    def __init__(self, prog):
        self.prog = prog
        self.lambdas = {}     # lid -> lambda node
        self.sites = {}       # key -> list of escape sites: ('throw', loc) | ('call', callee_key, loc, text)
        self.result = {}      # key -> (bool, witness)
        self.overriders = {}  # base fid -> [derived fids] (transitive)
        self._index()

    @staticmethod
    def _ptr_sig(t):
        """'const char *(*)(int, brevity)' -> 'int,brevity'"""
        import re
        m = re.search(r"\(\*(?:const)?\)\((.*)\)\s*$", t)
        if not m:
            return None
        return m.group(1).replace(", ", ",").strip()

    def _index(self):
        p = self.prog
        self.addr_taken = {}
        for f in p.funcs.values():
            nodes = [f.get("body")] + [i.get("init") for i in f.get("inits", [])]
            for n in nodes:
                for x in walk(n):
                    if x.get("k") == "ref" and x.get("d") == "func" and x.get("fid") in p.funcs:
                        sig = x["fid"][x["fid"].index("(") + 1:x["fid"].rindex(")")]
                        self.addr_taken.setdefault(sig, set()).add(x["fid"])
        for f in p.funcs.values():
            for x in walk(f.get("body")):
                if x.get("k") == "lambda" and x.get("lid"):
                    self.lambdas[x["lid"]] = x
            for i in f.get("inits", []):
                for x in walk(i.get("init")):
                    if x.get("k") == "lambda" and x.get("lid"):
                        self.lambdas[x["lid"]] = x
        # overriders: method fid -> all fids that (transitively) override it
        direct = {}
        for r in p.records.values():
            for m in r["methods"]:
                for b in m["overrides"]:
                    direct.setdefault(b, set()).add(m["fid"])
        for f in p.funcs.values():
            for b in f.get("overrides", []):
                direct.setdefault(b, set()).add(f["fid"])

        def closure(fid, seen):
            for d in direct.get(fid, ()):
                if d not in seen:
                    seen.add(d)
                    closure(d, seen)
            return seen
        for b in list(direct):
            self.overriders[b] = closure(b, set())

    # ------------------------------------------------------------------
    def body_sites(self, body, inits=None):
        """escape sites in a function/lambda body: throws and calls not protected by a catch-all"""
        out = []

        def neg_test(c):
            """id of X when the condition is `X < 0` on an mpz_class X (its true arm only runs for signed negative values)"""
            from zw import unwrap
            c = unwrap(c)
            if isinstance(c, dict) and c.get("k") == "call" and c.get("fn") == "operator<" and len(c.get("a", [])) == 2:
                x, z = unwrap(c["a"][0]), unwrap(c["a"][1])
                while isinstance(z, dict) and z.get("k") == "ctor" and len(z.get("a", [])) == 1:
                    z = unwrap(z["a"][0])
                if isinstance(x, dict) and x.get("k") == "ref" and "mpz_class" in x.get("t", "") and isinstance(z, dict) and z.get("k") == "int" and z.get("v") == 0:
                    return x.get("id")
            return None
        negative = set()
        flag_of = {}

        def flag_test(c):
            from zw import unwrap
            c = unwrap(c)
            if isinstance(c, dict) and c.get("k") == "ref" and c.get("id") in flag_of:
                return flag_of[c["id"]]
            return None

        def rec(n, guarded):
            if isinstance(n, list):
                for x in n:
                    rec(x, guarded)
                return
            if not isinstance(n, dict):
                return
            k = n.get("k")
            if k == "lambda":
                return     # the body runs when the closure is called
            if k == "decl":
                # `bool const negative = x < 0;` : the flag stands for the test
                for v in n.get("vars", []):
                    if v.get("init") is not None and neg_test(v["init"]) is not None and "const" in v.get("t", ""):
                        flag_of[v["id"]] = neg_test(v["init"])
            if k in ("cond", "if") and (neg_test(n.get("c")) is not None or flag_test(n.get("c")) is not None):
                vid = neg_test(n["c"]) if neg_test(n["c"]) is not None else flag_test(n["c"])
                rec(n["c"], guarded)
                fresh = vid not in negative
                negative.add(vid)
                rec(n.get("a") if k == "cond" else n.get("then"), guarded)
                if fresh:
                    negative.discard(vid)
                rec(n.get("b") if k == "cond" else n.get("else"), guarded)
                return
            if k == "call" and n.get("fn") == "operator-" and len(n.get("a", [])) == 1 and not n.get("ismethod"):
                from zw import unwrap
                x = unwrap(n["a"][0])
                while isinstance(x, dict) and x.get("k") == "ctor" and len(x.get("a", [])) == 1:
                    x = unwrap(x["a"][0])
                if isinstance(x, dict) and x.get("k") == "ref" and x.get("id") in negative:
                    # unary minus of a value just tested negative: the overflow branch of operator-(mpz_class) needs an unsigned value
                    rec(n["a"], guarded)
                    return
            if k == "try":
                catch_all = any(h["t"] == "..." for h in n["handlers"])
                rec(n["body"], guarded or catch_all)
                for h in n["handlers"]:
                    rec(h["body"], guarded)
                return
            if k == "throw":
                if not guarded:
                    out.append(("throw", n.get("l")))
                rec(n.get("e"), guarded)
                return
            if k in ("call", "ctor") and not guarded:
                out.append(("call", n))
            if k == "cast" and n.get("ck") == "dynamic" and n.get("t", "").endswith("&") and not guarded:
                out.append(("throw", n.get("l")))
            for key, v in n.items():
                if key in ("targs", "macs"):
                    continue
                if isinstance(v, (dict, list)):
                    rec(v, guarded)
        rec(body, False)
        for i in inits or []:
            rec(i.get("init"), False)
        return out

    def callee_keys(self, c):
        """resolve a call/ctor node to analysis keys; returns (keys, external_verdict) where external_verdict is
        None (resolved in-repo), False (assumed nothrow) or a reason string (throws)"""
        p = self.prog
        if c.get("lam"):
            if c["lam"] in self.lambdas:
                return ["lambda@" + c["lam"]], None
            return [], False
        fid = c.get("fid")
        if c.get("k") == "ctor":
            if fid in p.funcs:
                return [fid], None
            if c.get("own") and not c.get("cm"):
                # constructor declared in the repository without a visible body (implicit/defaulted)
                return [], False
            return [], False
        f = c.get("f", "")
        fn = c.get("fn", "")
        # make_unique<T>(args...) / make_shared<T>(args...) run T's constructor
        if f.startswith(("std::make_unique<", "std::make_shared<")) and c.get("targs"):
            t = c["targs"][0]
            if isinstance(t, str) and t in p.records:
                n = len(c["a"])
                ctors = [g["fid"] for g in p.funcs.values() if g.get("cls") == t and g.get("isctor") and len(g["params"]) == n]
                return ctors, None if ctors else False
            return [], False
        if fid in p.funcs or (c.get("virt") and c.get("own")):
            keys = []
            if fid in p.funcs:
                keys.append(fid)
            if c.get("virt"):
                for o in self.overriders.get(fid, ()):
                    if o in p.funcs:
                        keys.append(o)
                    else:
                        keys.append(o)     # declared but no body: handled as unknown-own below
            return keys, None
        if c.get("own"):
            # repository function without a body in any analysed unit (pure virtual handled above)
            if c.get("noexcept") or c.get("implicit"):
                return [], False
            return [], "repository function %s has no analysable body" % (f or fn)
        if fid is None and c.get("ce") is not None:
            # call through a function pointer: resolve to the address-taken repository functions of that signature
            sig = self._ptr_sig(c.get("cet") or "")
            cands = self.addr_taken.get(sig) if sig is not None else None
            if cands:
                return sorted(cands), None
            return [], "indirect call through `%s` (no address-taken function of type %s found)" % (c["ce"].get("n") or c["ce"].get("k"), c.get("cet"))
        if fn in THROWING_EXTERNAL:
            return [], "%s: %s" % (f or fn, THROWING_EXTERNAL[fn] or "throws")
        if f.startswith("std::function<") and fn == "operator()":
            return [], "std::function call"
        return [], False

    def _resolve_sites(self, name, body, inits):
        out = []
        for s in self.body_sites(body, inits):
            if s[0] == "throw":
                out.append(("throw", "%s: throw at %s" % (name, s[1])))
                continue
            c = s[1]
            if (name, c.get("f")) in NOTHROW_EDGES:
                continue
            keys, ext = self.callee_keys(c)
            if ext:
                out.append(("throw", "%s: %s at %s" % (name, ext, c.get("l"))))
            elif keys:
                out.append(("keys", keys, "%s: calls %s at %s" % (name, (c.get("f") or c.get("c") or "?")[:80], c.get("l"))))
        return out

    def solve(self):
        """least fixpoint of may-throw over all functions and lambdas"""
        p = self.prog
        all_sites = {}
        for fid, f in p.funcs.items():
            all_sites[fid] = self._resolve_sites(f["q"], f.get("body"), f.get("inits"))
        for lid, lam in self.lambdas.items():
            all_sites["lambda@" + lid] = self._resolve_sites("lambda@" + lid, lam.get("body"), None)
        cause = {}
        for k, ss in all_sites.items():
            for s in ss:
                if s[0] == "throw":
                    cause[k] = (s[1], None)
                    break
        changed = True
        rounds = 0
        while changed:
            changed = False
            rounds += 1
            for k, ss in all_sites.items():
                if k in cause:
                    continue
                for s in ss:
                    if s[0] != "keys":
                        continue
                    hit = None
                    for c in s[1]:
                        if c in cause or c not in all_sites:
                            hit = c
                            break
                    if hit is not None:
                        cause[k] = (s[2], hit)
                        changed = True
                        break
        self.all_sites = all_sites
        self.cause = cause
        self.rounds = rounds
        return self

    def witness(self, key, limit=12):
        path = []
        seen = set()
        while key is not None and key not in seen and len(path) < limit:
            seen.add(key)
            if key not in self.cause:
                if key not in self.all_sites:
                    path.append("%s: declared in the repository but no body was analysed" % key)
                break
            text, nxt = self.cause[key]
            path.append(text)
            key = nxt
        return path

    def throws(self, key):
        return key in self.cause or key not in self.all_sites

    def stmts_may_throw(self, name, stmts):
        """may any of these statements throw (uses the solved fixpoint)"""
        for st in stmts:
            for s in self._resolve_sites(name, st, None):
                if s[0] == "throw":
                    return (True, [s[1]])
                for k in s[1]:
                    if self.throws(k):
                        return (True, [s[2]] + self.witness(k))
        return (False, None)
