"""The front end interpreted as a whole: query text -> tokens (flexsim: flex's rule selection decided from lexer.ll, actions interpreted)
-> the LALR(1) automaton bison generated for parser.yy (its tables read from the generated parser of the current tree, the driver is
the textbook table walk) -> the semantic action of every reduction interpreted from the statements of yyparse -> a tree object built
by the repository's own constructors.  Nothing of the repository is executed.

Parser(prog).parse(text) -> tree object; raises ParseError for a syntax error or an exception thrown by an action."""
import os, re
from zw import Broken, walk, unwrap


class ParseError(Exception):
    pass


class FrontEndCrash(ParseError):
    """an action of the scanner or parser reads or writes outside an object (null pointer, out of bounds)"""


class Tables:
    def __init__(self, path):
        try:
            src = open(path).read()
        except OSError:
            raise Broken("generated parser %s not found" % path)
        self.arr = {}
        for m in re.finditer(r"static const \w+ (yy[a-z0-9]+)\[\] =\s*\{([^}]*)\}", src):
            try:
                self.arr[m.group(1)] = [int(x) for x in m.group(2).replace("\n", " ").split(",") if x.strip()]
            except ValueError:
                pass
        self.defs = {}
        for m in re.finditer(r"(?m)^#define (YY[A-Z_]+)\s+\(?(-?\d+)\)?\s*$", src):
            self.defs[m.group(1)] = int(m.group(2))
        need_a = ("yytranslate", "yypact", "yydefact", "yypgoto", "yydefgoto", "yytable", "yycheck", "yyr1", "yyr2")
        need_d = ("YYFINAL", "YYLAST", "YYNTOKENS", "YYPACT_NINF", "YYTABLE_NINF", "YYMAXUTOK")
        miss = [x for x in need_a if x not in self.arr] + [x for x in need_d if x not in self.defs]
        if miss:
            raise Broken("the generated parser has no %s (bison skeleton other than yacc.c?)" % ", ".join(miss))
        m = re.search(r"static const char \*const yytname\[\] =\s*\{(.*?)\};", src, re.S)
        if not m:
            raise Broken("the generated parser has no yytname")
        self.names = re.findall(r'"((?:[^"\\]|\\.)*)"', m.group(1))

    def __getattr__(self, n):
        if n in ("arr", "defs", "names"):
            raise AttributeError(n)
        if n in self.arr:
            return self.arr[n]
        if n in self.defs:
            return self.defs[n]
        raise AttributeError(n)


class Parser:
    def __init__(self, prog, hooks=None):
        import flexsim
        from r_scope import switch_groups
        self.prog = prog
        yp = prog.func_opt("yyparse")
        if yp is None:
            raise Broken("anchor yyparse vanished")
        self.yp = yp
        path = yp.get("file")
        if not path or not os.path.exists(path):
            path = os.path.join(prog.work, "gen/libzwerg/parser.cc")
        self.T = Tables(path)
        self.scn = flexsim.Scanner(prog)
        self.scn.ev.hooks["parse_subquery"] = self._subquery
        self.scn.ev.hooks["std::stoull"] = _stoull
        if hooks:
            self.scn.ev.hooks.update(hooks)
        self.ev = self.scn.ev
        self.ev.null_is_null = True       # every object of the front end is modelled: a null `this` is a null pointer dereference
        # token name -> external token number
        self.toknum = None
        for e in prog.enums.values():
            if e["q"].endswith("yytokentype"):
                self.toknum = {c["n"]: c["v"] for c in e["consts"]}
        if not self.toknum:
            raise Broken("enum yytokentype vanished")
        # rule number -> statements of its action
        self.actions = {}
        for sw in [x for x in walk(yp["body"]) if x.get("k") == "switch" and isinstance(unwrap(x.get("c")), dict) and unwrap(x["c"]).get("n") == "yyn"]:
            for labels, stmts in switch_groups(sw):
                for lb in labels:
                    n = lb if isinstance(lb, int) else (lb.get("iv", lb.get("v")) if isinstance(lb, dict) else None)
                    if isinstance(n, int):
                        self.actions[n] = stmts
        if len(self.actions) < 10:
            raise Broken("the action switch of yyparse was not found (%d cases)" % len(self.actions))
        self.ids = {}
        for y in walk(yp["body"]):
            if y.get("k") == "ref" and y.get("n") in ("yyvsp", "yyval", "ret", "yyscanner", "yylval") and y.get("id"):
                self.ids.setdefault(y["n"], y["id"])
        for p in yp.get("params", []):
            if p.get("n") in ("ret", "yyscanner"):
                self.ids[p["n"]] = p["id"]
        if "yyvsp" not in self.ids or "yyval" not in self.ids:
            raise Broken("yyparse has no yyvsp / yyval (unmodelled skeleton)")
        self.depth = 0

    def _subquery(self, ev, o, a):
        from cxxobj import StdStr
        text = StdStr.of(a[0]).b if len(a) != 2 else bytes(x & 0xff for x in a[0].cells()[a[0].off:a[1].off])
        return self.parse(text)

    def parse(self, text, limit=20000):
        """tree object for the query `text` (bytes)"""
        import flexsim
        from cxxobj import Struct, Buf, Ptr, Obj, OutOfBounds
        from absint import Thrown, Ret, Break, Goto
        if isinstance(text, str):
            text = text.encode("latin-1")
        self.depth += 1
        if self.depth > 8:
            self.depth -= 1
            raise Broken("sub-queries nested deeper than the model follows")
        saved_steps = self.ev.steps
        try:
            try:
                toks = self._tokens(text)
            except flexsim.ScanError as x:
                if "memory error" in str(x):
                    raise FrontEndCrash("scanner: %s" % x)
                raise ParseError("scanner: %s" % x)
            T = self.T
            states = [0]
            buf = Buf(512)
            for i in range(512):
                buf.cells[i] = Struct("YYSTYPE", {})
            top = 0                       # index of the top value
            la = None                     # (external number, yylval)
            ti = 0
            steps = 0
            while True:
                steps += 1
                if steps > limit:
                    raise Broken("the LALR walk does not terminate on %r" % text)
                st = states[-1]
                yyn = T.yypact[st]
                act = None
                if yyn != T.YYPACT_NINF:
                    if la is None:
                        if ti >= len(toks):
                            raise Broken("the scanner simulation ran out of tokens on %r" % text)
                        la = toks[ti]
                        ti += 1
                    ext = la[0]
                    sym = 0 if ext <= 0 else (T.yytranslate[ext] if 0 <= ext <= T.YYMAXUTOK else 2)
                    i = yyn + sym
                    if 0 <= i <= T.YYLAST and T.yycheck[i] == sym:
                        v = T.yytable[i]
                        if v <= 0:
                            if v == 0 or v == T.YYTABLE_NINF:
                                raise ParseError("syntax error")
                            act = ("reduce", -v)
                        else:
                            act = ("shift", v)
                if act is None:
                    r = T.yydefact[st]
                    if r == 0:
                        raise ParseError("syntax error")
                    act = ("reduce", r)
                if act[0] == "shift":
                    states.append(act[1])
                    top += 1
                    if top >= 500:
                        raise ParseError("parser stack exhausted")
                    buf.cells[top] = la[1]
                    la = None
                    continue
                rule = act[1]
                ln = T.yyr2[rule]
                yyval = Struct("YYSTYPE", {})
                if ln > 0:
                    src = buf.cells[top + 1 - ln]
                    for k_, v_ in src.__dict__.items():
                        if not k_.startswith("_"):
                            setattr(yyval, k_, v_)
                stmts = self.actions.get(rule)
                if stmts is not None:
                    env = {self.ids["yyvsp"]: Ptr(buf, top), self.ids["yyval"]: yyval}
                    if "ret" in self.ids:
                        env[self.ids["ret"]] = None
                    self.ev.steps = 0
                    try:
                        for s in stmts:
                            self.ev.block(s, env, None)
                    except Break:
                        pass
                    except Goto as g:
                        if g.label == "yyacceptlab":
                            return env.get(self.ids.get("ret"))
                        if g.label in ("yyabortlab", "yyerrorlab"):
                            raise ParseError("the action of rule %d rejects the input" % rule)
                        raise Broken("action of rule %d jumps to %s (unmodelled)" % (rule, g.label))
                    except Thrown as x:
                        raise ParseError("action: %s" % x)
                    except OutOfBounds as x:
                        raise FrontEndCrash("the action of grammar rule %d: %s" % (rule, x))
                for _ in range(ln):
                    states.pop()
                top -= ln
                top += 1
                buf.cells[top] = yyval
                lhs = T.yyr1[rule] - T.YYNTOKENS
                i = T.yypgoto[lhs] + states[-1]
                states.append(T.yytable[i] if 0 <= i <= T.YYLAST and T.yycheck[i] == states[-1] else T.yydefgoto[lhs])
        finally:
            self.depth -= 1
            self.ev.steps = saved_steps

    def _tokens(self, text):
        """[(external token number, YYSTYPE object)] for `text`"""
        out = []
        self.scn.tokens(text)
        for name, yl in self.scn.raw_tokens:
            num = self.toknum.get(name) if isinstance(name, str) else name
            if num is None:
                raise Broken("the scanner returns %r, which is no token of the grammar" % (name,))
            out.append((num, yl))
        return out


def _stoull(ev, o, a):
    """std::stoull (str, &pos, base): strtoull's syntax; std::invalid_argument when nothing converts, std::out_of_range beyond 64 bits"""
    from cxxobj import StdStr
    from absint import Thrown
    text = StdStr.of(a[0]).b.decode("latin-1")
    posp = a[1] if len(a) > 1 else None
    base = int(a[2]) if len(a) > 2 else 10
    if not (base == 0 or 2 <= base <= 36):
        raise Broken("std::stoull with base %s" % base)
    m = re.match(r"[ \t\n\v\f\r]*([+-]?)", text)
    i = m.end()
    neg = m.group(1) == "-"
    if base in (0, 16) and text[i:i + 2].lower() == "0x" and len(text) > i + 2 and text[i + 2] in "0123456789abcdefABCDEF":
        i += 2
        base = 16
    elif base == 0:
        base = 8 if text[i:i + 1] == "0" else 10
    digs = "0123456789abcdefghijklmnopqrstuvwxyz"[:base]
    j = i
    while j < len(text) and text[j].lower() in digs:
        j += 1
    if j == i:
        t = Thrown("std::invalid_argument from std::stoull")
        t.etype = "std::invalid_argument"
        raise t
    val = int(text[i:j], base)
    if val >= 1 << 64:
        t = Thrown("std::out_of_range from std::stoull")
        t.etype = "std::out_of_range"
        raise t
    if neg:
        val = (-val) & ((1 << 64) - 1)
    if posp is not None:
        posp.store(j)
    return val
