// zwfacts: dump a reduced, *resolved* AST (callees, fields, template
// instantiations, evaluated constants, macro provenance) of one translation
// unit as JSON.  Rules are written in Python over these facts (rules/*.py).
//
// usage: zwfacts -p <builddir> --out <file.json> --root <dir> [--root <dir>] unit.cc
//
// Only declarations whose expansion location lies in one of the --root
// directories are dumped (plus the enumerators of --enumhdr headers).

#include "clang/AST/ASTConsumer.h"
#include "clang/AST/ASTContext.h"
#include "clang/AST/DeclCXX.h"
#include "clang/AST/DeclTemplate.h"
#include "clang/AST/ExprCXX.h"
#include "clang/AST/RecursiveASTVisitor.h"
#include "clang/AST/StmtCXX.h"
#include "clang/Frontend/CompilerInstance.h"
#include "clang/Frontend/FrontendAction.h"
#include "clang/Lex/Lexer.h"
#include "clang/Tooling/CommonOptionsParser.h"
#include "clang/Tooling/Tooling.h"
#include "llvm/Support/CommandLine.h"
#include "llvm/Support/JSON.h"
#include "llvm/Support/raw_ostream.h"

#include <map>
#include <set>
#include <string>
#include <vector>

using namespace clang;
using namespace clang::tooling;
namespace json = llvm::json;

static llvm::cl::OptionCategory Cat ("zwfacts options");
static llvm::cl::opt<std::string> OutFile ("out", llvm::cl::desc ("output JSON"),
					   llvm::cl::Required, llvm::cl::cat (Cat));
static llvm::cl::list<std::string> Roots ("root", llvm::cl::desc ("source root"),
					  llvm::cl::cat (Cat));
static llvm::cl::list<std::string> EnumHdrs ("enumhdr",
					     llvm::cl::desc ("dump enumerators of this header"),
					     llvm::cl::cat (Cat));

namespace {

struct Dumper
{
  ASTContext &Ctx;
  SourceManager &SM;
  PrintingPolicy PP;
  std::map<Decl const *, int> LocalIds;
  std::string CurFile;

  explicit Dumper (ASTContext &C)
    : Ctx (C), SM (C.getSourceManager ()), PP (C.getLangOpts ())
  {
    PP.SuppressTagKeyword = true;
    PP.FullyQualifiedName = true;
    PP.Bool = true;
    PP.SuppressUnwrittenScope = false;
    PP.PrintCanonicalTypes = true;
    PP.TerseOutput = true;
    PP.AnonymousTagLocations = true;
  }

  int lid (Decl const *D)
  {
    auto it = LocalIds.find (D);
    if (it != LocalIds.end ())
      return it->second;
    int n = LocalIds.size () + 1;
    LocalIds[D] = n;
    return n;
  }

  std::string fileOf (SourceLocation L)
  {
    if (L.isInvalid ())
      return "";
    PresumedLoc P = SM.getPresumedLoc (SM.getExpansionLoc (L));
    if (P.isInvalid ())
      return "";
    return P.getFilename ();
  }

  std::string realFileOf (SourceLocation L)
  {
    if (L.isInvalid ())
      return "";
    return SM.getFilename (SM.getExpansionLoc (L)).str ();
  }

  bool inRoots (SourceLocation L)
  {
    std::string F = realFileOf (L);
    if (F.empty ())
      return false;
    for (auto const &R : Roots)
      if (F.compare (0, R.size (), R) == 0)
	return true;
    return false;
  }

  static std::string base (std::string const &F)
  {
    auto p = F.rfind ('/');
    return p == std::string::npos ? F : F.substr (p + 1);
  }

  std::string locStr (SourceLocation L)
  {
    if (L.isInvalid ())
      return "?";
    PresumedLoc P = SM.getPresumedLoc (SM.getExpansionLoc (L));
    if (P.isInvalid ())
      return "?";
    return base (P.getFilename ()) + ":" + std::to_string (P.getLine ());
  }

  std::string locCol (SourceLocation L)
  {
    if (L.isInvalid ())
      return "?";
    PresumedLoc P = SM.getPresumedLoc (SM.getExpansionLoc (L));
    if (P.isInvalid ())
      return "?";
    return base (P.getFilename ()) + ":" + std::to_string (P.getLine ()) + ":"
	   + std::to_string (P.getColumn ());
  }

  json::Value macros (SourceLocation L)
  {
    json::Array A;
    int guard = 0;
    while (L.isMacroID () && guard++ < 16)
      {
	StringRef N = Lexer::getImmediateMacroName (L, SM, Ctx.getLangOpts ());
	A.push_back (N.str ());
	L = SM.getImmediateMacroCallerLoc (L);
      }
    return std::move (A);
  }

  std::string typeStr (QualType T)
  {
    if (T.isNull ())
      return "?";
    return T.getCanonicalType ().getAsString (PP);
  }

  std::string qualName (NamedDecl const *D)
  {
    std::string S;
    llvm::raw_string_ostream OS (S);
    D->getNameForDiagnostic (OS, PP, true);
    OS.flush ();
    return S;
  }

  // Function identity: qualified name + parameter types + cv.
  std::string funcId (FunctionDecl const *F)
  {
    std::string S = qualName (F) + "(";
    bool first = true;
    for (auto *P : F->parameters ())
      {
	if (!first)
	  S += ",";
	first = false;
	S += typeStr (P->getType ());
      }
    S += ")";
    if (auto *M = dyn_cast<CXXMethodDecl> (F))
      {
	if (M->isConst ())
	  S += "const";
	// methods of unnamed classes (`static struct : base { ... } obj;`) would all share one id: tell them apart by location
	if (auto *R = M->getParent ())
	  if (!R->getIdentifier () && !R->isLambda () && !R->getTypedefNameForAnonDecl ())
	    S += "@" + locStr (F->getLocation ());
      }
    return S;
  }

  std::string className (DeclContext const *DC)
  {
    if (auto *R = dyn_cast_or_null<CXXRecordDecl> (DC))
      return qualName (R);
    return "";
  }

  json::Value targs (TemplateArgumentList const *L)
  {
    json::Array A;
    if (L)
      for (auto const &TA : L->asArray ())
	pushTArg (A, TA);
    return std::move (A);
  }

  void pushTArg (json::Array &A, TemplateArgument const &TA)
  {
    switch (TA.getKind ())
      {
      case TemplateArgument::Type:
	A.push_back (typeStr (TA.getAsType ()));
	break;
      case TemplateArgument::Integral:
	A.push_back ((int64_t) TA.getAsIntegral ().getExtValue ());
	break;
      case TemplateArgument::Pack:
	for (auto const &P : TA.pack_elements ())
	  pushTArg (A, P);
	break;
      default:
	{
	  std::string S;
	  llvm::raw_string_ostream OS (S);
	  TA.print (PP, OS, true);
	  OS.flush ();
	  A.push_back (S);
	}
      }
  }

  // ---------------------------------------------------------------- exprs

  Expr const *strip (Expr const *E)
  {
    for (;;)
      {
	if (!E)
	  return E;
	if (auto *X = dyn_cast<ExprWithCleanups> (E))
	  E = X->getSubExpr ();
	else if (auto *X = dyn_cast<MaterializeTemporaryExpr> (E))
	  E = X->getSubExpr ();
	else if (auto *X = dyn_cast<CXXBindTemporaryExpr> (E))
	  E = X->getSubExpr ();
	else if (auto *X = dyn_cast<ImplicitCastExpr> (E))
	  E = X->getSubExpr ();
	else if (auto *X = dyn_cast<ParenExpr> (E))
	  E = X->getSubExpr ();
	else if (auto *X = dyn_cast<ConstantExpr> (E))
	  E = X->getSubExpr ();
	else if (auto *X = dyn_cast<SubstNonTypeTemplateParmExpr> (E))
	  E = X->getReplacement ();
	else if (auto *X = dyn_cast<CXXStdInitializerListExpr> (E))
	  E = X->getSubExpr ();
	else if (auto *X = dyn_cast<CXXDefaultArgExpr> (E))
	  E = X->getExpr ();
	else if (auto *X = dyn_cast<CXXDefaultInitExpr> (E))
	  E = X->getExpr ();
	else
	  return E;
      }
  }

  void addScalarType (json::Object &O, char const *Key, QualType T)
  {
    if (T.isNull () || T->isDependentType ())
      return;
    QualType C = T.getCanonicalType ();
    if (C->isIntegralOrEnumerationType () || C->isPointerType () || C->isBooleanType ())
      O[Key] = typeStr (C);
  }

  void addIv (json::Object &O, Expr const *E)
  {
    if (E->isValueDependent () || E->isTypeDependent ())
      return;
    QualType T = E->getType ();
    if (T.isNull () || !(T->isIntegralOrEnumerationType ()))
      return;
    if (!E->isPRValue ())
      {
	// allow constant lvalues (const int x = 3) via EvaluateAsInt anyway
      }
    Expr::EvalResult R;
    if (E->EvaluateAsInt (R, Ctx, Expr::SE_NoSideEffects))
      {
	llvm::APSInt V = R.Val.getInt ();
	if (V.isSigned ())
	  O["iv"] = (int64_t) V.getExtValue ();
	else if (V.getActiveBits () <= 63)
	  O["iv"] = (int64_t) V.getZExtValue ();
	else
	  O["iv"] = llvm::toString (V, 10);
      }
  }

  json::Value args (llvm::ArrayRef<Expr const *> As)
  {
    json::Array A;
    for (auto *E : As)
      A.push_back (expr (E));
    return std::move (A);
  }

  json::Value strLit (StringLiteral const *S)
  {
    // bytes mapped 1:1 to code points (latin-1 style) so JSON stays valid
    std::string Out;
    if (S->getCharByteWidth () != 1)
      return json::Value ("<wide>");
    StringRef B = S->getBytes ();
    std::string U;
    for (unsigned char c : B)
      {
	if (c < 0x80)
	  U.push_back ((char) c);
	else
	  {
	    U.push_back ((char) (0xC0 | (c >> 6)));
	    U.push_back ((char) (0x80 | (c & 0x3F)));
	  }
      }
    return json::Value (U);
  }

  json::Value expr (Expr const *E0)
  {
    Expr const *E = strip (E0);
    if (!E)
      return nullptr;
    json::Object O;
    SourceLocation BL = E->getBeginLoc ();

    if (auto *X = dyn_cast<IntegerLiteral> (E))
      {
	O["k"] = "int";
	llvm::APInt V = X->getValue ();
	if (V.getActiveBits () <= 63)
	  O["v"] = (int64_t) V.getZExtValue ();
	else
	  O["v"] = llvm::toString (V, 10, false);
	if (BL.isMacroID ())
	  O["macs"] = macros (BL);
	return std::move (O);
      }
    if (auto *X = dyn_cast<StringLiteral> (E))
      {
	O["k"] = "str";
	O["v"] = strLit (X);
	if (BL.isMacroID ())
	  O["macs"] = macros (BL);
	return std::move (O);
      }
    if (auto *X = dyn_cast<CharacterLiteral> (E))
      {
	O["k"] = "chr";
	O["v"] = (int64_t) X->getValue ();
	return std::move (O);
      }
    if (auto *X = dyn_cast<CXXBoolLiteralExpr> (E))
      {
	O["k"] = "bool";
	O["v"] = X->getValue ();
	return std::move (O);
      }
    if (isa<CXXNullPtrLiteralExpr> (E) || isa<GNUNullExpr> (E))
      {
	O["k"] = "null";
	return std::move (O);
      }
    if (isa<CXXThisExpr> (E))
      {
	O["k"] = "this";
	return std::move (O);
      }
    if (auto *X = dyn_cast<DeclRefExpr> (E))
      {
	ValueDecl const *D = X->getDecl ();
	O["k"] = "ref";
	O["n"] = D->getNameAsString ();
	if (auto *V = dyn_cast<VarDecl> (D))
	  {
	    if (isa<ParmVarDecl> (V))
	      O["d"] = "param";
	    else if (V->isStaticLocal ())
	      O["d"] = "slocal";
	    else if (V->isLocalVarDecl ())
	      O["d"] = "local";
	    else
	      {
		O["d"] = "global";
		O["q"] = qualName (V);
	      }
	    O["id"] = lid (V);
	    O["t"] = typeStr (V->getType ());
	  }
	else if (auto *F = dyn_cast<FunctionDecl> (D))
	  {
	    O["d"] = "func";
	    O["q"] = qualName (F);
	    O["fid"] = funcId (F);
	  }
	else if (auto *EC = dyn_cast<EnumConstantDecl> (D))
	  {
	    O["d"] = "enum";
	    O["q"] = qualName (EC);
	    llvm::APSInt V = EC->getInitVal ();
	    O["iv"] = V.isSigned () ? (int64_t) V.getExtValue ()
				    : (int64_t) V.getZExtValue ();
	  }
	else if (auto *B = dyn_cast<BindingDecl> (D))
	  {
	    O["d"] = "local";
	    O["id"] = lid (B);
	  }
	else
	  {
	    O["d"] = "other";
	    O["q"] = qualName (D);
	  }
	if (BL.isMacroID ())
	  O["macs"] = macros (BL);
	if (!O.get ("iv"))
	  addIv (O, E);
	return std::move (O);
      }
    if (auto *X = dyn_cast<MemberExpr> (E))
      {
	O["k"] = "mem";
	O["b"] = expr (X->getBase ());
	ValueDecl const *D = X->getMemberDecl ();
	O["n"] = D->getNameAsString ();
	O["c"] = className (D->getDeclContext ());
	O["arrow"] = X->isArrow ();
	if (auto *F = dyn_cast<FunctionDecl> (D))
	  O["fid"] = funcId (F);
	else
	  O["t"] = typeStr (D->getType ());
	return std::move (O);
      }
    if (auto *X = dyn_cast<LambdaExpr> (E))
      {
	O["k"] = "lambda";
	O["l"] = locStr (BL);
	O["lid"] = locCol (X->getLambdaClass ()->getLocation ());
	json::Array Caps;
	for (auto const &C : X->captures ())
	  {
	    json::Object CO;
	    if (C.capturesThis ())
	      CO["n"] = "this";
	    else if (C.capturesVariable ())
	      {
		CO["n"] = C.getCapturedVar ()->getNameAsString ();
		CO["id"] = lid (C.getCapturedVar ());
	      }
	    CO["byref"] = C.getCaptureKind () == LCK_ByRef;
	    Caps.push_back (std::move (CO));
	  }
	O["caps"] = std::move (Caps);
	O["capdefault"] = (int) X->getCaptureDefault ();
	if (auto *M = X->getCallOperator ())
	  {
	    O["params"] = params (M);
	    O["ret"] = typeStr (M->getReturnType ());
	    if (M->hasBody ())
	      O["body"] = stmt (M->getBody ());
	  }
	return std::move (O);
      }
    if (auto *X = dyn_cast<CXXOperatorCallExpr> (E))
      {
	O["k"] = "call";
	O["l"] = locStr (BL);
	O["op"] = getOperatorSpelling (X->getOperator ());
	if (auto *F = X->getDirectCallee ())
	  {
	    O["f"] = qualName (F);
	    O["fid"] = funcId (F);
	    O["fn"] = F->getNameAsString ();
	    if (auto *M = dyn_cast<CXXMethodDecl> (F))
	      {
		O["cls"] = className (M->getParent ());
		O["ismethod"] = true;
		if (M->getParent ()->isLambda ())
		  O["lam"] = locCol (M->getParent ()->getLocation ());
	      }
	    if (inRoots (F->getLocation ()))
	      O["own"] = true;
	    if (F->isImplicit () || F->isDefaulted ())
	      O["implicit"] = true;
	  }
	std::vector<Expr const *> As (X->arg_begin (), X->arg_end ());
	O["a"] = args (As);
	O["t"] = typeStr (X->getType ());
	if (BL.isMacroID ())
	  O["macs"] = macros (BL);
	return std::move (O);
      }
    if (auto *X = dyn_cast<CallExpr> (E))
      {
	O["k"] = "call";
	O["l"] = locStr (BL);
	FunctionDecl const *F = X->getDirectCallee ();
	if (auto *MC = dyn_cast<CXXMemberCallExpr> (X))
	  {
	    if (auto *M = MC->getMethodDecl ())
	      F = M;
	    O["obj"] = expr (MC->getImplicitObjectArgument ());
	    if (auto *ME = dyn_cast<MemberExpr> (strip (MC->getCallee ())))
	      {
		O["arrow"] = ME->isArrow ();
		if (auto *M = dyn_cast_or_null<CXXMethodDecl> (F))
		  O["virt"] = M->isVirtual () && !ME->hasQualifier ();
	      }
	  }
	if (F)
	  {
	    O["f"] = qualName (F);
	    O["fid"] = funcId (F);
	    O["fn"] = F->getNameAsString ();
	    if (auto *M = dyn_cast<CXXMethodDecl> (F))
	      {
		O["cls"] = className (M->getParent ());
		O["ismethod"] = true;
		if (M->isStatic ())
		  O["static"] = true;
		if (M->getParent ()->isLambda ())
		  O["lam"] = locCol (M->getParent ()->getLocation ());
	      }
	    if (auto *TA = F->getTemplateSpecializationArgs ())
	      O["targs"] = targs (TA);
	    if (inRoots (F->getLocation ()))
	      O["own"] = true;
	    if (F->isNoReturn ())
	      O["noreturn"] = true;
	    if (auto *FPT = F->getType ()->getAs<FunctionProtoType> ())
	      if (FPT->isNothrow ())
		O["noexcept"] = true;
	    if (F->isExternC ())
	      O["externc"] = true;
	    if (F->isImplicit () || F->isDefaulted ())
	      O["implicit"] = true;
	  }
	else
	  {
	    O["ce"] = expr (X->getCallee ());
	    O["cet"] = typeStr (X->getCallee ()->getType ());
	  }
	std::vector<Expr const *> As (X->arg_begin (), X->arg_end ());
	O["a"] = args (As);
	O["t"] = typeStr (X->getType ());
	if (BL.isMacroID ())
	  O["macs"] = macros (BL);
	addIv (O, E);
	return std::move (O);
      }
    if (auto *X = dyn_cast<CXXConstructExpr> (E))
      {
	CXXConstructorDecl const *C = X->getConstructor ();
	O["k"] = "ctor";
	O["l"] = locStr (BL);
	O["c"] = className (C->getParent ());
	O["fid"] = funcId (C);
	if (C->isCopyOrMoveConstructor ())
	  O["cm"] = C->isMoveConstructor () ? "move" : "copy";
	if (C->isImplicit () || C->isDefaulted ())
	  O["implicit"] = true;
	if (X->isElidable ())
	  O["elidable"] = true;
	if (isa<CXXTemporaryObjectExpr> (X))
	  O["temp"] = true;
	if (inRoots (C->getLocation ()))
	  O["own"] = true;
	std::vector<Expr const *> As (X->arg_begin (), X->arg_end ());
	O["a"] = args (As);
	O["t"] = typeStr (X->getType ());
	if (BL.isMacroID ())
	  O["macs"] = macros (BL);
	return std::move (O);
      }
    if (auto *X = dyn_cast<CXXNewExpr> (E))
      {
	O["k"] = "new";
	O["l"] = locStr (BL);
	O["t"] = typeStr (X->getAllocatedType ());
	if (X->getInitializer ())
	  O["init"] = expr (X->getInitializer ());
	if (X->isArray ())
	  O["array"] = true;
	return std::move (O);
      }
    if (auto *X = dyn_cast<CXXDeleteExpr> (E))
      {
	O["k"] = "delete";
	O["l"] = locStr (BL);
	O["e"] = expr (X->getArgument ());
	return std::move (O);
      }
    if (auto *X = dyn_cast<UnaryOperator> (E))
      {
	O["k"] = "un";
	O["op"] = UnaryOperator::getOpcodeStr (X->getOpcode ()).str ();
	if (X->isPostfix ())
	  O["post"] = true;
	O["e"] = expr (X->getSubExpr ());
	addScalarType (O, "t", X->getType ());
	addScalarType (O, "ot", X->getSubExpr ()->getType ());
	addIv (O, E);
	return std::move (O);
      }
    if (auto *X = dyn_cast<BinaryOperator> (E))
      {
	O["k"] = X->isAssignmentOp () ? "asg" : "bin";
	O["op"] = X->getOpcodeStr ().str ();
	O["lhs"] = expr (X->getLHS ());
	O["rhs"] = expr (X->getRHS ());
	O["l"] = locStr (BL);
	if (BL.isMacroID ())
	  O["macs"] = macros (BL);
	// result type, and the operand types after the usual arithmetic conversions (implicit casts are not
	// emitted as nodes): enough for an evaluator to apply C++'s signed/unsigned semantics
	addScalarType (O, "t", X->getType ());
	addScalarType (O, "ot", X->getLHS ()->getType ());
	addScalarType (O, "rt", X->getRHS ()->getType ());
	if (auto *CA = dyn_cast<CompoundAssignOperator> (X))
	  {
	    addScalarType (O, "ct", CA->getComputationResultType ());
	    addScalarType (O, "clt", CA->getComputationLHSType ());
	  }
	if (!X->isAssignmentOp ())
	  addIv (O, E);
	return std::move (O);
      }
    if (auto *X = dyn_cast<ConditionalOperator> (E))
      {
	O["k"] = "cond";
	O["c"] = expr (X->getCond ());
	O["a"] = expr (X->getTrueExpr ());
	O["b"] = expr (X->getFalseExpr ());
	addScalarType (O, "t", X->getType ());
	addIv (O, E);
	return std::move (O);
      }
    if (auto *X = dyn_cast<ArraySubscriptExpr> (E))
      {
	O["k"] = "idx";
	O["b"] = expr (X->getBase ());
	O["i"] = expr (X->getIdx ());
	return std::move (O);
      }
    if (auto *X = dyn_cast<InitListExpr> (E))
      {
	O["k"] = "ilist";
	O["t"] = typeStr (X->getType ());
	json::Array A;
	for (auto *I : X->inits ())
	  A.push_back (expr (I));
	O["a"] = std::move (A);
	return std::move (O);
      }
    if (auto *X = dyn_cast<CXXThrowExpr> (E))
      {
	O["k"] = "throw";
	O["l"] = locStr (BL);
	if (X->getSubExpr ())
	  O["e"] = expr (X->getSubExpr ());
	return std::move (O);
      }
    if (auto *X = dyn_cast<ExplicitCastExpr> (E))
      {
	O["k"] = "cast";
	O["ck"] = isa<CXXConstCastExpr> (X)	    ? "const"
		  : isa<CXXStaticCastExpr> (X)	    ? "static"
		  : isa<CXXDynamicCastExpr> (X)	    ? "dynamic"
		  : isa<CXXReinterpretCastExpr> (X) ? "reinterpret"
		  : isa<CXXFunctionalCastExpr> (X)  ? "functional"
						    : "cstyle";
	O["t"] = typeStr (X->getTypeAsWritten ());
	O["e"] = expr (X->getSubExpr ());
	if (BL.isMacroID ())
	  O["macs"] = macros (BL);
	addIv (O, E);
	return std::move (O);
      }
    if (auto *X = dyn_cast<UnaryExprOrTypeTraitExpr> (E))
      {
	O["k"] = "sizeof";
	addIv (O, E);
	return std::move (O);
      }
    if (auto *X = dyn_cast<CXXScalarValueInitExpr> (E))
      {
	O["k"] = "zero";
	O["t"] = typeStr (X->getType ());
	return std::move (O);
      }
    if (auto *X = dyn_cast<StmtExpr> (E))
      {
	O["k"] = "stmtexpr";
	O["body"] = stmt (X->getSubStmt ());
	return std::move (O);
      }
    // generic fallback: keep children so no call is lost
    O["k"] = "other";
    O["cls"] = E->getStmtClassName ();
    addIv (O, E);
    json::Array A;
    for (Stmt const *C : E->children ())
      {
	if (auto *CE = dyn_cast_or_null<Expr> (C))
	  A.push_back (expr (CE));
	else if (C)
	  A.push_back (stmt (C));
      }
    O["sub"] = std::move (A);
    return std::move (O);
  }

  // ---------------------------------------------------------------- stmts

  json::Value varDecl (VarDecl const *V)
  {
    json::Object O;
    O["n"] = V->getNameAsString ();
    O["id"] = lid (V);
    O["t"] = typeStr (V->getType ());
    O["l"] = locStr (V->getLocation ());
    if (V->isStaticLocal ())
      O["static"] = true;
    if (V->getType ().isConstQualified ())
      O["const"] = true;
    if (V->hasInit ())
      O["init"] = expr (V->getInit ());
    if (auto *VA = dyn_cast<VariableArrayType> (V->getType ().getTypePtr ()))
      if (VA->getSizeExpr ())
	O["vla"] = expr (VA->getSizeExpr ());
    return std::move (O);
  }

  json::Value stmt (Stmt const *S)
  {
    if (!S)
      return nullptr;
    if (auto *E = dyn_cast<Expr> (S))
      return expr (E);
    json::Object O;
    O["l"] = locStr (S->getBeginLoc ());
    if (auto *X = dyn_cast<CompoundStmt> (S))
      {
	O["k"] = "block";
	json::Array A;
	for (auto *C : X->body ())
	  A.push_back (stmt (C));
	O["s"] = std::move (A);
	O["lend"] = locStr (X->getRBracLoc ());
      }
    else if (auto *X = dyn_cast<IfStmt> (S))
      {
	O["k"] = "if";
	if (X->getInit ())
	  O["init"] = stmt (X->getInit ());
	if (X->getConditionVariable ())
	  O["var"] = varDecl (X->getConditionVariable ());
	O["c"] = expr (X->getCond ());
	O["then"] = stmt (X->getThen ());
	if (X->getElse ())
	  O["else"] = stmt (X->getElse ());
      }
    else if (auto *X = dyn_cast<SwitchStmt> (S))
      {
	O["k"] = "switch";
	if (X->getInit ())
	  O["init"] = stmt (X->getInit ());
	if (X->getConditionVariable ())
	  O["var"] = varDecl (X->getConditionVariable ());
	O["c"] = expr (X->getCond ());
	O["body"] = stmt (X->getBody ());
      }
    else if (auto *X = dyn_cast<CaseStmt> (S))
      {
	O["k"] = "case";
	O["lo"] = expr (X->getLHS ());
	if (X->getRHS ())
	  O["hi"] = expr (X->getRHS ());
	O["sub"] = stmt (X->getSubStmt ());
      }
    else if (auto *X = dyn_cast<DefaultStmt> (S))
      {
	O["k"] = "default";
	O["sub"] = stmt (X->getSubStmt ());
      }
    else if (auto *X = dyn_cast<WhileStmt> (S))
      {
	O["k"] = "while";
	if (X->getConditionVariable ())
	  O["var"] = varDecl (X->getConditionVariable ());
	O["c"] = expr (X->getCond ());
	O["body"] = stmt (X->getBody ());
      }
    else if (auto *X = dyn_cast<DoStmt> (S))
      {
	O["k"] = "do";
	O["c"] = expr (X->getCond ());
	O["body"] = stmt (X->getBody ());
      }
    else if (auto *X = dyn_cast<ForStmt> (S))
      {
	O["k"] = "for";
	if (X->getInit ())
	  O["init"] = stmt (X->getInit ());
	if (X->getConditionVariable ())
	  O["var"] = varDecl (X->getConditionVariable ());
	if (X->getCond ())
	  O["c"] = expr (X->getCond ());
	if (X->getInc ())
	  O["inc"] = expr (X->getInc ());
	O["body"] = stmt (X->getBody ());
      }
    else if (auto *X = dyn_cast<CXXForRangeStmt> (S))
      {
	O["k"] = "rfor";
	O["var"] = varDecl (X->getLoopVariable ());
	O["range"] = expr (X->getRangeInit ());
	O["body"] = stmt (X->getBody ());
      }
    else if (auto *X = dyn_cast<ReturnStmt> (S))
      {
	O["k"] = "return";
	if (X->getRetValue ())
	  O["e"] = expr (X->getRetValue ());
      }
    else if (auto *X = dyn_cast<DeclStmt> (S))
      {
	O["k"] = "decl";
	json::Array A;
	for (auto *D : X->decls ())
	  if (auto *V = dyn_cast<VarDecl> (D))
	    A.push_back (varDecl (V));
	O["vars"] = std::move (A);
      }
    else if (isa<BreakStmt> (S))
      O["k"] = "break";
    else if (isa<ContinueStmt> (S))
      O["k"] = "continue";
    else if (isa<NullStmt> (S))
      O["k"] = "null";
    else if (auto *X = dyn_cast<CXXTryStmt> (S))
      {
	O["k"] = "try";
	O["body"] = stmt (X->getTryBlock ());
	json::Array H;
	for (unsigned i = 0; i < X->getNumHandlers (); ++i)
	  {
	    CXXCatchStmt const *C = X->getHandler (i);
	    json::Object CO;
	    CO["l"] = locStr (C->getBeginLoc ());
	    if (C->getExceptionDecl ())
	      {
		CO["t"] = typeStr (C->getCaughtType ());
		CO["var"] = varDecl (C->getExceptionDecl ());
	      }
	    else
	      CO["t"] = "...";
	    CO["body"] = stmt (C->getHandlerBlock ());
	    H.push_back (std::move (CO));
	  }
	O["handlers"] = std::move (H);
      }
    else if (auto *X = dyn_cast<GotoStmt> (S))
      {
	O["k"] = "goto";
	O["label"] = X->getLabel ()->getNameAsString ();
      }
    else if (auto *X = dyn_cast<LabelStmt> (S))
      {
	O["k"] = "label";
	O["n"] = X->getDecl ()->getNameAsString ();
	O["sub"] = stmt (X->getSubStmt ());
      }
    else if (auto *X = dyn_cast<AttributedStmt> (S))
      return stmt (X->getSubStmt ());
    else
      {
	O["k"] = "otherstmt";
	O["cls"] = S->getStmtClassName ();
	json::Array A;
	for (Stmt const *C : S->children ())
	  if (C)
	    A.push_back (stmt (C));
	O["sub"] = std::move (A);
      }
    return std::move (O);
  }

  json::Value params (FunctionDecl const *F)
  {
    json::Array A;
    for (auto *P : F->parameters ())
      {
	json::Object PO;
	PO["n"] = P->getNameAsString ();
	PO["id"] = lid (P);
	PO["t"] = typeStr (P->getType ());
	A.push_back (std::move (PO));
      }
    return std::move (A);
  }

  // ---------------------------------------------------------------- decls

  json::Value function (FunctionDecl const *F)
  {
    json::Object O;
    O["fid"] = funcId (F);
    O["q"] = qualName (F);
    O["n"] = F->getNameAsString ();
    O["file"] = fileOf (F->getLocation ());
    O["l"] = locStr (F->getLocation ());
    O["ret"] = typeStr (F->getReturnType ());
    O["params"] = params (F);
    if (F->isTemplateInstantiation ())
      O["inst"] = true;
    if (auto *TA = F->getTemplateSpecializationArgs ())
      O["targs"] = targs (TA);
    if (F->getStorageClass () == SC_Static)
      O["static"] = true;
    if (F->isExternC ())
      O["externc"] = true;
    if (auto *FPT = F->getType ()->getAs<FunctionProtoType> ())
      if (FPT->isNothrow ())
	O["noexcept"] = true;
    if (auto *M = dyn_cast<CXXMethodDecl> (F))
      {
	O["cls"] = className (M->getParent ());
	if (M->isConst ())
	  O["const"] = true;
	if (M->isVirtual ())
	  O["virtual"] = true;
	if (M->isStatic ())
	  O["static"] = true;
	json::Array Ov;
	for (auto *B : M->overridden_methods ())
	  Ov.push_back (funcId (B));
	O["overrides"] = std::move (Ov);
      }
    if (auto *C = dyn_cast<CXXConstructorDecl> (F))
      {
	O["isctor"] = true;
	json::Array Inits;
	for (auto *I : C->inits ())
	  {
	    json::Object IO;
	    if (I->isAnyMemberInitializer ())
	      IO["field"] = I->getAnyMember ()->getNameAsString ();
	    else if (I->isBaseInitializer ())
	      IO["base"] = typeStr (QualType (I->getBaseClass (), 0));
	    else if (I->isDelegatingInitializer ())
	      IO["delegating"] = true;
	    IO["written"] = I->isWritten ();
	    IO["init"] = expr (I->getInit ());
	    Inits.push_back (std::move (IO));
	  }
	O["inits"] = std::move (Inits);
      }
    if (isa<CXXDestructorDecl> (F))
      O["isdtor"] = true;
    if (F->isDefaulted ())
      O["defaulted"] = true;
    O["body"] = stmt (F->getBody ());
    return std::move (O);
  }

  json::Value record (CXXRecordDecl const *R)
  {
    json::Object O;
    O["q"] = qualName (R);
    O["n"] = R->getNameAsString ();
    O["file"] = fileOf (R->getLocation ());
    O["l"] = locStr (R->getLocation ());
    O["abstract"] = R->isAbstract ();
    O["trivdtor"] = R->hasTrivialDestructor ();
    if (auto *S = dyn_cast<ClassTemplateSpecializationDecl> (R))
      {
	O["tmpl"] = qualName (S->getSpecializedTemplate ());
	O["targs"] = targs (&S->getTemplateArgs ());
      }
    json::Array Bases;
    for (auto const &B : R->bases ())
      {
	json::Object BO;
	BO["t"] = typeStr (B.getType ());
	BO["access"] = (int) B.getAccessSpecifier ();
	BO["virtual"] = B.isVirtual ();
	Bases.push_back (std::move (BO));
      }
    O["bases"] = std::move (Bases);
    json::Array Fields;
    for (auto *F : R->fields ())
      {
	json::Object FO;
	FO["n"] = F->getNameAsString ();
	FO["t"] = typeStr (F->getType ());
	FO["l"] = locStr (F->getLocation ());
	if (F->isMutable ())
	  FO["mutable"] = true;
	if (F->getType ().isConstQualified ())
	  FO["const"] = true;
	if (F->hasInClassInitializer () && F->getInClassInitializer ())
	  FO["init"] = expr (F->getInClassInitializer ());
	FO["access"] = (int) F->getAccess ();
	Fields.push_back (std::move (FO));
      }
    O["fields"] = std::move (Fields);
    json::Array Methods;
    for (auto *M : R->methods ())
      {
	if (M->isImplicit ())
	  continue;
	json::Object MO;
	MO["n"] = M->getNameAsString ();
	MO["fid"] = funcId (M);
	MO["virtual"] = M->isVirtual ();
	MO["const"] = M->isConst ();
	MO["pure"] = M->isPure ();
	MO["access"] = (int) M->getAccess ();
	MO["l"] = locStr (M->getLocation ());
	json::Array Ov;
	for (auto *B : M->overridden_methods ())
	  Ov.push_back (funcId (B));
	MO["overrides"] = std::move (Ov);
	Methods.push_back (std::move (MO));
      }
    O["methods"] = std::move (Methods);
    // using-declarations that re-export base members (coverage re-exports at())
    json::Array Usings;
    for (auto *D : R->decls ())
      if (auto *U = dyn_cast<UsingDecl> (D))
	{
	  json::Object UO;
	  UO["n"] = U->getNameAsString ();
	  UO["access"] = (int) U->getAccess ();
	  Usings.push_back (std::move (UO));
	}
    O["usings"] = std::move (Usings);
    return std::move (O);
  }
};

struct Visitor : RecursiveASTVisitor<Visitor>
{
  Dumper &D;
  json::Array Funcs, Records, Globals, Enums;
  std::set<std::string> SeenF, SeenR;

  explicit Visitor (Dumper &D) : D (D) {}

  bool shouldVisitTemplateInstantiations () const { return true; }
  bool shouldVisitImplicitCode () const { return false; }

  bool VisitFunctionDecl (FunctionDecl *F)
  {
    if (!F->doesThisDeclarationHaveABody ())
      return true;
    if (F->isDependentContext ())
      return true;
    if (!D.inRoots (F->getLocation ()))
      return true;
    if (auto *M = dyn_cast<CXXMethodDecl> (F))
      if (M->getParent ()->isLambda ())
	return true;
    std::string Id = D.funcId (F);
    if (!SeenF.insert (Id).second)
      return true;
    Funcs.push_back (D.function (F));
    return true;
  }

  bool VisitCXXRecordDecl (CXXRecordDecl *R)
  {
    if (!R->isThisDeclarationADefinition () || R->isDependentContext ())
      return true;
    if (R->isLambda ())
      return true;
    if (!D.inRoots (R->getLocation ()))
      return true;
    std::string Q = D.qualName (R);
    if (!SeenR.insert (Q).second)
      return true;
    Records.push_back (D.record (R));
    return true;
  }

  bool VisitVarDecl (VarDecl *V)
  {
    if (isa<ParmVarDecl> (V) || V->isLocalVarDecl ())
      return true;
    if (V->getDeclContext ()->isDependentContext ())
      return true;
    if (!V->isFileVarDecl () && !V->isStaticDataMember ())
      return true;
    if (!D.inRoots (V->getLocation ()))
      return true;
    json::Object O;
    O["q"] = D.qualName (V);
    O["n"] = V->getNameAsString ();
    O["t"] = D.typeStr (V->getType ());
    O["l"] = D.locStr (V->getLocation ());
    O["file"] = D.fileOf (V->getLocation ());
    O["const"] = V->getType ().isConstQualified ();
    O["def"] = (bool) V->isThisDeclarationADefinition ();
    O["constexpr"] = V->isConstexpr ();
    if (V->hasInit ())
      O["init"] = D.expr (V->getInit ());
    Globals.push_back (std::move (O));
    return true;
  }

  bool VisitEnumDecl (EnumDecl *E)
  {
    std::string F = D.realFileOf (E->getLocation ());
    bool want = D.inRoots (E->getLocation ());
    for (auto const &H : EnumHdrs)
      if (F == H)
	want = true;
    if (!want || !E->isThisDeclarationADefinition ())
      return true;
    json::Object O;
    O["q"] = D.qualName (E);
    O["file"] = F;
    json::Array Cs;
    for (auto *C : E->enumerators ())
      {
	json::Object CO;
	CO["n"] = C->getNameAsString ();
	llvm::APSInt V = C->getInitVal ();
	CO["v"] = V.isSigned () ? (int64_t) V.getExtValue () : (int64_t) V.getZExtValue ();
	Cs.push_back (std::move (CO));
      }
    O["consts"] = std::move (Cs);
    Enums.push_back (std::move (O));
    return true;
  }
};

struct Consumer : ASTConsumer
{
  std::string Main;
  explicit Consumer (std::string M) : Main (std::move (M)) {}

  void HandleTranslationUnit (ASTContext &Ctx) override
  {
    if (Ctx.getDiagnostics ().hasErrorOccurred ())
      {
	llvm::errs () << "zwfacts: errors in " << Main << "\n";
	exit (3);
      }
    Dumper D (Ctx);
    Visitor V (D);
    V.TraverseDecl (Ctx.getTranslationUnitDecl ());
    json::Object Root;
    Root["unit"] = Main;
    Root["functions"] = std::move (V.Funcs);
    Root["records"] = std::move (V.Records);
    Root["globals"] = std::move (V.Globals);
    Root["enums"] = std::move (V.Enums);
    std::error_code EC;
    llvm::raw_fd_ostream OS (OutFile, EC);
    if (EC)
      {
	llvm::errs () << "zwfacts: cannot write " << OutFile << "\n";
	exit (3);
      }
    OS << json::Value (std::move (Root));
    OS << "\n";
  }
};

struct Action : ASTFrontendAction
{
  std::unique_ptr<ASTConsumer> CreateASTConsumer (CompilerInstance &, StringRef F) override
  {
    return std::make_unique<Consumer> (F.str ());
  }
};

} // namespace

int
main (int argc, const char **argv)
{
  auto Opts = CommonOptionsParser::create (argc, argv, Cat);
  if (!Opts)
    {
      llvm::errs () << llvm::toString (Opts.takeError ()) << "\n";
      return 3;
    }
  ClangTool Tool (Opts->getCompilations (), Opts->getSourcePathList ());
  return Tool.run (newFrontendActionFactory<Action> ().get ()) ? 3 : 0;
}
