# One CU: a subprogram with DW_AT_low_pc (addr) + DW_AT_high_pc (data8 = offset form, as every DWARF 4+ producer emits),
# an anonymous structure type, and a variable of that type whose DW_AT_const_value has a data form.
	.section .debug_abbrev,"",@progbits
	.uleb128 1		# abbrev 1: compile_unit
	.uleb128 0x11
	.byte 1
	.uleb128 0x03, 0x08	# DW_AT_name, DW_FORM_string
	.byte 0, 0
	.uleb128 2		# abbrev 2: subprogram
	.uleb128 0x2e
	.byte 0
	.uleb128 0x03, 0x08	# name
	.uleb128 0x11, 0x01	# DW_AT_low_pc, DW_FORM_addr
	.uleb128 0x12, 0x07	# DW_AT_high_pc, DW_FORM_data8
	.byte 0, 0
	.uleb128 3		# abbrev 3: anonymous structure type
	.uleb128 0x13
	.byte 0
	.uleb128 0x0b, 0x0b	# DW_AT_byte_size, data1
	.byte 0, 0
	.uleb128 4		# abbrev 4: variable
	.uleb128 0x34
	.byte 0
	.uleb128 0x03, 0x08	# name
	.uleb128 0x49, 0x13	# DW_AT_type, ref4
	.uleb128 0x1c, 0x0a	# DW_AT_const_value, block1
	.byte 0, 0
	.byte 0
	.section .debug_info,"",@progbits
.Linfo0:
	.long .Lcu_end - .Lcu_start
.Lcu_start:
	.value 4
	.long 0
	.byte 8
	.uleb128 1
	.string "stale.c"
	.uleb128 2		# subprogram
	.string "f"
	.quad 0x1000
	.quad 0x10
.Lstruct:
	.uleb128 3		# anonymous struct
	.byte 1
	.uleb128 4		# variable
	.string "v"
	.long .Lstruct - .Linfo0
	.byte 2, 0xaa, 0xbb
	.byte 0
.Lcu_end:
