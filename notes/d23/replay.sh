#!/bin/bash
# D23 (before fix b46c277): history-dependent decoding through libdw's sticky error indicator.
D=${1:-/var/tmp/zwb/dwgrep/dwgrep}
gcc -c "$(dirname "$0")/stale2.s" -o /var/tmp/stale2.o
$D /var/tmp/stale2.o -e 'entry ?TAG_variable @AT_const_value'                              # [aa, bb]
$D /var/tmp/stale2.o -e 'entry (?TAG_subprogram high, ?TAG_variable @AT_const_value)'      # was: 0x1010 then "no address value", exit 2; fixed: 0x1010, [aa, bb]
