extern int g(int);
int f(int a, int b) { int r = g(a); r += g(b); return r + g(3); }
