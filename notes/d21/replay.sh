#!/bin/bash
# D21 / D22 replays (before the fixes 9477c53 / dd5b398): dwgrep built from the tree.
D=${1:-/var/tmp/zwb/dwgrep/dwgrep}
$D -e 'r"\101\x41\n"'          # printed AA\n ; documented and fixed: \101\x41\n
$D -e '1 /***/ 2 add'          # was: syntax error ; fixed: 3
$D -e '1 /* a **/ 2 add'       # was: syntax error ; fixed: 3
$D -e '1 /* a **/ 2 /* b */ add'   # was: syntax error after swallowing `2` ; fixed: 3
