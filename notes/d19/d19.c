#include <stdbool.h>
#include <stddef.h>
#include <libzwerg.h>
#include <stdio.h>
#include <string.h>
#include <stdlib.h>
int main(void){
  zw_error *err=NULL; zw_vocabulary *voc=zw_vocabulary_init(&err);
  zw_vocabulary_add(voc, zw_vocabulary_core(&err), &err);
  size_t n=3000; char *q=malloc(n*8+8); q[0]=0; for(size_t i=0;i<n;i++) strcat(q,"\"%( "); strcat(q,"1"); for(size_t i=0;i<n;i++) strcat(q," %)\"");
  for(int k=0;k<3;k++){ err=NULL; zw_query *qq=zw_query_parse(voc,q,&err); printf("deep: %s %s\n", qq?"query":"NULL", err?zw_error_message(err):"-"); }
  err=NULL; zw_query *ok=zw_query_parse(voc,"\"%( 1 %)\"",&err); printf("shallow after failures: %s\n", ok?"query":"NULL");
  return 0; }
