	.section .debug_abbrev,"",@progbits
	.uleb128 1; .uleb128 0x3c; .byte 1; .byte 0; .byte 0      # partial_unit, children
	.uleb128 2; .uleb128 0x13; .byte 1; .uleb128 0x03; .uleb128 0x08; .byte 0; .byte 0   # structure_type name string
	.uleb128 3; .uleb128 0x0d; .byte 0; .uleb128 0x03; .uleb128 0x08; .byte 0; .byte 0   # member name string
	.uleb128 4; .uleb128 0x11; .byte 1; .uleb128 0x03; .uleb128 0x08; .byte 0; .byte 0   # compile_unit name
	.uleb128 5; .uleb128 0x3d; .byte 0; .uleb128 0x18; .uleb128 0x10; .byte 0; .byte 0   # imported_unit import ref_addr
	.byte 0
	.section .debug_info,"",@progbits
.Lpu_start:
	.long .Lpu_end - .Lpu_ver
.Lpu_ver:
	.value 4
	.long 0
	.byte 8
.Lpu_die:
	.uleb128 1
	.uleb128 2; .asciz "S"
	.uleb128 3; .asciz "m"
	.byte 0
	.byte 0
.Lpu_end:
.Lcu_start:
	.long .Lcu_end - .Lcu_ver
.Lcu_ver:
	.value 4
	.long 0
	.byte 8
	.uleb128 4; .asciz "cu"
	.uleb128 5; .long .Lpu_die - .Lpu_start
	.byte 0
.Lcu_end:
