/* D24: zw_vocabulary_add with a vocabulary whose (non-overloaded) words are already present.
   Contract (libzwerg.h): "Returns false on error, in which case it sets *OUT_ERR".  */
#include <stdio.h>
#include <stdbool.h>
#include "libzwerg.h"

int
main (void)
{
  zw_error *err = NULL;
  zw_vocabulary *voc = zw_vocabulary_init (&err);
  zw_vocabulary const *core = zw_vocabulary_core (&err);
  if (voc == NULL || core == NULL)
    return 3;
  if (! zw_vocabulary_add (voc, core, &err))
    return 4;
  bool ok = zw_vocabulary_add (voc, core, &err);   /* same words again */
  if (ok)
    {
      /* accepted as a no-op or a merge: must still be usable */
      zw_query *q = zw_query_parse (voc, "1 dup add", &err);
      printf ("second add accepted, query %s\n", q != NULL ? "parses" : "does not parse");
      return q != NULL ? 0 : 1;
    }
  printf ("second add refused: %s\n", err != NULL ? zw_error_message (err) : "(no error object)");
  return err != NULL ? 0 : 1;
}
