#!/bin/bash
# D24: adding a vocabulary twice crashes (null dynamic_pointer_cast dereferenced; an assert is the only guard).
B=${1:-/var/tmp/zwb}
here=$(dirname "$0")
gcc -I/repo/libzwerg "$here/twice.c" -o /var/tmp/d24-twice -L$B/libzwerg -lzwerg -Wl,-rpath,$B/libzwerg || exit 3
/var/tmp/d24-twice; echo "exit status $?"
