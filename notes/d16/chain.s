# Two CUs, each with its own line table.  File #1 is "dirA/one.c" in the
# first CU and "dirB/two.c" in the second.  The subprogram in the second
# CU has no DW_AT_decl_file of its own, it inherits it through a
# cross-unit DW_AT_specification (DW_FORM_ref_addr) from the first CU.
	.section .debug_abbrev,"",@progbits
.Labbrev0:
	.uleb128 1		# abbrev 1: compile_unit
	.uleb128 0x11		# DW_TAG_compile_unit
	.byte 1			# has children
	.uleb128 0x03, 0x08	# DW_AT_name, DW_FORM_string
	.uleb128 0x10, 0x17	# DW_AT_stmt_list, DW_FORM_sec_offset
	.byte 0, 0
	.uleb128 2		# abbrev 2: subprogram declaration
	.uleb128 0x2e		# DW_TAG_subprogram
	.byte 0
	.uleb128 0x03, 0x08	# DW_AT_name, DW_FORM_string
	.uleb128 0x3a, 0x0b	# DW_AT_decl_file, DW_FORM_data1
	.uleb128 0x3b, 0x0b	# DW_AT_decl_line, DW_FORM_data1
	.uleb128 0x3c, 0x19	# DW_AT_declaration, DW_FORM_flag_present
	.byte 0, 0
	.uleb128 3		# abbrev 3: subprogram definition
	.uleb128 0x2e		# DW_TAG_subprogram
	.byte 0
	.uleb128 0x47, 0x10	# DW_AT_specification, DW_FORM_ref_addr
	.uleb128 0x39, 0x0b	# DW_AT_decl_column, DW_FORM_data1
	.byte 0, 0
	.uleb128 4		# abbrev 4: concrete instance
	.uleb128 0x2e		# DW_TAG_subprogram
	.byte 0
	.uleb128 0x31, 0x10	# DW_AT_abstract_origin, DW_FORM_ref_addr
	.byte 0, 0
	.byte 0

	.section .debug_info,"",@progbits
.Linfo0:
	.long .Lcu1_end - .Lcu1_start
.Lcu1_start:
	.value 4
	.long 0			# abbrev offset
	.byte 8
	.uleb128 1		# compile_unit
	.string "one.c"
	.long .Lline1 - .Lline0
.Ldecl:
	.uleb128 2		# subprogram
	.string "f"
	.byte 1			# decl_file
	.byte 7			# decl_line
	.byte 0			# end of children
.Lcu1_end:
	.long .Lcu2_end - .Lcu2_start
.Lcu2_start:
	.value 4
	.long 0
	.byte 8
	.uleb128 1		# compile_unit
	.string "two.c"
	.long .Lline2 - .Lline0
.Ldef:
	.uleb128 3		# subprogram
	.long .Ldecl - .Linfo0	# specification
	.byte 3			# decl_column
.Lconcrete:
	.uleb128 4		# subprogram (concrete instance)
	.long .Ldef - .Linfo0	# abstract_origin
	.byte 0
.Lcu2_end:

	.macro linetable dir, file
	.long 9f - 1f
1:	.value 3		# version
	.long 3f - 2f		# header_length
2:	.byte 1			# minimum_instruction_length
	.byte 1			# default_is_stmt
	.byte -5		# line_base
	.byte 14		# line_range
	.byte 13		# opcode_base
	.byte 0, 1, 1, 1, 1, 0, 0, 0, 1, 0, 0, 1
	.string "\dir"
	.byte 0
	.string "\file"
	.uleb128 1, 0, 0
	.byte 0
3:
9:
	.endm

	.section .debug_line,"",@progbits
.Lline0:
.Lline1:
	linetable dirA, one.c
.Lline2:
	linetable dirB, two.c
