// Positive control for K2 (library never writes to stdout): this unit is NOT part of dwgrep;
// the rule must report both functions below on every run, otherwise the check is broken.
#include <iostream>
#include <cstdio>
#include "op.hh"

void
verif_control_writes_cout (int x)
{
  std::cout << "control " << x << std::endl;
}

void
verif_control_printf (int x)
{
  printf ("control %d\n", x);
}
