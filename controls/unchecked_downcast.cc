// positive control for rule B7: the result of a dynamic downcast dereferenced with an assert as the only guard
#include <cassert>
#include <memory>

namespace verif_control_b7
{
  struct base { virtual ~base () {} };
  struct derived : base { int payload () const { return 7; } };

  int
  unchecked (std::shared_ptr <base const> b)
  {
    auto d = std::dynamic_pointer_cast <derived const> (b);
    assert (d != nullptr);
    return d->payload ();
  }

  int
  checked (std::shared_ptr <base const> b)
  {
    auto d = std::dynamic_pointer_cast <derived const> (b);
    if (d == nullptr)
      return -1;
    return d->payload ();
  }
}
