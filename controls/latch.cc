// Positive control for R1 (no exhaustion latch): an op that remembers exhaustion.
#include "op.hh"
#include "scon.hh"
#include "layout.hh"

struct verif_control_latch_op
  : public inner_op
{
  struct state { bool m_done = false; };
  layout::loc m_ll;

  verif_control_latch_op (layout &l, std::shared_ptr <op> upstream)
    : inner_op {upstream}
    , m_ll {l.reserve <state> ()}
  {}

  void state_con (scon &sc) const override
  { sc.con <state> (m_ll); inner_op::state_con (sc); }

  void state_des (scon &sc) const override
  { inner_op::state_des (sc); sc.des <state> (m_ll); }

  stack::uptr
  next (scon &sc) const override
  {
    state &st = sc.get <state> (m_ll);
    if (st.m_done)
      return nullptr;
    if (auto stk = m_upstream->next (sc))
      return stk;
    st.m_done = true;
    return nullptr;
  }

  std::string name () const override { return "control"; }
};

std::shared_ptr <op>
verif_control_make (layout &l, std::shared_ptr <op> up)
{
  return std::make_shared <verif_control_latch_op> (l, up);
}
