// Positive control for R8 (state that outlives the call is not left moved-from): a stringer that
// steals the suffix it caches for the current input (bad), and one that puts it back (fine).
#include <string>
#include <utility>
#include "op.hh"
#include "scon.hh"
#include "layout.hh"

struct verif_control_steals
{
  struct state { std::string m_str; };
  layout::loc m_ll;

  std::string
  next_bad (scon &sc) const
  {
    state &st = sc.get <state> (m_ll);
    return std::string ("x") + std::move (st.m_str);
  }

  std::string
  next_fine (scon &sc) const
  {
    state &st = sc.get <state> (m_ll);
    std::string ret = std::string ("x") + std::move (st.m_str);
    st.m_str = ret;
    return ret;
  }
};

std::string
verif_control_steal (verif_control_steals &s, scon &sc)
{
  return s.next_bad (sc) + s.next_fine (sc);
}
