// Positive control for K9 (the query script is read sequentially): NOT part of dwgrep; the rule must report this function.
#include <istream>
#include <string>

std::string
verif_control_seeks_script (std::istream &is)
{
  is.seekg (0, std::ios::end);
  std::streamoff len = is.tellg ();
  is.seekg (0, std::ios::beg);
  std::string ret (len > 0 ? len : 0, '\0');
  is.read (&ret[0], ret.size ());
  return ret;
}
