"""C13 state lifecycle clause: R2 con/des mirror + slot type agreement, R2d owned chains constructed, L1-L3 layout unions,
Y4 %destructor, Y5 throws through bison's C stack (known findings)."""
import r_life, r_scope
from common import apply, maybe_mutants


def run(prog, rep, tier):
    rep.clause = ("R2: for every class derived from op/stringer (174 incl. instantiations) each reserved state slot is constructed exactly once in "
                  "state_con and destroyed exactly once in state_des (unless trivially destructible), every scon get/con/des/reset on that slot "
                  "uses the reserved type, state_con and state_des forward to the same multiset of sub-chains, and state_con/state_des are called "
                  "nowhere else except the adjacent des-then-con reset; R2d: every sub-chain an op/pred owns is forwarded or run under a scon_guard; "
                  "L1-L3: union alternatives are laid out on private copies of the parent layout, add_union lists exactly those and dominates the "
                  "owner's construction, guards over one union never overlap; S1 (scope per sub-expression: its violation is a use-after-destroy); "
                  "Y4: owning semantic values have a %destructor; Y5: exceptions escaping through bison/flex C frames (listed known findings).")
    rep.not_decided = ("absence of out-of-bounds / use-after-free / undefined arithmetic / invalid casts / leaks in general: these need execution "
                       "under sanitizers and are NOT decided by this check; only the state-lifecycle clause of C13 is.")
    apply(rep, "R2", "con/des mirror and slot type agreement", r_life.r2(prog), 100)
    apply(rep, "R2d", "owned sub-chains are state-constructed", r_life.r2d(prog), 12)
    apply(rep, "L", "layout unions (L1-L3)", r_life.l123(prog), 4)
    apply(rep, "L6", "value classes own every op-graph object they keep (no reference / raw pointer members into a query)", r_life.l6(prog), 10)
    apply(rep, "L5", "a state guard is declared after (destroyed before) the state area and the owner of the ops it tears down", r_life.l5(prog), 3)
    s1 = r_scope.s1(prog)
    apply(rep, "S1", "every sub-expression context opens a scope", (s1[0], s1[1]), 10)
    import r_core
    apply(rep, "P2b", "the type profile that licenses pop_as's static_cast describes the real value types (abstract evaluation)", r_core.p2b(prog, tier), 2)
    apply(rep, "P2c", "stack accessors never read outside the value vector", r_core.p2c(prog), 5)
    apply(rep, "Y4", "%destructor for owning semantic values", r_life.y4(prog), 3)
    apply(rep, "Y5", "no throw through bison/flex C frames", r_life.y5(prog), 2)
    import r_pure as _rpq
    apply(rep, "Q4c", "a copied sequence owns its elements: `add` moves elements out of / appends into storage that no other live value can reach (no null element, no growth behind another holder's back)", _rpq.q4c(prog), 3)
    import r_aset
    h7 = r_aset.h7(prog, tier)
    apply(rep, "M7", "coverage.cc and the address-set words interpreted on every set over a small universe: no access outside a vector, no use (dereference, comparison, erase) of an iterator that an insertion or erasure has invalidated",
          h7 if getattr(h7, "broken", None) else ([i_ for i_ in h7[0] if i_[0].startswith(("H7:coverage::", "H7:word:"))], [f_ for f_ in h7[1] if "(memory error)" in f_["msg"]]), 5)
    maybe_mutants("C13", rep, tier)
