"""C04 assertions do not disturb the stack: A1-A5."""
import r_pred
from common import apply, maybe_mutants


def run(prog, rep, tier):
    rep.clause = ("A1: no override of pred::result (23 incl. instantiations; helpers taking the stack by reference followed) calls a stack-shape "
                  "mutator on the stack it is shown; A2: op_assert::next returns exactly the stack it pulled or nothing; A3: every one of the ~1900 "
                  "?x/!x registrations (macro-expanded, lambdas instantiated per call site) has polarity matching its first character and both "
                  "polarities come from one overload table; A4: operator!(pred_result) is {no->yes, yes->no, fail->fail} and pred_not is built only "
                  "by maybe_invert/build_pred; A5: every origin->set_next gets make_unique<stack>(copy) where the incoming stack must survive, or a "
                  "moved stack not used afterwards; A6: op_subx::next (let, infix operands) and op_capture::next never return the stack that their inner "
                  "chain produced; A7: build_exec/build_pred interpreted from source on a node of every sub-expression kind (?( ), [ ], let/infix operand, "
                  "*, +, if-else, ALT, OR, format splice, block) with every kind of operand (bare and SCOPE-wrapped), every outcome of a name lookup and "
                  "0-2 kept values: the operand's chain is always fed by an origin/tine created for it, never by the incoming stream (only a "
                  "one-value SUBX_EVAL of a literal may be built in place); A1b: in every predicate `result` (stack-level and typed overloads) no assignment goes through, and no member function "
                  "that may modify its object (fixpoint over field writes and mutating container members) is called on, an operand or anything handed out "
                  "by reference/pointer from it (getters, top/get, downcasts, local references); the shared dwfl_context is exempt by name; "
                  "A8: in every function returning pred_result that can write an "
                  "`Error…` message to std::cerr (directly or through a helper that always reports), forward dataflow over its CFG: no return is "
                  "reached with the error reported and a value that is provably yes or no (an erroring predicate answers fail, so neither ?x nor !x holds).")
    rep.not_decided = "that each predicate computes the documented truth value for its operands."
    apply(rep, "A1", "predicates are read-only on their stack", r_pred.a1(prog), 20)
    apply(rep, "A2", "op_assert yields the pulled stack unchanged", r_pred.a2(prog), 1)
    apply(rep, "A3", "?x/!x polarity pairing", r_pred.a3(prog), 2)
    rep.extra["A3_registrations"] = ([i for i in r_pred.a3(prog)[0] if i[0] == "A3:registrations"] or [(None, {"registrations": None})])[0][1]
    if rep.extra["A3_registrations"]["registrations"] is not None and rep.extra["A3_registrations"]["registrations"] < 1500:
        from zw import Broken
        raise Broken("fewer predicate registrations than confirmed by hand (1500)")
    apply(rep, "A4", "negation keeps fail", r_pred.a4(prog), 4)
    apply(rep, "A4b", "three-valued and/or keep fail absorbing", r_pred.a4b(prog), 2)
    apply(rep, "A5", "sub-expressions are fed a copy", r_pred.a5(prog), 10)
    import r_pure
    apply(rep, "Q4c", "stack copies are deep: a copy never aliases storage that `add` mutates in place", r_pure.q4c(prog), 3)
    apply(rep, "A6", "let/infix/capture yield the outer stack, never the sub-expression's", r_pred.a6(prog), 2)
    import r_build
    apply(rep, "A7", "every sub-expression context builds its operand on a stream of its own, never on the incoming stack (abstract evaluation of build_exec)", r_build.a7(prog), 10)
    apply(rep, "A1b", "predicates do not modify the values they are asked about (write-effect fixpoint over member functions; handles derived from operands)", r_pred.a1b(prog), 40)
    import r_core
    apply(rep, "P2b", "after every push/pop/drop the type profile that `?word`/`!word` dispatch on equals the types of the top values (stack class interpreted): `let`, `[ ]` and sub-expressions hand back a stack that dispatches like the one they were given", r_core.p2b(prog, tier), 2)
    import r_stream as _rs7
    r7 = _rs7.r7(prog)
    apply(rep, "R7", "an assertion whose predicate fails for one stack goes on to the next stack (op_assert::next never reports exhaustion after a successful pull)",
          ([i for i in r7[0] if i[0].startswith("R7:op_assert::")], [f for f in r7[1] if f["key"].startswith("R7:op_assert::")]), 1)
    apply(rep, "A8", "a predicate that reports an error answers fail", r_pred.a8(prog), 4)
    import r_stream as _rs
    e9 = _rs.e9(prog, tier)
    if getattr(e9, "broken", None):
        apply(rep, "E9", "assertions, sub-expressions, captures and if-else leave the incoming stack as documented (engine interpreted against the reference semantics)", e9, 1)
    else:
        apply(rep, "E9", "assertions, sub-expressions, captures and if-else leave the incoming stack as documented (engine interpreted against the reference semantics)", ([i for i in e9[0] if i[0] in ('E9:assert', 'E9:subx', 'E9:capture', 'E9:ifelse', 'E9:nested')], [f for f in e9[1] if f["key"] in ('E9:assert', 'E9:subx', 'E9:capture', 'E9:ifelse', 'E9:nested')]), 5)
    import r_front
    apply(rep, "E11", "`?( )`, `!( )`, `[ ]`, `{ } apply`, parentheses and if-then-else written in query text leave the surrounding stack as documented, around every kind of body (front end and engine interpreted against the documented meaning of the notation)", r_front.e11(prog, tier, ("E11:grouping", "E11:ifelse")), 2)
    import r_core as _rc8
    apply(rep, "P8", "a copy of a value is the value, position included: every clone () interpreted on an object with marker fields (stack copies made by `let`, ALT branches and closures leave the values as they are)", _rc8.p8(prog), 10)
    maybe_mutants("C04", rep, tier)
