"""ELF symbol rules (C18): W2 macro/domain pairing, Z1-elf writer/reader tables per machine."""
from zw import walk, walk_nolambda, unwrap, short, Broken, calls, field_chain, expand_locals
from r_scope import switch_groups
from r_tables import reader_table, intval, strval

MACRO_DOM = {"GELF_ST_TYPE": "stt", "GELF_ST_BIND": "stb", "GELF_ST_VISIBILITY": "stv"}


def _macro_family(e):
    for x in walk(e):
        for m in x.get("macs") or []:
            if m in MACRO_DOM:
                return m
    return None


def w2(prog):
    inst, findings = [], []
    n = 0
    for f in prog.funcs.values():
        body = f.get("body")
        if body is None:
            continue
        for x in walk(body):
            val = dom = None
            if x.get("k") in ("ctor", "ilist") and (x.get("c") == "constant" or x.get("t") == "constant") and len(x.get("a", [])) >= 2 and not x.get("cm"):
                val, dom = x["a"][0], x["a"][1]
            elif x.get("k") == "call" and x.get("fn") == "dump_named_constant" and len(x["a"]) >= 3:
                val, dom = x["a"][1], x["a"][2]
            if val is None:
                continue
            val, dom = expand_locals(val, body), expand_locals(dom, body)
            fam = _macro_family(val)
            if fam is None:
                continue
            n += 1
            want = MACRO_DOM[fam]
            d = unwrap(dom)
            if isinstance(d, dict) and d.get("k") == "un" and d.get("op") == "&":
                d = unwrap(d["e"])
            if not (isinstance(d, dict) and d.get("k") == "call"):
                raise Broken("domain argument next to %s at %s is not a call (unmodelled shape)" % (fam, x.get("l")))
            dn = d.get("fn", "")
            key = "W2:%s@%s" % (f["q"], x.get("l"))
            info = {"macro": fam, "domain": dn}
            inst.append((key, info))
            if ("elfsym_" + want) not in dn:
                findings.append({"key": "W2:%s:%s" % (f["q"], fam), "where": x.get("l"),
                                 "msg": "%s renders the field extracted by %s in `%s`; it belongs in the %s domain (symbol %s would be named with another family's constants)" % (f["q"], fam, dn, want.upper(), {"stt": "types", "stb": "bindings", "stv": "visibility"}[want]),
                                 "detail": None})
                continue
            if want == "stv":
                continue
            # machine argument comes from the symbol's own Dwarf context
            margs = d.get("a", [])
            if len(margs) != 1:
                raise Broken("%s called with %d arguments at %s" % (dn, len(margs), x.get("l")))
            m = unwrap(margs[0])
            src = None
            if isinstance(m, dict) and m.get("k") == "call" and m.get("fn") == "get_machine":
                src = "get_machine() of the symbol's dwfl context"
                # same object: root of the get_symbol() call in the value and of get_dwctx() here
                def root_of(call_fn, tree):
                    for y in walk(tree):
                        if y.get("k") == "call" and y.get("fn") == call_fn:
                            o = unwrap(y.get("obj")) if y.get("obj") is not None else {"k": "this"}
                            return short(o)
                    return None
                r1, r2 = root_of("get_symbol", val), root_of("get_dwctx", m)
                info["symbol_object"], info["machine_object"] = r1, r2
                if r1 != r2:
                    findings.append({"key": "W2:%s:%s:machine" % (f["q"], fam), "where": x.get("l"),
                                     "msg": "the machine used to pick the %s domain comes from `%s`, not from the symbol's own context `%s`" % (want.upper(), r2, r1), "detail": None})
            elif isinstance(m, dict) and m.get("k") == "call" and m.get("fn") == "zw_value_dwarf_machine":
                # CLI: machine = zw_value_dwarf_machine (zw_value_elfsym_dwarf (&val)) ; sym = zw_value_elfsym_symbol (&val)
                dwv = unwrap(m["a"][0]) if m.get("a") else None
                ok = isinstance(dwv, dict) and dwv.get("k") == "call" and dwv.get("fn") == "zw_value_elfsym_dwarf"
                symroot = None
                for y in walk(val):
                    if y.get("k") == "call" and y.get("fn") == "zw_value_elfsym_symbol" and y.get("a"):
                        symroot = short(y["a"][0])
                info["symbol_object"], info["machine_object"] = symroot, short(dwv["a"][0]) if ok else None
                ok = ok and symroot is not None and symroot == short(dwv["a"][0])
                if not ok:
                    findings.append({"key": "W2:%s:%s:machine" % (f["q"], fam), "where": x.get("l"),
                                     "msg": "the machine used to pick the %s domain is not derived from the symbol's own Dwarf" % want.upper(), "detail": None})
            elif isinstance(m, dict) and m.get("k") == "mem" and isinstance(unwrap(m.get("b")), dict) and unwrap(m["b"]).get("k") == "this":
                findings.append({"key": "W2:%s:%s:machine" % (f["q"], fam), "where": x.get("l"),
                                 "msg": "the machine that picks the %s domain is taken from the operator's own member `%s`, not from the symbol being rendered: a compiled query is shared by all inputs, so symbols of a later file are named in the first file's constant family" % (want.upper(), m["n"]),
                                 "detail": None})
            else:
                raise Broken("machine argument of %s at %s has an unmodelled shape (%s)" % (dn, x.get("l"), short(m)))
    if n < 6:
        raise Broken("only %d uses of GELF_ST_* found (floor 6)" % n)
    return inst, findings


def z1elf(prog):
    """per-machine ELF constant names round-trip: the WRITER side is obtained by interpreting the code itself - elfsym_stt_dom (machine)
    / elfsym_stb_dom (machine) / elfsym_stv_dom () are called for every machine the vocabulary registers constants for (and machine 0),
    the object they hand out has its show () interpreted on every code of the field (0..15; visibility 0..7) with a modelled stream -
    and joined with the READER side, the vocabulary registrations: a name that show () prints for (machine, code) must be a word that
    denotes exactly that code in that machine's domain."""
    import re
    from cxxobj import CxxEvaluator, Obj, OStream, Ptr, Buf, OutOfBounds
    from absint import Thrown
    inst, findings = [], []
    R, nreg = reader_table(prog)
    sign = {c["n"]: ("enum", c["n"], c["v"]) for e in prog.enums.values() if e["q"] == "signedness" for c in e["consts"]}
    brev = {c["n"]: ("enum", c["n"], c["v"]) for e in prog.enums.values() if e["q"] == "brevity" for c in e["consts"]}
    if set(sign) < {"sign", "unsign"} or "full" not in brev:
        raise Broken("enum signedness / brevity vanished")

    def cstr(x):
        if isinstance(x, (Ptr, Buf)):
            p_ = x if isinstance(x, Ptr) else Ptr(x, 0)
            cells, out, k = p_.cells(), "", p_.off
            while k < len(cells) and cells[k] not in (0, None):
                out += chr(cells[k] & 0xff)
                k += 1
            return out
        return str(x)

    def sprintf(ev, o, a):
        fmt, args, out, k = cstr(a[1]), list(a[2:]), "", 0
        for m in re.finditer(r"%(#?)([dxs])|%%|[^%]+", fmt):
            t = m.group(0)
            if t == "%%":
                out += "%"
            elif t.startswith("%") and m.group(2):
                v = args[k] if k < len(args) else 0
                k += 1
                out += cstr(v) if m.group(2) == "s" else (("%#x" if m.group(1) else "%x") % int(v) if m.group(2) == "x" else "%d" % int(v))
            else:
                out += t
        dst = a[0] if isinstance(a[0], Ptr) else Ptr(a[0], 0)
        cells = dst.cells()
        if dst.off + len(out) + 1 > len(cells):
            raise OutOfBounds("sprintf writes %d bytes into a buffer of %d" % (len(out) + 1, len(cells) - dst.off))
        for n_, ch in enumerate(out + "\0"):
            cells[dst.off + n_] = ord(ch)
        return len(out)
    ev = CxxEvaluator({"sprintf": sprintf}, {}, prog=prog)

    def cls_of(obj):
        return getattr(obj, "_cls", None) or getattr(obj, "_t", None)

    def render(obj, code):
        f = ev._resolve_virtual(cls_of(obj), "show", 3)
        if f is None:
            raise Broken("%s has no show (value, stream, brevity)" % cls_of(obj))
        m = Obj("mpz_class")
        m.m_u, m.m_i, m.m_sign = code, code, sign["unsign"]
        os_ = OStream()
        ev.steps = 0
        ev.call(f, obj, [m, os_, brev["full"]])
        return "".join(str(x) for x in os_.out)
    named = re.compile(r"^[A-Z]+_[A-Za-z0-9_]+$")
    total = 0
    try:
        for fam in ("stt", "stb"):
            sel = prog.func_opt("elfsym_%s_dom" % fam)
            if sel is None or sel.get("body") is None:
                raise Broken("anchor elfsym_%s_dom vanished" % fam)
            # every e_machine number there is (EM_* are below 260) and whatever the vocabulary mentions: the machines with a domain of
            # their own are those for which the selector hands out another class than for machine 0
            machines = sorted({r[1][1][0] for rs in R.values() for r in rs if r[1][0] == "elfsym_%s_dom" % fam and r[1][1]} | set(range(0, 264)))
            generic = None
            generic_cls = None
            for machine in machines:
                obj = ev.call(sel, None, [machine])
                if cls_of(obj) is None:
                    raise Broken("elfsym_%s_dom (%d) does not hand out a domain object" % (fam, machine))
                if machine == 0:
                    generic_cls = cls_of(obj)
                elif cls_of(obj) == generic_cls:
                    continue
                table = {code: render(obj, code) for code in range(16)}
                if machine == 0:
                    generic = table
                own = {c: t for c, t in table.items() if named.match(t) and (machine == 0 or generic is None or generic.get(c) != t)}
                bad = 0
                for v, name in sorted(own.items()):
                    got = [r for r in R.get(name, []) if r[1][0] == "elfsym_%s_dom" % fam]
                    key = "Z1e:%s:%s" % (cls_of(obj).split("::")[-1], name)
                    if not got:
                        findings.append({"key": key, "where": "libzwerg/" + sel["l"], "msg": "%s renders %d as `%s` but the vocabulary has no such word in the %s domain" % (cls_of(obj), v, name, fam.upper()), "detail": None})
                        bad += 1
                    elif got[0][0] != v or got[0][1][1] != (machine,):
                        findings.append({"key": key, "where": got[0][2],
                                         "msg": "`%s` renders value %d for machine %d but the word denotes value %d in the domain of machine %s" % (name, v, machine, got[0][0], got[0][1][1]), "detail": None})
                        bad += 1
                total += len(own)
                inst.append(("Z1e:%s:%s" % (fam, cls_of(obj).split("::")[-1]), {"machine": machine, "constants": len(own), "mismatches": bad}))
        selv = prog.func_opt("elfsym_stv_dom")
        if selv is None or selv.get("body") is None:
            raise Broken("anchor elfsym_stv_dom vanished")
        obj = ev.call(selv, None, [])
        cnt = 0
        for code in range(8):
            name = render(obj, code)
            if not named.match(name):
                continue
            cnt += 1
            got = [r for r in R.get(name, []) if r[1][0] == "elfsym_stv_dom"]
            if not got or got[0][0] != code:
                findings.append({"key": "Z1e:stv:" + name, "where": "libzwerg/" + selv["l"], "msg": "`%s` (%d) does not round-trip through the vocabulary" % (name, code), "detail": None})
        inst.append(("Z1e:stv", {"constants": cnt}))
        total += cnt
    except (OutOfBounds, Thrown) as x:
        raise Broken("the ELF constant domains cannot be evaluated: %s" % x)
    if total < 20:
        raise Broken("only %d named ELF symbol constants rendered (floor 20)" % total)
    return inst, findings


def w2b(prog):
    """every constant placed in an ELF symbol domain takes its value through the matching GELF_ST_* extraction macro
    (a raw st_info / st_other byte carries other fields as well)"""
    inst, findings = [], []
    n = 0
    for f in prog.funcs.values():
        rel = prog.rel(f["file"])
        if not (rel.startswith("libzwerg/") or rel.startswith("dwgrep/")) or "/test-" in rel or f["q"].startswith("dwgrep_vocabulary"):
            continue
        for x in walk(f.get("body")):
            val = dom = None
            if x.get("k") in ("ctor", "ilist") and (x.get("c") == "constant" or x.get("t") == "constant") and len(x.get("a", [])) >= 2 and not x.get("cm"):
                val, dom = x["a"][0], x["a"][1]
            elif x.get("k") == "call" and x.get("fn") == "dump_named_constant" and len(x["a"]) >= 3:
                val, dom = x["a"][1], x["a"][2]
            if val is None:
                continue
            val, dom = expand_locals(val, f.get("body")), expand_locals(dom, f.get("body"))
            d = unwrap(dom)
            if isinstance(d, dict) and d.get("k") == "un" and d.get("op") == "&":
                d = unwrap(d["e"])
            dn = d.get("fn", "") if isinstance(d, dict) and d.get("k") == "call" else ""
            fam = None
            for k in ("stt", "stb", "stv"):
                if "elfsym_" + k in dn:
                    fam = k
            if fam is None:
                continue
            fields = {y["n"] for y in walk(val) if y.get("k") == "mem" and y["n"] in ("st_info", "st_other")}
            if not fields:
                continue      # not built from a symbol-table entry (e.g. a literal in the vocabulary)
            n += 1
            mac = _macro_family(val)
            key = "W2b:%s@%s" % (f["q"], x.get("l"))
            inst.append((key, {"domain": fam, "macro": mac, "fields": sorted(fields)}))
            if mac is None or MACRO_DOM[mac] != fam:
                findings.append({"key": "W2b:%s:%s" % (f["q"], fam), "where": x.get("l"),
                                 "msg": "%s builds an %s constant from the raw %s byte without %s: the byte also carries %s, so symbols with those bits set get a value that equals none of the named constants" % (
                                     f["q"], fam.upper(), "/".join(sorted(fields)),
                                     {"stt": "GELF_ST_TYPE", "stb": "GELF_ST_BIND", "stv": "GELF_ST_VISIBILITY"}[fam],
                                     "the binding/type nibble" if fam in ("stt", "stb") else "processor-specific flag bits"),
                                 "detail": None})
    if n < 5:
        raise Broken("only %d ELF-domain constants built from symbol fields found (floor 5)" % n)
    return inst, findings


# ---------------------------------------------------------------------------
# W3: completeness and order of `symbol`, by evaluating symbol_producer (constructor, next_module, next) and the module
# iterator it walks (dwit.cc) from their source against an abstract libdwfl: a list of modules, each with a symbol count.
# The producer touches the tables only through counts and indices, so module lists with the counts {0, 1, 2, 3} in
# every order up to three modules realise all its comparisons (first/last index, empty table, table following a longer
# or a shorter one, no module at all).

def w3(prog, tier="quick"):
    import itertools
    from cxxobj import CxxEvaluator, Struct, Obj, OutOfBounds, Ptr, VarPtr
    from absint import Thrown
    inst, findings = [], []
    cls = "(anonymous namespace)::symbol_producer"
    ctors = [f for f in prog.funcs.values() if f.get("cls") == cls and f["n"] == "symbol_producer" and f.get("body") is not None]
    nexts = [f for f in prog.funcs.values() if f.get("cls") == cls and f["n"] == "next" and f.get("body") is not None]
    if len(ctors) != 1 or len(nexts) != 1:
        raise Broken("anchor symbol_producer (constructor / next) vanished")
    SYM_FIELDS = ["st_name", "st_info", "st_other", "st_shndx", "st_value", "st_size"]

    class Mod:
        def __init__(self, k, n):
            self.k, self.n = k, n

        @property
        def addr(self):
            return 0x1000 + self.k

        def __repr__(self):
            return "module%d(%d symbols)" % (self.k, self.n)

    class Dwfl:
        def __init__(self, counts):
            self.mods = [Mod(k, n) for k, n in enumerate(counts)]

        @property
        def addr(self):
            return 0x10

    def getmodules(ev, o, a):
        dwfl, cb, arg, off = a
        off = int(off)
        while 0 <= off < len(dwfl.mods):
            rc = ev.call(cb, None, [dwfl.mods[off], None, Ptr([ord("m"), 0], 0), 0, arg])
            off += 1
            if isinstance(rc, tuple):
                rc = rc[2]
            if rc != 0:          # DWARF_CB_ABORT: stop and report where to resume
                return off
        return 0

    def getsym_info(ev, o, a):
        mod, idx = a[0], int(a[1])
        if not isinstance(mod, Mod):
            raise OutOfBounds("dwfl_module_getsym_info on a null module")
        if not (0 <= idx < mod.n):
            return None                      # libdwfl reports an error for an index outside the table
        sym = a[2]
        if isinstance(sym, Struct):
            for f_ in SYM_FIELDS:
                setattr(sym, f_, 0)
            sym.st_value = (mod.k << 16) | idx
            sym.st_size = idx + 1
        for p in a[3:]:
            if isinstance(p, VarPtr):
                p.store(0)
        return Ptr([ord(c) for c in "s%d_%d" % (mod.k, idx)] + [0], 0)

    def mk_symbol(ev, o, a):
        dwctx, sym, name, symidx, pos, d = a
        return {"st_value": sym.st_value if isinstance(sym, Struct) else None, "name": name.cstr() if isinstance(name, Ptr) else None,
                "symidx": symidx, "pos": pos}

    def thrower(ev, o, a):
        raise Thrown("libdwfl error")
    dwctx = Obj("dwfl_context")
    hooks = {
        "dwfl_context::get_dwfl": lambda ev, o, a: o.dwfl,
        "dwfl_getmodules": getmodules,
        "dwfl_module_getsymtab": lambda ev, o, a: a[0].n if isinstance(a[0], Mod) else (_ for _ in ()).throw(OutOfBounds("dwfl_module_getsymtab on a null module")),
        "dwfl_module_getsym_info": getsym_info,
        "throw_libdwfl": thrower,
        "std::make_unique<value_symbol*": mk_symbol,
    }
    ev = CxxEvaluator(hooks, {}, prog=prog, structs={"Elf64_Sym": SYM_FIELDS})
    cfgs = [()]
    vals = (0, 1, 2, 3) if tier == "thorough" else (0, 1, 3)
    for n in (1, 2, 3):
        cfgs += list(itertools.product(vals, repeat=n))
    key = "W3:symbol_producer"
    n_eval = 0
    for counts in cfgs:
        dwctx.dwfl = Dwfl(counts)
        want = [(k, i) for k, n in enumerate(counts) for i in range(n)]
        what = "`symbol` on a file with symbol tables of %s entries" % (list(counts),)
        try:
            prod = ev.construct(ctors[0], Obj(cls), [dwctx, ("enum", "raw", 0)])
            got = []
            for _ in range(len(want) + 3):
                v = ev.call(nexts[0], prod, [])
                n_eval += 1
                if v is None:
                    break
                got.append(v)
            else:
                findings.append({"key": key, "where": "libzwerg/" + nexts[0]["l"], "msg": "%s keeps yielding after all %d entries were reported" % (what, len(want)), "detail": None})
                break
            again = ev.call(nexts[0], prod, [])
        except OutOfBounds as x:
            findings.append({"key": key, "where": "libzwerg/" + nexts[0]["l"], "msg": "%s: %s" % (what, x), "detail": None})
            break
        except Thrown as x:
            findings.append({"key": key, "where": "libzwerg/" + nexts[0]["l"], "msg": "%s raises an error (%s) although every table is readable" % (what, x), "detail": None})
            break
        seq = [(g["st_value"] >> 16, g["st_value"] & 0xffff) if g["st_value"] is not None else None for g in got]
        prob = None
        if seq != want:
            missing = [w for w in want if w not in seq]
            prob = "yields the entries (table, index) %s; the tables hold %s%s" % (seq, want, (": %d entries are never reported" % len(missing)) if missing else "")
        elif [g["pos"] for g in got] != list(range(len(got))):
            prob = "numbers its results %s instead of 0, 1, 2, ..." % [g["pos"] for g in got]
        elif [g["symidx"] for g in got] != [i for _, i in want]:
            prob = "reports the table indices %s for the entries %s" % ([g["symidx"] for g in got], want)
        elif [g["name"] for g in got] != ["s%d_%d" % w for w in want]:
            prob = "pairs entries with the wrong names: %s" % [g["name"] for g in got]
        elif again is not None:
            prob = "yields another value after it reported exhaustion"
        if prob:
            findings.append({"key": key, "where": "libzwerg/" + nexts[0]["l"], "msg": "%s %s" % (what, prob), "detail": None})
            break
    inst.append((key, {"module_lists": len(cfgs), "next_calls": n_eval}))
    return inst, findings


# ---------------------------------------------------------------------------
# W4: the per-symbol words report the stored fields

def w4(prog):
    """name, label (type), binding, visibility, address/value, size on an abstract symbol, interpreted from source (GELF_ST_* macros
    expand to plain shifts and masks, so the typed evaluator decides them): each word yields the field stored in the GElf_Sym, type and
    binding in the constant family selected by the machine of the symbol's own file."""
    from cxxobj import CxxEvaluator, Obj, Struct, Sym, StdStr, OutOfBounds
    from absint import Thrown
    inst, findings = [], []

    def one(q):
        fs = [f for f in prog.funcs.values() if f["q"] == q and f.get("body") is not None]
        if len(fs) != 1:
            raise Broken("anchor %s vanished" % q)
        return fs[0]
    words = {"name": one("op_name_symbol::operate"), "label": one("op_label_symbol::operate"), "binding": one("op_binding_symbol::operate"),
             "visibility": one("op_visibility_symbol::operate"), "address": one("op_address_symbol::operate"), "size": one("op_size_symbol::operate")}
    hooks = {
        "elfsym_stt_dom": lambda ev, o, a: ("stt", a[0]), "elfsym_stb_dom": lambda ev, o, a: ("stb", a[0]), "elfsym_stv_dom": lambda ev, o, a: ("stv", None),
        "dw_address_dom": lambda ev, o, a: ("address", None),
        "dwfl_context::get_machine": lambda ev, o, a: o.machine,
    }
    ev = CxxEvaluator(hooks, {"dec_constant_dom": ("dec", None)}, prog=prog)

    def cst(v):
        c = getattr(v, "m_cst", None) if not hasattr(v, "m_value") else v
        val = getattr(c, "m_value", None)
        return (getattr(val, "m_u", val), getattr(c, "m_dom", None))
    seen = set()
    n = 0
    ops = {w: ev.new_object(f["cls"]) for w, f in words.items()}       # one operator object serves every file, as in a compiled query
    for machine in (3, 183):
        for typ, bind, vis_flags, value, size in ((2, 1, 0, 0x401000, 42), (10, 10, 0xe3, (1 << 64) - 8, 0), (0, 0, 0x60, 0, 1 << 40)):
            sym = Struct("Elf64_Sym", {"st_name": 5, "st_info": (bind << 4) | typ, "st_other": vis_flags, "st_shndx": 1, "st_value": value, "st_size": size})
            dwctx = Obj("dwfl_context")
            dwctx.machine = machine
            v = Obj("value_symbol")
            v.m_dwctx, v.m_symbol, v.m_name, v.m_symidx, v.m_pos = dwctx, sym, StdStr(b"main"), 3, 7
            v.m_doneness = ("enum", "cooked", 0)
            exp = {"label": (typ, ("stt", machine)), "binding": (bind, ("stb", machine)), "visibility": (vis_flags & 3, ("stv", None)),
                   "address": (value, ("address", None)), "size": (size, ("dec", None))}
            for w, f in words.items():
                n += 1
                try:
                    r = ev.call(f, ops[w], [v])
                except (OutOfBounds, Thrown) as x:
                    raise Broken("`%s` on a symbol cannot be evaluated: %s" % (w, x))
                key = "W4:" + w
                if w == "name":
                    s_ = getattr(r, "m_str", None)
                    ok = isinstance(s_, StdStr) and s_.b == b"main"
                    got = s_.b if isinstance(s_, StdStr) else r
                else:
                    got = cst(r)
                    ok = got == exp[w]
                if not ok and key not in seen:
                    seen.add(key)
                    findings.append({"key": key, "where": "libzwerg/" + f["l"],
                                     "msg": "`%s` of a symbol with st_info=%#x st_other=%#x st_value=%#x st_size=%d in a file of machine %d yields %s; stored is %s" % (
                                         w, sym.st_info, sym.st_other, value, size, machine, got, exp.get(w, "main")), "detail": None})
    for w in words:
        inst.append(("W4:" + w, {"evaluations": n // len(words)}))
    return inst, findings


def w5(prog):
    """which constants of a per-machine symbol-type / binding domain are machine-specific: `most_enclosing` of every per-machine STT and
    STB domain class (macro-generated, one per architecture) interpreted from source on the codes 0..15 of the 4-bit fields: codes
    below STT_LOOS / STB_LOOS (10) belong to the generic ELF domain - equal across machines - and every code from LOOS through HIPROC
    (15, inclusive) stays in the machine's own domain, so that e.g. STT_ARM_16BIT never equals code 15 of another machine."""
    from cxxobj import CxxEvaluator, Obj, OutOfBounds
    from absint import Thrown
    inst, findings = [], []
    fs = [f for f in prog.funcs.values() if f["n"] == "most_enclosing" and f.get("body") is not None and prog.rel(f["file"]) == "libzwerg/value-symbol.cc"]
    if len(fs) < 4:
        raise Broken("only %d per-machine most_enclosing overrides found in value-symbol.cc (floor 4)" % len(fs))
    sign = {c["n"]: ("enum", c["n"], c["v"]) for e in prog.enums.values() if e["q"] == "signedness" for c in e["consts"]}
    if set(sign) < {"sign", "unsign"}:
        raise Broken("enum signedness vanished")
    hooks = {"elfsym_stt_dom": lambda ev, o, a: ("generic", "stt", int(a[0])), "elfsym_stb_dom": lambda ev, o, a: ("generic", "stb", int(a[0]))}
    ev = CxxEvaluator(hooks, {}, prog=prog)
    for f in sorted(fs, key=lambda f: f["fid"]):
        cls = f.get("cls", "?")
        key = "W5:" + cls.split("::")[-1]
        this = Obj(cls)
        bad = None
        for v in range(0, 16):
            for sg in ("unsign", "sign"):
                m = Obj("mpz_class")
                m.m_u, m.m_i, m.m_sign = v, v, sign[sg]
                try:
                    r = ev.call(f, this, [m])
                except (OutOfBounds, Thrown) as x:
                    raise Broken("%s::most_enclosing cannot be evaluated: %s" % (cls, x))
                generic = isinstance(r, tuple) and r and r[0] == "generic"
                if generic and r[2] != 0:
                    bad = bad or "code %d is placed in the domain of machine %d" % (v, r[2])
                want_generic = v < 10
                if generic != want_generic and bad is None:
                    bad = "code %d is %s" % (v, "treated as generic although it lies in the OS/processor-specific range 10..15: it would compare equal to the same code of any other machine"
                                             if generic else "kept machine-specific although it is a generic ELF code: the same type/binding of two machines would compare unequal")
                if not generic and r is not this and bad is None:
                    bad = "code %d is placed in another object than the domain itself" % v
        inst.append((key, {"codes": 16}))
        if bad:
            findings.append({"key": key, "where": "libzwerg/" + f["l"], "msg": "%s: %s" % (cls.split("::")[-1], bad), "detail": None})
    return inst, findings
