"""ELF symbol rules (C18): W2 macro/domain pairing, Z1-elf writer/reader tables per machine."""
from zw import walk, walk_nolambda, unwrap, short, Broken, calls, field_chain
from r_scope import switch_groups
from r_tables import reader_table, intval, strval

MACRO_DOM = {"GELF_ST_TYPE": "stt", "GELF_ST_BIND": "stb", "GELF_ST_VISIBILITY": "stv"}


def _macro_family(e):
    for x in walk(e):
        for m in x.get("macs") or []:
            if m in MACRO_DOM:
                return m
    return None


def w2(prog):
    inst, findings = [], []
    n = 0
    for f in prog.funcs.values():
        body = f.get("body")
        if body is None:
            continue
        for x in walk(body):
            val = dom = None
            if x.get("k") in ("ctor", "ilist") and (x.get("c") == "constant" or x.get("t") == "constant") and len(x.get("a", [])) >= 2 and not x.get("cm"):
                val, dom = x["a"][0], x["a"][1]
            elif x.get("k") == "call" and x.get("fn") == "dump_named_constant" and len(x["a"]) >= 3:
                val, dom = x["a"][1], x["a"][2]
            if val is None:
                continue
            fam = _macro_family(val)
            if fam is None:
                continue
            n += 1
            want = MACRO_DOM[fam]
            d = unwrap(dom)
            if isinstance(d, dict) and d.get("k") == "un" and d.get("op") == "&":
                d = unwrap(d["e"])
            if not (isinstance(d, dict) and d.get("k") == "call"):
                raise Broken("domain argument next to %s at %s is not a call (unmodelled shape)" % (fam, x.get("l")))
            dn = d.get("fn", "")
            key = "W2:%s@%s" % (f["q"], x.get("l"))
            info = {"macro": fam, "domain": dn}
            inst.append((key, info))
            if ("elfsym_" + want) not in dn:
                findings.append({"key": "W2:%s:%s" % (f["q"], fam), "where": x.get("l"),
                                 "msg": "%s renders the field extracted by %s in `%s`; it belongs in the %s domain (symbol %s would be named with another family's constants)" % (f["q"], fam, dn, want.upper(), {"stt": "types", "stb": "bindings", "stv": "visibility"}[want]),
                                 "detail": None})
                continue
            if want == "stv":
                continue
            # machine argument comes from the symbol's own Dwarf context
            margs = d.get("a", [])
            if len(margs) != 1:
                raise Broken("%s called with %d arguments at %s" % (dn, len(margs), x.get("l")))
            m = unwrap(margs[0])
            src = None
            if isinstance(m, dict) and m.get("k") == "call" and m.get("fn") == "get_machine":
                src = "get_machine() of the symbol's dwfl context"
                # same object: root of the get_symbol() call in the value and of get_dwctx() here
                def root_of(call_fn, tree):
                    for y in walk(tree):
                        if y.get("k") == "call" and y.get("fn") == call_fn:
                            o = unwrap(y.get("obj")) if y.get("obj") is not None else {"k": "this"}
                            return short(o)
                    return None
                r1, r2 = root_of("get_symbol", val), root_of("get_dwctx", m)
                info["symbol_object"], info["machine_object"] = r1, r2
                if r1 != r2:
                    findings.append({"key": "W2:%s:%s:machine" % (f["q"], fam), "where": x.get("l"),
                                     "msg": "the machine used to pick the %s domain comes from `%s`, not from the symbol's own context `%s`" % (want.upper(), r2, r1), "detail": None})
            elif isinstance(m, dict) and m.get("k") == "ref" and m.get("d") == "local":
                # CLI: machine = zw_value_dwarf_machine (zw_value_elfsym_dwarf (&val)) ; sym = zw_value_elfsym_symbol (&val)
                decls = {v["id"]: v for y in walk(body) if y.get("k") == "decl" for v in y["vars"]}
                mi = unwrap(decls[m["id"]].get("init")) if m["id"] in decls else None
                ok = isinstance(mi, dict) and mi.get("fn") == "zw_value_dwarf_machine"
                if ok:
                    dwv = unwrap(mi["a"][0])
                    di = unwrap(decls[dwv["id"]].get("init")) if isinstance(dwv, dict) and dwv.get("id") in decls else None
                    ok = isinstance(di, dict) and di.get("fn") == "zw_value_elfsym_dwarf"
                    symroot = None
                    for y in walk(val):
                        if y.get("k") == "ref" and y.get("id") in decls:
                            si = unwrap(decls[y["id"]].get("init"))
                            if isinstance(si, dict) and si.get("fn") == "zw_value_elfsym_symbol":
                                symroot = short(si["a"][0])
                    info["symbol_object"], info["machine_object"] = symroot, short(di["a"][0]) if ok else None
                    ok = ok and symroot == short(di["a"][0])
                if not ok:
                    findings.append({"key": "W2:%s:%s:machine" % (f["q"], fam), "where": x.get("l"),
                                     "msg": "the machine used to pick the %s domain is not derived from the symbol's own Dwarf" % want.upper(), "detail": None})
            elif isinstance(m, dict) and m.get("k") == "mem" and isinstance(unwrap(m.get("b")), dict) and unwrap(m["b"]).get("k") == "this":
                findings.append({"key": "W2:%s:%s:machine" % (f["q"], fam), "where": x.get("l"),
                                 "msg": "the machine that picks the %s domain is taken from the operator's own member `%s`, not from the symbol being rendered: a compiled query is shared by all inputs, so symbols of a later file are named in the first file's constant family" % (want.upper(), m["n"]),
                                 "detail": None})
            else:
                raise Broken("machine argument of %s at %s has an unmodelled shape (%s)" % (dn, x.get("l"), short(m)))
    if n < 6:
        raise Broken("only %d uses of GELF_ST_* found (floor 6)" % n)
    return inst, findings


def z1elf(prog):
    inst, findings = [], []
    R, nreg = reader_table(prog)
    # machine -> class, from elfsym_stX_dom (int machine)
    for fam in ("stt", "stb"):
        sel = prog.func_opt("elfsym_%s_dom" % fam)
        if sel is None:
            raise Broken("anchor elfsym_%s_dom vanished" % fam)
        sw = [x for x in walk(sel["body"]) if x.get("k") == "switch"]
        classes = {}
        if sw:
            for labels, stmts in switch_groups(sw[0]):
                cl = [v["t"] for s in stmts for y in walk(s) if y.get("k") == "decl" for v in y["vars"] if v.get("static")]
                for l in labels:
                    if l != "default" and cl:
                        classes[intval(l)] = cl[0]
        base = [v["t"] for y in walk_nolambda(sel["body"]) if y.get("k") == "decl" for v in y["vars"] if v.get("static") and v["t"] not in classes.values()]
        if len(base) != 1:
            raise Broken("generic %s domain object not found" % fam)
        classes[0] = base[0]     # EM_NONE
        for machine, cls in sorted(classes.items()):
            shows = [g for g in prog.funcs.values() if g.get("cls") == cls and g["n"] == "show"]
            if len(shows) != 1:
                raise Broken("%s::show not found" % cls)
            sws = [x for x in walk(shows[0]["body"]) if x.get("k") == "switch"]
            if len(sws) != 1:
                raise Broken("%s::show is not one switch" % cls)
            table = {}
            for labels, stmts in switch_groups(sws[0]):
                cs = [c for s in stmts for c in calls(s) if c.get("fn") == "show" and len(c["a"]) == 4]
                for l in labels:
                    if l == "default" or not cs:
                        continue
                    pfx, name = strval(cs[0]["a"][0]), strval(cs[0]["a"][1])
                    table[intval(l)] = "%s_%s" % (pfx, name)
            bad = 0
            for v, name in sorted(table.items()):
                got = [r for r in R.get(name, []) if r[1][0] == "elfsym_%s_dom" % fam]
                key = "Z1e:%s:%s" % (cls.split("::")[-1], name)
                if not got:
                    findings.append({"key": key, "where": shows[0]["l"], "msg": "%s renders %d as `%s` but the vocabulary has no such word in the %s domain" % (cls, v, name, fam.upper()), "detail": None})
                    bad += 1
                elif got[0][0] != v or got[0][1][1] != (machine,):
                    findings.append({"key": key, "where": got[0][2],
                                     "msg": "`%s` renders value %d for machine %d but the word denotes value %d in the domain of machine %s" % (name, v, machine, got[0][0], got[0][1][1]), "detail": None})
                    bad += 1
            inst.append(("Z1e:%s:%s" % (fam, cls.split("::")[-1]), {"machine": machine, "constants": len(table), "mismatches": bad}))
    # visibility
    sh = [g for g in prog.funcs.values() if g.get("cls", "").endswith("elfsym_stv_dom_t") and g["n"] == "show"]
    if len(sh) != 1:
        raise Broken("elfsym_stv_dom_t::show not found")
    sws = [x for x in walk(sh[0]["body"]) if x.get("k") == "switch"][0]
    cnt = 0
    for labels, stmts in switch_groups(sws):
        cs = [c for s in stmts for c in calls(s) if c.get("fn") == "show" and len(c["a"]) == 4]
        for l in labels:
            if l == "default" or not cs:
                continue
            name = "%s_%s" % (strval(cs[0]["a"][0]), strval(cs[0]["a"][1]))
            cnt += 1
            got = [r for r in R.get(name, []) if r[1][0] == "elfsym_stv_dom"]
            if not got or got[0][0] != intval(l):
                findings.append({"key": "Z1e:stv:" + name, "where": sh[0]["l"], "msg": "`%s` (%d) does not round-trip through the vocabulary" % (name, intval(l)), "detail": None})
    inst.append(("Z1e:stv", {"constants": cnt}))
    return inst, findings


def w2b(prog):
    """every constant placed in an ELF symbol domain takes its value through the matching GELF_ST_* extraction macro
    (a raw st_info / st_other byte carries other fields as well)"""
    inst, findings = [], []
    n = 0
    for f in prog.funcs.values():
        rel = prog.rel(f["file"])
        if not (rel.startswith("libzwerg/") or rel.startswith("dwgrep/")) or "/test-" in rel or f["q"].startswith("dwgrep_vocabulary"):
            continue
        for x in walk(f.get("body")):
            val = dom = None
            if x.get("k") in ("ctor", "ilist") and (x.get("c") == "constant" or x.get("t") == "constant") and len(x.get("a", [])) >= 2 and not x.get("cm"):
                val, dom = x["a"][0], x["a"][1]
            elif x.get("k") == "call" and x.get("fn") == "dump_named_constant" and len(x["a"]) >= 3:
                val, dom = x["a"][1], x["a"][2]
            if val is None:
                continue
            d = unwrap(dom)
            if isinstance(d, dict) and d.get("k") == "un" and d.get("op") == "&":
                d = unwrap(d["e"])
            dn = d.get("fn", "") if isinstance(d, dict) and d.get("k") == "call" else ""
            fam = None
            for k in ("stt", "stb", "stv"):
                if "elfsym_" + k in dn:
                    fam = k
            if fam is None:
                continue
            fields = {y["n"] for y in walk(val) if y.get("k") == "mem" and y["n"] in ("st_info", "st_other")}
            if not fields:
                continue      # not built from a symbol-table entry (e.g. a literal in the vocabulary)
            n += 1
            mac = _macro_family(val)
            key = "W2b:%s@%s" % (f["q"], x.get("l"))
            inst.append((key, {"domain": fam, "macro": mac, "fields": sorted(fields)}))
            if mac is None or MACRO_DOM[mac] != fam:
                findings.append({"key": "W2b:%s:%s" % (f["q"], fam), "where": x.get("l"),
                                 "msg": "%s builds an %s constant from the raw %s byte without %s: the byte also carries %s, so symbols with those bits set get a value that equals none of the named constants" % (
                                     f["q"], fam.upper(), "/".join(sorted(fields)),
                                     {"stt": "GELF_ST_TYPE", "stb": "GELF_ST_BIND", "stv": "GELF_ST_VISIBILITY"}[fam],
                                     "the binding/type nibble" if fam in ("stt", "stb") else "processor-specific flag bits"),
                                 "detail": None})
    if n < 5:
        raise Broken("only %d ELF-domain constants built from symbol fields found (floor 5)" % n)
    return inst, findings
