"""C17 location lists: X1 operand table exhaustiveness against DWARF 5, X2 ?OP_x scans all operations."""
import r_tables
from common import apply, maybe_mutants


def run(prog, rep, tier):
    rep.clause = ("X1: for every DW_OP_* enumerator of the system dwarf.h (177), the number (and signedness) of operand values that "
                  "locexpr_op_values<0>/<1> yield (read from the switch: single_constant/two_constants/select<N>/null_producer, GNU case ranges "
                  "expanded) equals the DWARF 5 operand table frozen in the checker; X2: ?OP_x on an element loops over [0, exprlen) comparing atoms.")
    rep.not_decided = ("order of ranges, offsets, `length` = number of `elem`, abbreviation/DIE agreement (dwpp_abbrev_offset reads a libdw-private "
                       "layout); these depend on libdw results for the input.")
    rep.assumptions.append("DWARF 5 section 7.7.1 operand table as transcribed in rules/r_tables.py (OP_TABLE); size+block operands count as one value")
    apply(rep, "X1", "operand decoding covers every DW_OP of dwarf.h", r_tables.x1(prog), 150)
    apply(rep, "U2", "seen-lists that are binary-searched are kept sorted", r_tables.u2(prog), 2)
    apply(rep, "X2", "?OP_x scans all operations of an element", r_tables.x2(prog), 1)
    maybe_mutants("C17", rep, tier)
