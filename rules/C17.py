"""C17 location lists: X1 operand table exhaustiveness against DWARF 5, X3 element/operation laws by source evaluation, U2 sorted seen-lists."""
import r_tables
import r_dw
from common import apply, maybe_mutants


def run(prog, rep, tier):
    rep.clause = ("X1: for every DW_OP_* enumerator of the system dwarf.h (177), the number (and signedness) of operand values that "
                  "locexpr_op_values<0>/<1> yield (read from the switch: single_constant/two_constants/select<N>/null_producer, GNU case ranges "
                  "expanded) equals the DWARF 5 operand table frozen in the checker; X3: locexpr_producer::next, the elem/relem producer and the words "
                  "length, address, offset, label, ?OP_x (on elements and on operations), interpreted from their source against an abstract "
                  "dwarf_getlocations (lists of 0-3 entries with ordinary, empty and 0..-1 ranges and 0-3 operations each): every entry libdw "
                  "serves is yielded once, in stored order, numbered from 0, with its own range and operations; length = number of elem results; "
                  "relem = elem reversed; offset/label report the stored offset/opcode in their domains; ?OP_x holds iff some operation has the "
                  "opcode; address is exactly the range; X4: `abbrev entry` (dwarf_getabbrev's offset/length/end-sentinel protocol), `attribute`, `code`, "
                  "`label`, `offset`, `form`, `?haschildren`, `?AT_x` on abbreviations, interpreted against abstract tables of 0-3 abbreviations with "
                  "0-2 attributes: every abbreviation and attribute exactly once, in order, numbered from 0, with the stored fields.")
    rep.not_decided = ("what libdw itself returns for a given file; abbreviation/DIE agreement.")
    rep.assumptions.append("libdw's private struct Dwarf_Abbrev begins with `Dwarf_Off offset` (dwpp_abbrev_offset reinterprets the storage; the abstract abbreviation answers a reinterpretation as Dwarf_Off& with its offset and nothing else); dwarf_getabbrevattr reports attribute offsets as abbreviation offset + distance from the first attribute and fails for an index past the last attribute")
    rep.assumptions.append("DWARF 5 section 7.7.1 operand table as transcribed in rules/r_tables.py (OP_TABLE); size+block operands count as one value")
    apply(rep, "X1", "operand decoding covers every DW_OP of dwarf.h", r_tables.x1(prog), 150)
    apply(rep, "U2", "seen-lists that are binary-searched are kept sorted", r_tables.u2(prog), 2)
    apply(rep, "X3", "location-list elements, their operations and the words on them (source evaluation against an abstract libdw)", r_dw.x3(prog, tier), 9)
    apply(rep, "X4", "abbreviation tables and the words on abbreviations (source evaluation against an abstract libdw)", r_dw.x4(prog), 10)
    apply(rep, "X5", "`value` of an operation yields its operands in stored order (value_producer_cat interpreted)", r_dw.x5(prog), 1)
    apply(rep, "X6", "address-keyed libdw lookups of a location operation get the pointer libdw handed out, not the address of a copy", r_dw.x6(prog), 3)
    import r_dw as _rd17
    f7 = _rd17.f7(prog, tier)
    apply(rep, "F7", "every location attribute (location, data_member_location, data_location, frame_base, return_addr, segment, static_link, use_location, vtable_elem_location) in a block or section-offset form yields a location list (handle_at_dependent_value interpreted)",
          f7 if getattr(f7, "broken", None) else ([i_ for i_ in f7[0] if i_[0] == "F7:location"], [f_ for f_ in f7[1] if f_["key"] == "F7:location"]), 1)
    maybe_mutants("C17", rep, tier)
