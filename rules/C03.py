"""C03 lexical names: S1 scope per sub-expression context, S2 readers clone, S3 rebind/unbound throw, Q1(iii)."""
import r_scope, r_pure, r_build
from common import apply, maybe_mutants


def run(prog, rep, tier):
    rep.clause = ("S1: for each tree kind evaluated in a sub-expression/branch context (PRED_SUBX_ANY, CAPTURE, SUBX_EVAL, CLOSE_*, IFELSE, ALT, OR, "
                  "FORMAT, BLOCK) either build.cc builds the child with a fresh bindings scope or every construction site in the generated parser/"
                  "lexer wraps the child in SCOPE; S2: op_read/op_upread/op_const push clones of stored values; S3: bindings::bind throws before "
                  "inserting a duplicate and the READ case of build_exec cannot complete without a lookup hit or a throw; Q1(iii): no function-local "
                  "static initialised from a parameter (same text compiled twice); S4: bindings::find consults the enclosing scope only when the "
                  "own scope misses, and a block's up-reference table enters the names of the enclosing scope before inherited up-references "
                  "under keep-first insertion (inner binders shadow outer/builtin names for nested blocks); S6: build_exec interpreted on a READ node "
                  "and on a BLOCK node with one free name, under every combination of scope-chain hit / up-reference hit: the scope chain wins; S7: build_exec/build_pred interpreted on a node of "
                  "every tree kind: each nested build_exec/build_pred receives the very up-reference table of the enclosing block (the body of a BLOCK: "
                  "the new table made from the enclosing bindings and table), never a copy - ids are allocated in it lazily and captured from it.")
    rep.not_decided = ("agreement between up-value id allocation order and the pop order in op_lex_closure for all nesting shapes; that each read "
                       "yields the value bound for the very input (run-time relation).")
    r = r_scope.s1(prog)
    apply(rep, "S1", "every sub-expression context opens a scope", (r[0], r[1]), 10)
    rep.extra["S1_construction_sites"] = r[2]
    if r[2] < 25 and not getattr(r, "broken", None):
        from zw import Broken
        raise Broken("S1 saw %d construction sites, below the floor 25" % r[2])
    apply(rep, "S2", "readers clone bound values", r_scope.s2(prog), 3)
    apply(rep, "S3", "rebind / unbound name are compile-time throws", r_scope.s3(prog), 2)
    apply(rep, "S5", "inherited up-references start unused in the nested block", r_scope.s5(prog), 1)
    apply(rep, "S4", "inner binders shadow outer ones (lookup and up-reference table order)", r_scope.s4(prog), 2)
    apply(rep, "S6", "a scope-chain binding wins over an up-reference of the enclosing block", r_build.s6(prog), 2)
    apply(rep, "S7", "every nested build is handed the enclosing block's own up-reference table, never a copy", r_build.s7(prog), 12)
    q = r_pure.q1(prog)
    apply(rep, "Q1", "no parameter-dependent function-local static", ([i for i in q[0] if i[0].startswith("Q1iii")],
                                                                    [f for f in q[1] if f["key"].startswith("Q1iii")]), 1)
    import r_stream as _rs
    e9 = _rs.e9(prog, tier)
    if getattr(e9, "broken", None):
        apply(rep, "E9", "lexical names: binding, shadowing, per-stack values, rebinding and unbound names, through assertions, captures, alternatives, closures (engine interpreted against the reference semantics)", e9, 1)
    else:
        apply(rep, "E9", "lexical names: binding, shadowing, per-stack values, rebinding and unbound names, through assertions, captures, alternatives, closures (engine interpreted against the reference semantics)", ([i for i in e9[0] if i[0] in ('E9:names',)], [f for f in e9[1] if f["key"] in ('E9:names',)]), 1)
    import r_front
    apply(rep, "E11", "names written in query text (`let`, `(|A B| ..)`, `[|A| ..]`, `{|A| ..}`, the scopes of doc/syntax.rst) bind, shadow and go out of scope as documented (query text -> scanner simulation -> LALR automaton of parser.yy with every action interpreted -> tree::simplify -> build_exec -> op engine, all interpreted, against the documented meaning of the notation)", r_front.e11(prog, tier, ("E11:names",)), 1)
    maybe_mutants("C03", rep, tier)
