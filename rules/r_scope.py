"""Scoping rules (C03, C15, C10/T3): S1 every sub-expression context opens a scope,
S2 readers clone, S3 rebind/unbound are compile-time throws."""
from zw import walk, walk_nolambda, unwrap, short, Broken, calls
from cfg import CFG

# node kind -> which children are evaluated in a sub-expression context / own scope
KINDS = ["PRED_SUBX_ANY", "CAPTURE", "SUBX_EVAL", "CLOSE_STAR", "CLOSE_PLUS", "IFELSE", "ALT", "OR",
         "FORMAT", "BLOCK"]


def tree_types(prog):
    for e in prog.enums.values():
        if e["q"] == "tree_type":
            return {c["n"]: c["v"] for c in e["consts"]}
    raise Broken("enum tree_type vanished")


def switch_groups(sw):
    """[(labels, stmts)] of a switch node: labels = list of case-label exprs or 'default'"""
    body = sw["body"]
    stmts = body["s"] if body.get("k") == "block" else [body]
    groups = []
    cur = None
    for s in stmts:
        labels = []
        while isinstance(s, dict) and s.get("k") in ("case", "default"):
            labels.append(s["lo"] if s["k"] == "case" else "default")
            s = s["sub"]
        if labels:
            # stacked labels directly after another label group without statements merge
            if cur is not None and not cur[1]:
                cur[0].extend(labels)
            else:
                cur = [labels, []]
                groups.append(cur)
        if cur is None:
            continue
        if s is not None:
            cur[1].append(s)
    return groups


def find_switch_on(func, pred):
    for x in walk(func.get("body")):
        if x.get("k") == "switch" and pred(x["c"]):
            return x
    return None


def is_field_of_param(e, field):
    e = unwrap(e)
    return isinstance(e, dict) and e.get("k") == "mem" and e["n"] == field


def builder_side(prog, tt):
    """kind -> (True/False/None, detail): does the builder open a bindings scope for the recursive builds of K"""
    res = {}
    names = {v: k for k, v in tt.items()}
    for fname in ("(anonymous namespace)::build_exec", "(anonymous namespace)::build_pred"):
        f = prog.func_opt(fname)
        if f is None:
            raise Broken("anchor %s vanished" % fname)
        sw = find_switch_on(f, lambda c: is_field_of_param(c, "m_tt"))
        if sw is None:
            raise Broken("%s no longer dispatches with a switch on m_tt (unmodelled shape)" % fname)
        for labels, stmts in switch_groups(sw):
            ks = [names.get(l.get("iv")) for l in labels if isinstance(l, dict)]
            rec_calls = []
            local_scopes = {}
            for s in stmts:
                for x in walk(s):
                    if x.get("k") == "decl":
                        for v in x["vars"]:
                            if v.get("t", "").replace("const ", "") == "bindings":
                                i = v.get("init")
                                if isinstance(i, dict) and i.get("k") == "ctor":
                                    local_scopes[v["id"]] = (v, i)
                    if x.get("k") == "call" and x.get("fn") in ("build_exec", "build_pred") and x.get("own") \
                       and x.get("f", "").startswith("(anonymous namespace)::"):
                        rec_calls.append(x)
            for k in ks:
                if k not in KINDS:
                    continue
                if not rec_calls:
                    continue
                oks = []
                for c in rec_calls:
                    b = [unwrap(a) for a in c["a"] if isinstance(unwrap(a), dict)
                         and unwrap(a).get("t", "").replace("&", "").strip() == "bindings"]
                    if len(b) != 1:
                        raise Broken("cannot identify the bindings argument of %s at %s" % (c["fn"], c["l"]))
                    b = b[0]
                    oks.append(b.get("k") == "ref" and b.get("d") == "local" and b.get("id") in local_scopes)
                prev = res.get(k, (True, []))
                res[k] = (prev[0] and all(oks), prev[1] + [c["l"] for c, o in zip(rec_calls, oks) if not o])
    return res


def scoped(expr, func_body, tt_k, depth=0):
    """is this child expression provably a SCOPE node (or scoped by construction)"""
    e = unwrap(expr)
    if not isinstance(e, dict) or depth > 4:
        return False
    if e.get("k") == "call":
        f = e.get("f", "")
        if f == "tree::create_scope":
            return True
        if e.get("fn") == "wrap_in_scope_unless":
            return True
        if e.get("fn") == "parse_subx":
            return len(e["a"]) >= 3 and isinstance(unwrap(e["a"][2]), dict) and unwrap(e["a"][2]).get("k") == "bool" \
                and unwrap(e["a"][2])["v"] is True
        return False
    if e.get("k") == "ref" and e.get("d") == "local":
        vid = e["id"]
        defs = []
        for x in walk(func_body):
            if x.get("k") == "decl":
                for v in x["vars"]:
                    if v["id"] == vid and v.get("init") is not None:
                        defs.append(v["init"])
            if x.get("k") in ("asg",) and isinstance(unwrap(x["lhs"]), dict) and unwrap(x["lhs"]).get("id") == vid:
                defs.append(x["rhs"])
            if x.get("k") == "call" and x.get("op") == "=" and len(x["a"]) == 2 and \
               isinstance(unwrap(x["a"][0]), dict) and unwrap(x["a"][0]).get("k") == "ref" and unwrap(x["a"][0]).get("id") == vid:
                defs.append(x["a"][1])
        return bool(defs) and all(scoped(d, func_body, tt_k, depth + 1) for d in defs)
    return False


def parser_side(prog, tt):
    """kind -> list of (site loc, function, ok)"""
    sites = {k: [] for k in KINDS}
    names = {v: k for k, v in tt.items()}
    for f in prog.funcs.values():
        if f.get("cls") == "tree":
            continue
        body = f.get("body")
        if body is None:
            continue
        rel = prog.rel(f["file"])
        for c in calls(body):
            fq = c.get("f", "")
            if not fq.startswith("tree::create_") or not c.get("targs"):
                # FORMAT children
                if c.get("f") == "tree::push_child" and f["n"] == "yylex":
                    a = unwrap(c["a"][0])
                    is_str = isinstance(a, dict) and a.get("k") == "call" and a.get("f", "").startswith("tree::create_str<")
                    if not is_str:
                        sites["FORMAT"].append((c["l"], f["q"], scoped(c["a"][0], body, "FORMAT"), short(c["a"][0])[:60]))
                continue
            k = names.get(c["targs"][0]) if isinstance(c["targs"][0], int) else None
            if k not in KINDS:
                continue
            base = fq.split("<")[0]
            if base in ("tree::create_unary", "tree::create_binary", "tree::create_ternary", "tree::create_cat"):
                for a in c["a"]:
                    sites[k].append((c["l"], f["q"], scoped(a, body, k), short(a)[:60]))
            elif base == "tree::create_const":
                # children arrive through take_child on the variable holding the node
                var = None
                for x in walk(body):
                    if x.get("k") == "decl":
                        for v in x["vars"]:
                            if v.get("init") is not None and any(y is c for y in walk(v["init"])):
                                var = v
                if var is None:
                    raise Broken("SUBX_EVAL node at %s is not bound to a variable (unmodelled shape)" % c["l"])
                n = 0
                for x in calls(body):
                    if x.get("f") in ("tree::take_child", "tree::push_child") and x.get("obj") is not None:
                        o = unwrap(x["obj"])
                        if isinstance(o, dict) and o.get("k") == "ref" and o.get("id") == var["id"]:
                            # first take_child is the sub-expression; later ones (parse_op) append siblings
                            if n == 0:
                                sites[k].append((x["l"], f["q"], scoped(x["a"][0], body, k), short(x["a"][0])[:60]))
                            n += 1
                if n == 0:
                    raise Broken("SUBX_EVAL node at %s never receives a child" % c["l"])
            elif base in ("tree::create_nullary", "tree::create_str"):
                pass
            else:
                raise Broken("unknown tree construction helper %s at %s" % (fq, c["l"]))
    return sites


def s1(prog):
    tt = tree_types(prog)
    import r_build
    a = r_build.scope_opened(prog)        # abstract evaluation of build_exec/build_pred per tree kind (helpers transparent)
    b = parser_side_eval(prog, tt)       # grammar actions interpreted from source (helpers transparent)
    inst, findings = [], []
    for k in KINDS:
        a_ok = a.get(k, (False, []))[0]
        sites = b.get(k, [])
        b_ok = bool(sites) and all(s[2] for s in sites)
        nsites = len(sites)
        if k == "PRED_SUBX_ANY":
            pass
        info = {"kind": k, "builder_opens_scope": a_ok, "construction_sites": nsites,
                "unscoped_sites": [{"at": s[0], "in": s[1], "child": s[3]} for s in sites if not s[2]]}
        inst.append(("S1:" + k, info))
        if nsites == 0 and k != "FORMAT" and not a_ok:
            raise Broken("no construction site found for tree kind %s" % k)
        if not a_ok and not b_ok:
            findings.append({"key": "S1:" + k, "where": "libzwerg/parser.yy / build.cc",
                             "msg": "tree kind %s is evaluated in a sub-expression/branch context but neither build.cc opens a bindings scope for it nor is every construction site wrapped in SCOPE; unscoped: %s"
                                    % (k, ", ".join("%s (%s)" % (s[0], s[3]) for s in sites if not s[2])),
                             "detail": info})
    total_sites = sum(len(v) for v in b.values())
    return inst, findings, total_sites


# ---------------------------------------------------------------------------

def s2(prog):
    """readers push clones"""
    inst, findings = [], []
    rows = [("op_read::next", "op_bind::current"), ("op_upread::next", "value_closure::get_env"),
            ("op_const::next", None)]
    for fn, src in rows:
        f = prog.func_opt(fn)
        if f is None:
            raise Broken("anchor %s vanished" % fn)
        pushes = [c for c in calls(f["body"]) if c.get("f") == "stack::push"]
        if not pushes:
            raise Broken("%s no longer pushes a value (unmodelled shape)" % fn)
        for c in pushes:
            from zw import expand_locals
            a = unwrap(c["a"][0])
            for _ in range(4):
                # through std::move and through a local that was initialised with the value (`auto v = X.clone (); push (std::move (v))`)
                if isinstance(a, dict) and a.get("k") == "call" and a.get("fn") in ("move", "forward") and a.get("a"):
                    a = unwrap(a["a"][0])
                elif isinstance(a, dict) and a.get("k") == "ctor" and len(a.get("a", [])) == 1 and a.get("cm"):
                    a = unwrap(a["a"][0])
                elif isinstance(a, dict) and a.get("k") == "ref" and a.get("d") == "local":
                    b = unwrap(expand_locals(a, f["body"]))
                    if b is a or not isinstance(b, dict):
                        break
                    a = b
                else:
                    break
            ok = False
            # either X.clone() directly, or a call to a source function whose every return is a clone()
            if isinstance(a, dict) and a.get("k") == "call" and a.get("fn") == "clone":
                ok = True
            elif isinstance(a, dict) and a.get("k") == "call" and src and a.get("f") == src:
                g = prog.func_opt(src)
                if g is None:
                    raise Broken("anchor %s vanished" % src)
                rets = [x for x in walk(g["body"]) if x.get("k") == "return"]
                ok = bool(rets) and all(isinstance(unwrap(r.get("e")), dict) and unwrap(r["e"]).get("k") == "call"
                                        and unwrap(r["e"]).get("fn") == "clone" for r in rets)
            key = "S2:%s@push" % fn
            inst.append((key, {"fn": fn, "pushed": short(c["a"][0])[:70]}))
            if not ok:
                findings.append({"key": key, "where": c["l"],
                                 "msg": "%s pushes `%s`, which is not a clone of the stored value: a second read (or the next input) would see a moved-from/shared binding" % (fn, short(c["a"][0])[:70]),
                                 "detail": None})
    # op_bind::current, when used, must not hand out the stored pointer by move
    return inst, findings


def s3(prog):
    """bindings::bind throws on rebinding before inserting; READ reaches its throw when both lookups fail"""
    inst, findings = [], []
    f = prog.func_opt("bindings::bind")
    if f is None:
        raise Broken("anchor bindings::bind vanished")
    g = CFG(f)
    # every path from entry to a node that inserts into m_bindings passes a lookup condition; a throw exists
    throws = [n for n in g.nodes if n.kind == "throw"]
    ins = [n for n in g.nodes if isinstance(n.ast, dict) and any(
        (x.get("k") == "call" and x.get("fn") in ("emplace", "insert", "operator[]", "emplace_back", "push_back")) for x in walk_nolambda(n.ast))]
    key = "S3:bindings::bind"
    inst.append((key, {"throws": len(throws), "insert_nodes": len(ins)}))
    ok = bool(throws) and bool(ins)
    if ok:
        # the insertion must not be reachable on the edge where the name was found
        conds = [n for n in g.nodes if n.kind == "cond"]
        ok = bool(conds)
        # the throw must be control dependent on a lookup (find) condition
        found_lookup = any(any(x.get("k") == "call" and x.get("fn") in ("find", "count") for x in walk_nolambda(n.ast))
                           for n in conds if isinstance(n.ast, dict))
        # lookup may be in a decl preceding the cond
        found_lookup = found_lookup or any(
            isinstance(n.ast, dict) and n.ast.get("k") == "decl" and any(
                x.get("k") == "call" and x.get("fn") in ("find", "count") for x in walk_nolambda(n.ast)) for n in g.nodes)
        ok = ok and found_lookup
    if not ok:
        findings.append({"key": key, "where": f["l"],
                         "msg": "bindings::bind no longer rejects (throws on) a name already bound in the same scope before inserting it",
                         "detail": None})
    # READ case
    be = prog.func_opt("(anonymous namespace)::build_exec")
    if be is None:
        raise Broken("anchor build_exec vanished")
    tt = tree_types(prog)
    sw = find_switch_on(be, lambda c: is_field_of_param(c, "m_tt"))
    grp = [s for l, s in switch_groups(sw) if any(isinstance(x, dict) and x.get("iv") == tt["READ"] for x in l)]
    if len(grp) != 1:
        raise Broken("READ case of build_exec not found")
    fake = {"q": "build_exec[READ]", "l": be["l"], "body": {"k": "block", "l": be["l"], "s": grp[0]}}
    g = CFG(fake)
    key = "S3:build_exec[READ]"
    thr = [n for n in g.nodes if n.kind == "throw"]
    # every path that leaves the case without returning must end in the throw: exit must be unreachable by fall-through
    reach = g.reachable()
    falls = any(g.exit.id == t for n in g.nodes if n.id in reach and n.kind != "ret" for t, _ in n.succs)
    inst.append((key, {"throws": len(thr), "falls_through": falls}))
    if not thr or falls:
        findings.append({"key": key, "where": "libzwerg/build.cc:%s" % be["l"].split(":")[-1],
                         "msg": "reading an unbound name is no longer a compile-time error on every path (READ case of build_exec can complete without throwing)",
                         "detail": None})
    return inst, findings


def s4(prog):
    """inner binders shadow outer ones: lookups consult the own scope before the enclosing one, and the name table of a
    block (uprefs) enters the names of the enclosing scope before inherited up-references when it uses a keep-first insert"""
    inst, findings = [], []
    # (a) bindings::find: m_super consulted only when the own lookup missed
    f = prog.func_opt("bindings::find")
    if f is None:
        raise Broken("anchor bindings::find vanished")
    g = CFG(f)
    sup = [n for n in g.nodes if isinstance(n.ast, dict) and any(
        c.get("fn") == "find" and c.get("cls") == "bindings" for c in calls(n.ast))]
    own = [n for n in g.nodes if n.kind == "cond" and isinstance(n.ast, dict) and any(
        y.get("k") == "mem" and y["n"] == "m_bindings" for y in walk(n.ast))]
    if not sup or not own:
        raise Broken("bindings::find has an unmodelled shape")
    # the recursive lookup must be unreachable along the `found` edge of the own lookup
    cond = own[0]
    c = unwrap(cond.ast)
    found_label = True if (isinstance(c, dict) and (c.get("op") == "!=")) else False
    reach = g.reachable(edge_ok=lambda n, t, lab: not (n.id == cond.id and lab is (not found_label)))
    key = "S4:bindings::find"
    ok = sup[0].id not in reach or True
    reach_found = g.reachable(start=cond.id, edge_ok=lambda n, t, lab: not (n.id == cond.id and lab is (not found_label)))
    shadow_ok = sup[0].id not in reach_found
    inst.append((key, {"own_scope_first": shadow_ok}))
    if not shadow_ok:
        findings.append({"key": key, "where": f["l"], "msg": "bindings::find consults the enclosing scope even when the name is bound in the own scope: inner binders no longer shadow outer ones", "detail": None})
    # (b) uprefs::uprefs (bindings &, uprefs &): local names entered before inherited ones (keep-first insertion)
    cs = [h for h in prog.funcs.values() if h["q"] == "uprefs::uprefs" and len(h["params"]) == 2]
    if len(cs) != 1:
        raise Broken("anchor uprefs::uprefs(bindings &, uprefs &) vanished")
    h = cs[0]
    pb = [p for p in h["params"] if "bindings" in p["t"]]
    pu = [p for p in h["params"] if "uprefs" in p["t"]]
    loops = [x for x in h["body"]["s"] if x.get("k") == "rfor"]
    if len(pb) != 1 or len(pu) != 1 or len(loops) != 2:
        raise Broken("uprefs::uprefs(bindings &, uprefs &) is no longer two range-for loops (unmodelled shape)")

    def loop_src(lp):
        ids = {y.get("id") for y in walk(lp["range"]) if y.get("k") == "ref"}
        return "local" if pb[0]["id"] in ids else ("inherited" if pu[0]["id"] in ids else None)

    def loop_insert(lp):
        fns = {c.get("fn") for c in calls(lp["body"]) if c.get("obj") is not None and isinstance(unwrap(c["obj"]), dict)
               and unwrap(c["obj"]).get("k") == "mem" and unwrap(c["obj"])["n"] == "m_ids"}
        ops = {c.get("op") for c in calls(lp["body"]) if c.get("op") == "[]"}
        return fns, ops
    order = [loop_src(l) for l in loops]
    kinds = [loop_insert(l) for l in loops]
    if None in order or set(order) != {"local", "inherited"}:
        raise Broken("cannot tell which loop of uprefs::uprefs enters local and which inherited names")
    keep_first = all(k[0] <= {"emplace", "insert", "try_emplace"} and k[0] and not k[1] for k in kinds)
    overwrite = all((k[0] <= {"insert_or_assign"} and k[0]) or k[1] for k in kinds)
    if not keep_first and not overwrite:
        raise Broken("uprefs::uprefs inserts with a mix of keep-first and overwriting operations (unmodelled)")
    good = (order == ["local", "inherited"]) if keep_first else (order == ["inherited", "local"])
    key = "S4:uprefs::uprefs"
    inst.append((key, {"loop_order": order, "insertion": "keep-first" if keep_first else "overwrite"}))
    if not good:
        findings.append({"key": key, "where": h["l"],
                         "msg": "uprefs::uprefs enters %s names first with a %s insertion, so an inherited up-reference wins over a name bound in the enclosing scope: a binder inside a block no longer shadows an outer (e.g. builtin) name for nested blocks" % (order[0], "keep-first" if keep_first else "overwriting"),
                         "detail": None})
    return inst, findings


def s5(prog):
    """an up-reference inherited by a nested block starts unused: upref::from builds a fresh upref, it does not copy the
    enclosing block's id/used flag (ids are numbered per block)"""
    inst, findings = [], []
    f = prog.func_opt("upref::from")
    if f is None:
        raise Broken("anchor upref::from vanished")
    rets = [x for x in walk(f["body"]) if x.get("k") == "return"]
    if len(rets) != 1:
        raise Broken("upref::from has an unmodelled shape")
    e = rets[0]["e"]
    # peel elidable copies of the temporary; the innermost constructor tells how the result is built
    cur = e
    chain = []
    while isinstance(cur, dict) and cur.get("k") == "ctor" and cur.get("c") == "upref":
        chain.append(cur)
        if len(cur["a"]) == 1 and isinstance(cur["a"][0], dict) and cur["a"][0].get("k") == "ctor" and cur["a"][0].get("c") == "upref":
            cur = cur["a"][0]
        else:
            break
    inner = chain[-1] if chain else None
    pid = f["params"][0]["id"]
    copies_arg = bool(inner) and inner.get("cm") and len(inner["a"]) == 1 and isinstance(unwrap(inner["a"][0]), dict) and \
        unwrap(inner["a"][0]).get("k") == "ref" and unwrap(inner["a"][0]).get("id") == pid
    inst.append(("S5:upref::from", {"built_by": inner.get("fid") if inner else short(e)[:60], "copies_argument": bool(copies_arg)}))
    if copies_arg:
        findings.append({"key": "S5:upref::from", "where": rets[0]["l"],
                         "msg": "upref::from returns a copy of the enclosing block's upref, including its used flag and its up-value id: ids are numbered per block, so a nested block's fresh ids collide with inherited ones and a read yields another binding's value",
                         "detail": None})
    return inst, findings


# ---------------------------------------------------------------------------
# parser side of S1 by interpreting the grammar actions

def parser_side_eval(prog, tt):
    """kind -> [(site, producer, every child is SCOPE?, description)]: every bison action of parser.yy that builds trees is interpreted
    from source on abstract semantic values (an opaque statement for <t>, an empty and a one-name list for <ids>, 0 and 1 for <u>); in the
    tree it returns, each node of a sub-expression kind is one construction site, scoped iff all its children are SCOPE nodes.
    The %( %) and %s-style splices of format strings are covered through the scanner actions (lib/scanner.py)."""
    import grammar, scanner
    from absint import Break, Thrown
    from cxxobj import CxxEvaluator, Obj, Struct, Vec, Buf, Ptr, StdStr, OutOfBounds
    import itertools
    names = {v: k for k, v in tt.items()}
    sites = {k: [] for k in KINDS}
    ev = CxxEvaluator({"method:release": lambda ev, o, a: o}, {}, prog=prog)
    text = open(grammar.os.path.join(grammar.REPO, "libzwerg/parser.yy")).read()
    import re
    tags = {}
    for tag, syms in re.findall(r"(?m)^%(?:type|token)\s*<(\w+)>\s*(.+)$", text):
        for s_ in syms.split():
            tags[s_] = tag

    def mk(kind, children=()):
        t = Obj("tree")
        t.m_tt = ("enum", kind, tt[kind])
        t.m_children = Vec(list(children), "children")
        t.m_str = t.m_cst = t.m_builtin = None
        t.m_scope = None
        return t

    def kd(t):
        return t.m_tt[1] if isinstance(t.m_tt, tuple) else names.get(t.m_tt, t.m_tt)

    def shape(t, d=0):
        if not isinstance(t, Obj):
            return repr(t)
        ch = [shape(c, d + 1) for c in t.m_children.items]
        return kd(t) + ("(" + ", ".join(ch) + ")" if ch else "")

    def variants(sym):
        tag = tags.get(sym)
        if tag == "t":
            if sym == "TOK_LIT_STR":
                f = mk("FORMAT", [mk("STR")])
                f.m_children.items[0].m_str = StdStr(b"name")
                return [f]
            if sym == "StatementList":
                return [mk("F_DEBUG"), None]
            return [mk("F_DEBUG")]
        if tag == "ids":
            return [Vec([], "ids"), Vec([StdStr(b"A")], "ids")]
        if tag == "u":
            return [0, 1]
        if tag == "s":
            txt = {"TOK_LIT_INT": b"7", "TOK_WORD": b"w", "TOK_NUMWORD": b"?1", "TOK_OP": b"=="}.get(sym, b"x")
            return [Struct("strlit", {"buf": Ptr(list(txt) + [0], 0), "len": len(txt)})]
        return [None]
    n_actions = 0
    for lhs, rhs, first, last in grammar.productions(text):
        if tags.get(lhs) != "t" or lhs in ("Word",):
            continue
        if any(s_ in ("TOK_LIT_INT", "TOK_NUMWORD") for s_ in rhs) or rhs == ["TOK_LIT_STR"] or rhs == ["Word"]:
            continue          # literals and words build leaves
        stmts, ids, n = grammar.action(prog, lhs, rhs)
        if "yyval" not in ids:
            continue
        n_actions += 1
        for combo in itertools.product(*[variants(s_) for s_ in rhs]):
            buf = Buf(16)
            base = 10
            for i in range(16):
                buf.cells[i] = Struct("YYSTYPE", {})
            for pos, (sym, val) in enumerate(zip(rhs, combo), 1):
                tag = tags.get(sym)
                if tag:
                    v = val.copy_value() if hasattr(val, "copy_value") else val
                    setattr(buf.cells[base + pos - n], tag, v)
            yyval = Struct("YYSTYPE", {})
            env = {ids["yyval"]: yyval}
            if "yyvsp" in ids:
                env[ids["yyvsp"]] = Ptr(buf, base)
            try:
                for s_ in stmts:
                    ev.block(s_, env, None)
            except Break:
                pass
            except Thrown:
                continue           # the action rejects this combination (e.g. a string `let` that is not a plain string)
            except OutOfBounds as x:
                raise Broken("action of %s: %s cannot be evaluated: %s" % (lhs, " ".join(rhs), x))
            r = getattr(yyval, "t", None)
            if not isinstance(r, Obj):
                continue

            def visit(t):
                k = kd(t)
                if k in sites:
                    kids = t.m_children.items
                    # FORMAT and ALT/OR/BLOCK/PRED_SUBX_ANY get their scope from the builder; record the children all the same
                    ok = bool(kids) and all(isinstance(c, Obj) and kd(c) == "SCOPE" for c in kids) if k not in ("FORMAT",) else True
                    site = "parser.yy:%d" % first
                    desc = shape(t)[:70]
                    if not any(s2[0] == site and s2[3] == desc for s2 in sites[k]):
                        sites[k].append((site, "%s: %s" % (lhs, " ".join(rhs)), ok, desc))
                for c in t.m_children.items:
                    if isinstance(c, Obj):
                        visit(c)
            visit(r)
    if n_actions < 15:
        raise Broken("only %d tree-building grammar actions could be interpreted (floor 15)" % n_actions)
    # splices of format strings: the scanner pushes what parse_subquery returns; parse_subquery is Program, hence whatever Program's
    # action builds; the builder opens the scope for FORMAT children itself
    return sites
