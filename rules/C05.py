"""C05 navigation laws (one clause): I1 import-chain propagation."""
import r_dw
from common import apply, maybe_mutants


def run(prog, rep, tier):
    rep.clause = ("I1: at every construction of a value_die (12 sites; instantiations merged) the import-less 4-argument form is used only where the "
                  "Dwarf_Die comes from a new navigation origin (unit root, reference followed, location-operation reference) or the value is "
                  "explicitly raw; a DIE obtained by moving inside the unit (parent lookup, child/sibling iteration, re-wrapping get_die()) carries "
                  "the import chain of the DIE it came from (local provenance dataflow through out-parameters and helper functions); "
                  "O7: value_cu::cmp and value_abbrev_unit::cmp interpreted on abstract units of two Dwarf files that share section offsets: equal "
                  "iff the same Dwarf_CU, antisymmetric; I2: root_cache::is_root and parent_cache::find interpreted from source (std::map/vector/lower_bound modelled) on two abstract files sharing offsets, unit roots of any tag (compile, partial, type, skeleton, unknown), four query orders and repeated queries: `?root` holds exactly for the unit DIEs of the DIE's own file, the parent is the stored parent; "
                  "I1d: value_die::cmp interpreted on pairs of abstract DIEs with the same Dwarf and offset "
                  "whose import histories agree on the part both know (the child producer restarts the chain, the unit producer carries it in full): "
                  "the result is equal at every depth of the chain.")
    rep.not_decided = ("the navigation laws of C05 as relations between the words on a concrete file (child/parent inverse through the producers, unit entry = entry, "
                       "reachability by root child*): they quantify over the DIEs of an input file and libdw's answers; decided here are the tables, the import "
                       "chains and the comparisons those laws rest on.")
    apply(rep, "I1", "cooked DIEs derived inside a unit keep the import chain", r_dw.i1(prog), 10)
    apply(rep, "I1c", "import chain and iterator stack move in lockstep", r_dw.i1c(prog), 2)
    apply(rep, "I2", "`?root` holds exactly for unit DIEs (any root tag) and the parent table returns the stored parent, per file, in any query order (cache.cc interpreted against an abstract libdw)", r_dw.i2(prog), 2)
    import r_order
    apply(rep, "I1d", "a DIE with partial import history equals itself with full history", r_order.i1d(prog), 1)
    apply(rep, "I1b", "the parent takes context and import chain from the climbing cursor", r_dw.i1b(prog), 2)
    apply(rep, "M2", "`unit` on a Dwarf lists each unit exactly once, in order, with its own Dwarf_CU and offset", r_dw.m2(prog, tier), 1)
    import r_order
    apply(rep, "O7", "units compare equal exactly when they are the same unit (`unit` of a DIE is the unit that lists it, also across a file and its alt file)", r_order.o7(prog), 2)
    rep.notes.append("exemption: op_cooked_die::operate (reason in rules/r_dw.py I1_EXEMPT)")
    apply(rep, "M3", "`child` walks the children with every import inlined in place and hands each DIE the chain of the import DIEs it was reached through (die_it_producer with import_partial_units / drop_finished_imports interpreted on an abstract forest: imports first, in the middle, last, nested, repeated, of a compile unit)", r_dw.m3(prog), 2)
    maybe_mutants("C05", rep, tier)
