"""Ordering rules (C09): O2 sibling rule for value::cmp overrides, O3 strict weak order of
constant::operator< on a finite abstract domain (abstract evaluation, lib/absint.py)."""
import itertools
from zw import walk, walk_nolambda, unwrap, short, Broken, calls
from absint import Evaluator


def o2(prog):
    inst, findings = [], []
    ov = prog.overrides_of("zw_value::cmp(const zw_value &)const")
    if len(ov) < 15:
        raise Broken("only %d value::cmp overrides found (floor 15)" % len(ov))
    for f in ov:
        cls = f["cls"]
        key = "O2:" + f["q"]
        casts = [c for c in calls(f["body"]) if c.get("f", "").startswith("zw_value::as<")]
        pid = f["params"][0]["id"]
        mine = []
        for c in casts:
            a = unwrap(c["a"][0]) if c["a"] else None
            if isinstance(a, dict) and a.get("k") == "un" and a.get("op") == "&":
                a = unwrap(a["e"])
            if isinstance(a, dict) and a.get("k") == "ref" and a.get("id") == pid:
                mine.append(c)
        if len(mine) != 1:
            raise Broken("%s does not have exactly one value::as<> cast of its operand (unmodelled shape)" % f["q"])
        targ = mine[0]["targs"][0]
        info = {"casts_to": targ, "class": cls}
        inst.append((key, info))
        if targ != cls:
            findings.append({"key": key, "where": mine[0]["l"],
                             "msg": "%s casts its operand to %s instead of its own class %s: comparing two %s values fails (compare_stack aborts on fail)" % (f["q"], targ, cls, cls),
                             "detail": None})
            continue
        # the cast result is tested against nullptr once (any spelling: if-with-initialiser, early return, named local);
        # null case (operand of another type): every return answers fail; non-null case: no return answers fail
        from zw import null_case_region
        top, null_region, nonnull_region = null_case_region(f, lambda c: c is mine[0], False, "value::as<%s>" % targ)

        def is_fail(r):
            e = unwrap(r.get("e"))
            return isinstance(e, dict) and e.get("d") == "enum" and e.get("n") == "fail"
        then_fail = [r for st in nonnull_region for r in walk(st) if r.get("k") == "return" and is_fail(r)]
        else_rets = [r for st in null_region for r in walk(st) if r.get("k") == "return"]
        else_ok = bool(else_rets) and all(is_fail(r) for r in else_rets)
        if then_fail:
            findings.append({"key": key, "where": then_fail[0]["l"],
                             "msg": "%s returns cmp_result::fail for an operand of its own type: same-type comparison must be total" % f["q"], "detail": None})
        if not else_ok:
            findings.append({"key": key, "where": top["l"],
                             "msg": "%s does not answer cmp_result::fail exactly when the operand has another type" % f["q"], "detail": None})
    # comparison_result / compare_stack order by type code before calling cmp
    cr = prog.func_opt("(anonymous namespace)::comparison_result")
    if cr is None:
        raise Broken("anchor comparison_result vanished")
    cmpcall = [c for c in calls(cr["body"]) if c.get("fn") == "cmp" and c.get("cls") == "zw_value"]
    tcmp = [x for x in walk(cr["body"]) if x.get("k") == "call" and x.get("fn") == "get_type"]
    ok = len(cmpcall) == 1 and len(tcmp) >= 2
    inst.append(("O2:comparison_result", {"orders_by_type_first": ok}))
    if not ok:
        findings.append({"key": "O2:comparison_result", "where": cr["l"], "msg": "comparison_result no longer orders values of different types by type code before calling cmp", "detail": None})
    return inst, findings


# ---------------------------------------------------------------------------
# O3

class Dom:
    def __init__(self, name, arith, enclosing=None):
        self.name = name
        self.arith = arith
        self._enc = enclosing
        self.addr = 0

    def enclosing(self, v):
        return self._enc(v) if self._enc else self

    def __repr__(self):
        return self.name


class Const:
    def __init__(self, dom, value):
        self.dom = dom
        self.value = value

    def __repr__(self):
        return "%s:%d" % (self.dom.name if self.dom else "null", self.value)


def universe(tier):
    dec = Dom("dec", True)
    hexd = Dom("hex", True)
    n1 = Dom("N1", False)
    n2 = Dom("N2", False)
    common = Dom("COMMON", False)
    p1 = Dom("P1", False, lambda v: common if v < 2 else p1)
    p2 = Dom("P2", False, lambda v: common if v < 2 else p2)
    doms = [None, dec, hexd, n1, n2, p1, p2, common]
    vals = [0, 1, 3]
    if tier == "thorough":
        octd = Dom("oct", True)
        p3 = Dom("P3", False, lambda v: common if v < 2 else p3)
        doms += [octd, p3]
        vals = [0, 1, 2, 3]
    consts = [Const(d, v) for d in doms for v in vals]
    return dec, doms, consts


def o3(prog, tier="quick"):
    inst, findings = [], []
    f = prog.func_opt("constant::operator<")
    if f is None:
        raise Broken("anchor constant::operator< vanished")
    dec, doms, consts = universe(tier)
    hooks = {
        "constant::dom": lambda ev, o, a: o.dom,
        "constant::value": lambda ev, o, a: o.value,
        "zw_cdom::safe_arith": lambda ev, o, a: o.arith,
        "constant_dom::safe_arith": lambda ev, o, a: o.arith,
        "zw_cdom::most_enclosing": lambda ev, o, a: o.enclosing(a[0]),
        "constant_dom::most_enclosing": lambda ev, o, a: o.enclosing(a[0]),
        "ctor:std::less<*": lambda ev, o, a: (lambda ev2, args: (0 if args[0] is None else args[0].addr) < (0 if args[1] is None else args[1].addr)),
    }
    glob = {"dec_constant_dom": dec}
    ev = Evaluator(hooks, glob, ptr_lt=True, prog=prog)
    memo = {}
    nonnull = [d for d in doms if d is not None]

    def involved(c):
        s = []
        if c.dom is not None:
            s.append(c.dom)
            e = c.dom.enclosing(c.value)
            if e is not c.dom:
                s.append(e)
        return s

    def lt(a, b, order):
        # order: tuple of doms (ascending address) covering the involved ones
        inv = []
        for d in involved(a) + involved(b) + [dec]:
            if d not in inv:
                inv.append(d)
        sub = tuple(d for d in order if d in inv)
        k = (id(a), id(b), tuple(id(d) for d in sub))
        if k in memo:
            return memo[k]
        for i, d in enumerate(sub):
            d.addr = 1000 + i
        r = bool(ev.call(f, a, [b]))
        memo[k] = r
        return r
    evals = 0
    bad = None
    kinds = {"irreflexive": 0, "asymmetric": 0, "transitive": 0, "incomparability-transitive": 0}
    for a, b, c in itertools.product(consts, repeat=3):
        S = []
        for x in (a, b, c):
            for d in involved(x):
                if d not in S:
                    S.append(d)
        if dec not in S:
            S.append(dec)
        for perm in itertools.permutations(S):
            evals += 1
            ab, ba = lt(a, b, perm), lt(b, a, perm)
            bc, cb = lt(b, c, perm), lt(c, b, perm)
            ac, ca = lt(a, c, perm), lt(c, a, perm)
            aa = lt(a, a, perm)
            viol = None
            if aa:
                viol = ("irreflexive", "%r < %r" % (a, a))
            elif ab and ba:
                viol = ("asymmetric", "%r < %r and %r < %r" % (a, b, b, a))
            elif ab and bc and not ac:
                viol = ("transitive", "%r < %r and %r < %r but not %r < %r" % (a, b, b, c, a, c))
            elif (not ab and not ba) and (not bc and not cb) and (ac or ca):
                viol = ("incomparability-transitive", "%r ~ %r and %r ~ %r but %r and %r are ordered" % (a, b, b, c, a, c))
            if viol and bad is None:
                bad = (viol, [d.name for d in perm])
            if viol:
                kinds[viol[0]] += 1
    info = {"universe_domains": [d.name if d else "null" for d in doms], "constants": len(consts),
            "triples_x_address_orders": evals, "interpreted_evaluations": len(memo), "violations_by_kind": kinds}
    inst.append(("O3:constant::operator<", info))
    if bad:
        (kind, text), order = bad
        findings.append({"key": "O3:constant::operator<:" + kind, "where": "libzwerg/constant.cc:%s" % f["l"].split(":")[-1],
                         "msg": "constant::operator< is not a strict weak order on the abstract domain (%s): %s with domain addresses ordered %s; std::set/compare_stack and `<`/`==` on constants are inconsistent" % (kind, text, " < ".join(order)),
                         "detail": info})
    return inst, findings


# ---------------------------------------------------------------------------
# O3 for value_die::cmp

class Die:
    def __init__(self, name, dwarf, off, raw, imp):
        self.name = name
        self.m_die = {"cu": {"dwarf": dwarf}, "off": off}
        self.raw = raw
        self.m_import = imp
        Die._n = getattr(Die, "_n", 0) + 1
        self.addr = 5000 + Die._n

    def __repr__(self):
        return self.name


def _die_cmp_eval(prog):
    f = prog.func_opt("value_die::cmp")
    if f is None:
        raise Broken("anchor value_die::cmp vanished")
    cmp_enum = None
    for e in prog.enums.values():
        if e["q"] == "cmp_result":
            cmp_enum = {c["n"]: ("enum", c["n"], c["v"]) for c in e["consts"]}
    if cmp_enum is None:
        raise Broken("enum cmp_result vanished")

    def three(ev, o, a):
        x, y = a
        if hasattr(x, "addr") or x is None:
            x, y = (0 if x is None else x.addr), (0 if y is None else y.addr)
        return cmp_enum["less"] if x < y else (cmp_enum["greater"] if x > y else cmp_enum["equal"])
    hooks = {
        "zw_value::as<value_die>": lambda ev, o, a: a[0] if isinstance(a[0], Die) else None,
        "dwarf_cu_getdwarf": lambda ev, o, a: a[0]["dwarf"],
        "dwarf_dieoffset": lambda ev, o, a: a[0]["off"],
        "compare<*": three,
        "doneness_aspect::is_raw": lambda ev, o, a: o.raw,
        "value_die::is_raw": lambda ev, o, a: o.raw,
        "doneness_aspect::is_cooked": lambda ev, o, a: not o.raw,
        "value_die::is_cooked": lambda ev, o, a: not o.raw,
        "zw_value::cmp": lambda ev, o, a: ev.call(f, o, [a[0]]),
        "value_die::cmp": lambda ev, o, a: ev.call(f, o, [a[0]]),
        "method:get": lambda ev, o, a: o,
    }
    ev = Evaluator(hooks, {}, ptr_lt=True, prog=prog)
    return f, ev


def i1d(prog):
    """the same DIE known with a partial import history (as `child` produces it: the chain restarts at the innermost import point)
    compares equal to itself known with the full history (as `entry` produces it): value_die::cmp interpreted on pairs of abstract DIEs
    whose import chains agree on the part both know."""
    inst, findings = [], []
    f, ev = _die_cmp_eval(prog)
    W = Die("ip@20", 1, 20, False, None)
    I1 = Die("ip@10", 1, 10, False, None)
    I1w = Die("ip@10<-ip@20", 1, 10, False, W)
    I2 = Die("ip@12<-ip@10", 1, 12, False, I1)
    I2w = Die("ip@12<-ip@10<-ip@20", 1, 12, False, I1w)
    I2n = Die("ip@12", 1, 12, False, None)
    chains = [None, I1, I1w, I2, I2w, I2n]

    def chain(d):
        out = []
        while d is not None:
            out.append(d.m_die["off"])
            d = d.m_import
        return out
    n = 0
    bad = None
    for ia, ib in itertools.product(chains, repeat=2):
        ca, cb = chain(ia), chain(ib)
        k = min(len(ca), len(cb))
        if ca[:k] != cb[:k]:
            continue
        for ra, rb in itertools.product((False, True), repeat=2):
            a = Die("die@1%s[%s]" % ("r" if ra else "c", ia.name if ia else "-"), 1, 1, ra, ia)
            b = Die("die@1%s[%s]" % ("r" if rb else "c", ib.name if ib else "-"), 1, 1, rb, ib)
            r = ev.call(f, a, [b])
            if not (isinstance(r, tuple) and r[0] == "enum"):
                raise Broken("value_die::cmp did not evaluate to a cmp_result on the abstract domain")
            n += 1
            if r[1] != "equal" and bad is None:
                bad = "%r vs %r is %s" % (a, b, r[1])
    inst.append(("I1d:value_die::cmp", {"pairs": n}))
    if bad:
        findings.append({"key": "I1d:value_die::cmp", "where": "libzwerg/" + f["l"],
                         "msg": "the same DIE (same Dwarf, same offset) with import histories that agree on the part both know compares unequal: %s; "
                                "`child` restarts the import chain at the innermost import point while `entry` carries the full chain, so a DIE would "
                                "no longer equal itself reached through its parent" % bad, "detail": None})
    return inst, findings


def o3_die(prog):
    inst, findings = [], []
    f, ev = _die_cmp_eval(prog)
    Die._n = 0
    # universe: one Dwarf, import-chain heads X, Y (cooked, no import of their own), Z imported through X
    X = Die("imp@10", 1, 10, False, None)
    Y = Die("imp@11", 1, 11, False, None)
    Z = Die("imp@12<-imp@10", 1, 12, False, X)
    dies = []
    for off in (1, 2):
        for raw in (False, True):
            for imp in (None, X, Y, Z):
                dies.append(Die("die@%d%s[%s]" % (off, "r" if raw else "c", imp.name if imp else "-"), 1, off, raw, imp))
    dies += [X, Y, Z]
    memo = {}

    def cmp(a, b):
        k = (id(a), id(b))
        if k not in memo:
            r = ev.call(f, a, [b])
            if not (isinstance(r, tuple) and r[0] == "enum"):
                raise Broken("value_die::cmp did not evaluate to a cmp_result on the abstract domain")
            memo[k] = r[1]
        return memo[k]
    kinds = {}
    first = {}
    n = 0
    for a, b, c in itertools.product(dies, repeat=3):
        n += 1
        ab, ba, bc, ac = cmp(a, b), cmp(b, a), cmp(b, c), cmp(a, c)
        v = None
        if cmp(a, a) != "equal":
            v = ("irreflexive", "%r vs itself is %s" % (a, cmp(a, a)))
        elif "fail" in (ab, ba, bc, ac):
            v = ("fail", "same-type comparison fails: %r vs %r" % (a, b))
        elif (ab == "less") != (ba == "greater") or (ab == "equal") != (ba == "equal"):
            v = ("asymmetric", "%r vs %r is %s but the reverse is %s" % (a, b, ab, ba))
        elif ab == "less" and bc == "less" and ac != "less":
            v = ("transitive", "%r < %r < %r but first vs last is %s" % (a, b, c, ac))
        elif ab == "equal" and bc == "equal" and ac != "equal":
            v = ("equality-transitive", "%r == %r == %r but first vs last is %s" % (a, b, c, ac))
        if v:
            kinds[v[0]] = kinds.get(v[0], 0) + 1
            first.setdefault(v[0], v[1])
    info = {"abstract_dies": len(dies), "triples": n, "interpreted_evaluations": len(memo), "violations_by_kind": kinds}
    inst.append(("O3:value_die::cmp", info))
    for kind, text in first.items():
        findings.append({"key": "O3:value_die::cmp:" + kind, "where": "libzwerg/value-dw.cc:%s" % f["l"].split(":")[-1],
                         "msg": "value_die::cmp is not a consistent order on the abstract domain (%s): %s" % (kind, text),
                         "detail": info})
    return inst, findings


def o4(prog, tier="quick"):
    """all relational operators of `constant` and compare<T> agree with operator< on the abstract domain, arithmetic domains
    compare by value, unrelated named domains are never equal"""
    inst, findings = [], []
    lt = prog.func_opt("constant::operator<")
    ops = {}
    for name in ("operator>", "operator<=", "operator>=", "operator==", "operator!="):
        f = prog.func_opt("constant::" + name)
        if f is None:
            raise Broken("anchor constant::%s vanished" % name)
        ops[name] = f
    cmpf = [f for f in prog.funcs.values() if f["q"].startswith("compare<constant>")]
    dec, doms, consts = universe("quick")
    for i, d in enumerate([x for x in doms if x is not None]):
        d.addr = 1000 + i
    hooks = {
        "constant::dom": lambda ev, o, a: o.dom,
        "constant::value": lambda ev, o, a: o.value,
        "zw_cdom::safe_arith": lambda ev, o, a: o.arith,
        "zw_cdom::most_enclosing": lambda ev, o, a: o.enclosing(a[0]),
        "ctor:std::less<*": lambda ev, o, a: (lambda ev2, args: (0 if args[0] is None else args[0].addr) < (0 if args[1] is None else args[1].addr)),
        "constant::operator<": lambda ev, o, a: ev.call(lt, o, [a[0]]),
        "constant::operator!=": lambda ev, o, a: ev.call(ops["operator!="], o, [a[0]]),
        "constant::operator==": lambda ev, o, a: ev.call(ops["operator=="], o, [a[0]]),
    }
    ev = Evaluator(hooks, {"dec_constant_dom": dec}, ptr_lt=True, prog=prog)
    want = {"operator>": lambda a, b, L: L(b, a), "operator<=": lambda a, b, L: not L(b, a), "operator>=": lambda a, b, L: not L(a, b),
            "operator!=": lambda a, b, L: L(a, b) or L(b, a), "operator==": lambda a, b, L: not (L(a, b) or L(b, a))}
    memo = {}

    def L(a, b):
        k = (id(a), id(b))
        if k not in memo:
            memo[k] = bool(ev.call(lt, a, [b]))
        return memo[k]
    n = 0
    bad = {}
    for a in consts:
        for b in consts:
            for name, f in ops.items():
                n += 1
                got = bool(ev.call(f, a, [b]))
                if got != want[name](a, b, L) and name not in bad:
                    bad[name] = "%r %s %r evaluates to %s but operator< implies %s" % (a, name[8:], b, got, want[name](a, b, L))
    for name in ops:
        key = "O4:constant::" + name
        inst.append((key, {"agrees_with_operator<": name not in bad}))
        if name in bad:
            findings.append({"key": key, "where": "libzwerg/constant.cc:%s" % ops[name]["l"].split(":")[-1],
                             "msg": "constant::%s disagrees with operator<: %s (aliases such as !lt / ?ge would no longer agree)" % (name, bad[name]), "detail": None})
    # semantic anchors of C09 on the abstract domain
    probs = []
    arith = [c for c in consts if c.dom is not None and c.dom.arith]
    for a in arith:
        for b in arith:
            if L(a, b) != (a.value < b.value):
                probs.append("arithmetic constants %r and %r do not compare by value" % (a, b))
    named = [c for c in consts if c.dom is not None and not c.dom.arith]
    for a in named:
        for b in named:
            if a.dom is not b.dom and a.dom.enclosing(a.value) is not b.dom.enclosing(b.value) and not (L(a, b) or L(b, a)):
                probs.append("constants of unrelated domains %r and %r compare equal" % (a, b))
    for a in consts:
        if L(a, a):
            probs.append("%r < itself" % a)
    inst.append(("O4:semantics", {"pairs": len(consts) ** 2, "operator_evaluations": n}))
    for p in probs[:3]:
        findings.append({"key": "O4:semantics", "where": "libzwerg/constant.cc:%s" % lt["l"].split(":")[-1], "msg": p, "detail": None})
    # compare<T>: less iff a<b, greater iff b<a
    tf = [f for f in prog.funcs.values() if f["q"].startswith("compare<")]
    if not tf:
        raise Broken("template compare<T> has no instantiation")
    f = tf[0]
    g = None
    from cfg import CFG
    g = CFG(f)
    shape = []
    for nn in g.nodes:
        if nn.kind == "cond":
            c = nn.ast
            args = None
            if isinstance(c, dict) and c.get("k") == "bin" and c.get("op") == "<":
                args = (unwrap(c["lhs"]).get("n"), unwrap(c["rhs"]).get("n"))
            elif isinstance(c, dict) and c.get("k") == "call" and c.get("op") == "<":
                args = (unwrap(c["a"][0]).get("n"), unwrap(c["a"][1]).get("n"))
            t = [g.nodes[t_] for t_, lab in nn.succs if lab is True]
            r = unwrap(t[0].ast).get("n") if t and t[0].kind == "ret" and isinstance(unwrap(t[0].ast), dict) else None
            shape.append((args, r))
    ok = (("a", "b"), "less") in shape and (("b", "a"), "greater") in shape
    inst.append(("O4:compare<T>", {"shape": shape}))
    if not ok:
        findings.append({"key": "O4:compare<T>", "where": f["l"], "msg": "compare<T> no longer maps a<b to less and b<a to greater: %s" % shape, "detail": None})
    return inst, findings


def o5(prog, tier="quick"):
    """the order on whole stacks (used by the closure's seen-set and by `==` on stacks) is a strict weak order with `==` as its
    equivalence, given a consistent order on slot values: abstract evaluation of compare_stack / stack::operator< / operator=="""
    from r_core import _Vec, _It, _TypeObj
    inst, findings = [], []
    cs = prog.func_opt("(anonymous namespace)::compare_stack")
    lt = prog.func_opt("stack::operator<")
    eq = prog.func_opt("stack::operator==")
    if cs is None or lt is None or eq is None:
        raise Broken("anchors compare_stack / stack::operator< / operator== vanished")
    cmp_enum = None
    for e in prog.enums.values():
        if e["q"] == "cmp_result":
            cmp_enum = {c["n"]: ("enum", c["n"], c["v"]) for c in e["consts"]}

    class V:
        def __init__(self, t, r):
            self.t, self.r = t, r
            self.addr = 9000 + 10 * t + r

        def __repr__(self):
            return "v%d.%d" % (self.t, self.r)

    class S:
        def __init__(self, vals):
            self.m_values = _Vec()
            self.m_values.items = list(vals)

        def __repr__(self):
            return repr(self.m_values.items)
    hooks = {
        "method:size": lambda ev, o, a: len(o.items),
        "method:operator[]": lambda ev, o, a: o.items[int(a[0])] if 0 <= int(a[0]) < len(o.items) else (_ for _ in ()).throw(Broken("operator[] outside the compared vector")),
        "method:at": lambda ev, o, a: o.items[int(a[0])] if 0 <= int(a[0]) < len(o.items) else (_ for _ in ()).throw(Broken("at() outside the compared vector")),
        "method:empty": lambda ev, o, a: not o.items,
        "method:begin": lambda ev, o, a: _It(o, 0),
        "method:end": lambda ev, o, a: _It(o, len(o.items)),
        "method:cbegin": lambda ev, o, a: _It(o, 0),
        "method:cend": lambda ev, o, a: _It(o, len(o.items)),
        "method:rbegin": lambda ev, o, a: _It(o, 0, True),
        "method:rend": lambda ev, o, a: _It(o, len(o.items), True),
        "method:crbegin": lambda ev, o, a: _It(o, 0, True),
        "method:crend": lambda ev, o, a: _It(o, len(o.items), True),
        "method:operator*": lambda ev, o, a: o.deref() if isinstance(o, _It) else o,
        "method:operator->": lambda ev, o, a: o.deref() if isinstance(o, _It) else o,
        "method:operator++": lambda ev, o, a: (setattr(o, "pos", o.pos + 1) or o),
        "method:operator--": lambda ev, o, a: (setattr(o, "pos", o.pos - 1) or o),
        "zw_value::get_type": lambda ev, o, a: _TypeObj(o.t),
        "zw_value::cmp": lambda ev, o, a: cmp_enum["less"] if o.r < a[0].r else (cmp_enum["greater"] if o.r > a[0].r else cmp_enum["equal"]),
        "value_type::operator<": lambda ev, o, a: o._code < a[0]._code,
        "(anonymous namespace)::compare_stack": lambda ev, o, a: ev.call(cs, None, a),
    }
    ev = Evaluator(hooks, {}, ptr_lt=True, prog=prog)
    vals = [V(t, r) for t in (1, 2) for r in (0, 1)]
    stacks = [S(())] + [S((a,)) for a in vals] + [S((a, b)) for a in vals for b in vals]
    if tier == "thorough":
        stacks += [S((a, b, c)) for a in vals for b in vals for c in vals[:2]]
    from r_core import OutOfBounds
    L, E = {}, {}
    bad = None
    for a in stacks:
        for b in stacks:
            try:
                L[(id(a), id(b))] = bool(ev.call(lt, a, [b]))
                E[(id(a), id(b))] = bool(ev.call(eq, a, [b]))
            except OutOfBounds as e:
                L[(id(a), id(b))] = E[(id(a), id(b))] = False
                bad = bad or "comparing %r with %r reads %s" % (a, b, e)
    for a in stacks:
        if L[(id(a), id(a))] or not E[(id(a), id(a))]:
            bad = "%r: irreflexivity / reflexive equality" % a
    for a in stacks:
        for b in stacks:
            ab, ba = L[(id(a), id(b))], L[(id(b), id(a))]
            if ab and ba:
                bad = bad or "%r < %r and %r < %r" % (a, b, b, a)
            if E[(id(a), id(b))] != (not ab and not ba):
                bad = bad or "%r == %r is %s but the order says %s" % (a, b, E[(id(a), id(b))], not ab and not ba)
            same = [(v.t, v.r) for v in a.m_values.items] == [(v.t, v.r) for v in b.m_values.items]
            if E[(id(a), id(b))] != same:
                bad = bad or "%r == %r is %s although the stacks %s slot by slot" % (a, b, E[(id(a), id(b))], "agree" if same else "differ")
    for a in stacks:
        for b in stacks:
            if not L[(id(a), id(b))]:
                continue
            for c in stacks:
                if L[(id(b), id(c))] and not L[(id(a), id(c))]:
                    bad = bad or "%r < %r < %r but not %r < %r" % (a, b, c, a, c)
    inst.append(("O5:stack-order", {"stacks": len(stacks), "pairs": len(L)}))
    if bad:
        findings.append({"key": "O5:stack-order", "where": "libzwerg/stack.cc:%s" % cs["l"].split(":")[-1],
                         "msg": "the order on stacks is not a strict weak order consistent with `==`: %s (the closure's seen-set would yield a stack twice or never terminate)" % bad,
                         "detail": None})
    return inst, findings


class _Mpz:
    """abstract 64-bit integer: the raw bit pattern plus the signedness tag, read through the union members"""
    def __init__(self, value, signed):
        self.math = value
        self.raw = value & 0xffffffffffffffff
        self.signed = signed

    @property
    def m_u(self):
        return self.raw

    @property
    def m_i(self):
        return self.raw - (1 << 64) if self.raw >> 63 else self.raw

    def __repr__(self):
        return "%d%s" % (self.math, "s" if self.signed else "u")


def o6(prog):
    """integer comparison agrees with mathematical order for every combination of signed/unsigned representation, on a
    representative domain of magnitude classes (negative, zero, small, 2^63-1, 2^63, >2^63, 2^64-1)"""
    inst, findings = [], []
    sg = None
    for e in prog.enums.values():
        if e["q"] == "signedness":
            sg = {c["n"]: ("enum", c["n"], c["v"]) for c in e["consts"]}
    if sg is None:
        raise Broken("enum signedness vanished")
    ops = {}
    for f in prog.funcs.values():
        if f["n"] in ("operator<", "operator==", "operator<=", "operator>", "operator>=", "operator!=") and len(f["params"]) == 2 and \
           all(p["t"] == "mpz_class" for p in f["params"]) and not f.get("cls"):
            ops[f["n"]] = f
    if "operator<" not in ops:
        raise Broken("anchor operator<(mpz_class, mpz_class) vanished")

    class M(_Mpz):
        @property
        def m_sign(self):
            return sg["sign"] if self.signed else sg["unsign"]
    vals = []
    for v in (-(1 << 63), -5, -1):
        vals.append(M(v, True))
    for v in (0, 1, 5, (1 << 63) - 1):
        vals.append(M(v, True))
        vals.append(M(v, False))
    for v in (1 << 63, (1 << 63) + 5, (1 << 64) - 1):
        vals.append(M(v, False))
    hooks = {}
    for name, f in ops.items():
        hooks[name] = (lambda ff: (lambda ev, o, a: ev.call(ff, None, a)))(f)
    ev = Evaluator(hooks, {}, ptr_lt=True, prog=prog)
    math = {"operator<": lambda x, y: x < y, "operator==": lambda x, y: x == y, "operator<=": lambda x, y: x <= y,
            "operator>": lambda x, y: x > y, "operator>=": lambda x, y: x >= y, "operator!=": lambda x, y: x != y}
    n = 0
    for name, f in sorted(ops.items()):
        bad = None
        for a in vals:
            for b in vals:
                n += 1
                got = bool(ev.call(f, None, [a, b]))
                if got != math[name](a.math, b.math) and bad is None:
                    bad = "%r %s %r evaluates to %s" % (a, name[8:], b, got)
        key = "O6:mpz:" + name
        inst.append((key, {"agrees_with_mathematical_order": bad is None}))
        if bad:
            findings.append({"key": key, "where": "libzwerg/int.cc:%s" % f["l"].split(":")[-1],
                             "msg": "integer comparison disagrees with mathematical order: %s (s = held signed, u = held unsigned)" % bad, "detail": None})
    inst.append(("O6:domain", {"representatives": len(vals), "evaluations": n}))
    return inst, findings


# ---------------------------------------------------------------------------
# O7: units compare by identity of the libdw unit, not by a section offset alone

def o7(prog):
    """value_cu::cmp / value_abbrev_unit::cmp interpreted on abstract units: two Dwarf files (a file and its dwz alt file) both have a
    unit at offset 0, so only the identity of the Dwarf_CU distinguishes them.  Equal must mean: the same unit."""
    from cxxobj import CxxEvaluator, Obj, Sym
    inst, findings = [], []
    cmp_enum = None
    for e in prog.enums.values():
        if e["q"] == "cmp_result":
            cmp_enum = {c["n"]: ("enum", c["n"], c["v"]) for c in e["consts"]}
    if cmp_enum is None:
        raise Broken("enum cmp_result vanished")

    def three(ev, o, a):
        x, y = a
        if hasattr(x, "addr") or x is None or hasattr(y, "addr"):
            x, y = (0 if x is None else x.addr), (0 if y is None else y.addr)
        return cmp_enum["less"] if x < y else (cmp_enum["greater"] if x > y else cmp_enum["equal"])

    class CU:
        def __init__(self, dwarf, off, serial):
            self.dwarf, self.off, self.addr = dwarf, off, 0x5000 + serial * 0x40

        def __repr__(self):
            return "unit %#x of Dwarf %s" % (self.off, self.dwarf)
    cus = [CU("main", 0, 0), CU("alt", 0, 1), CU("main", 0x20, 2), CU("alt", 0x20, 3)]
    for cls in ("value_cu", "value_abbrev_unit"):
        f = prog.func_opt(cls + "::cmp")
        if f is None:
            raise Broken("anchor %s::cmp vanished" % cls)
        hooks = {"zw_value::as<%s>" % cls: lambda ev, o, a: a[0] if isinstance(a[0], Obj) else None, "compare<*": three}
        ev = CxxEvaluator(hooks, {}, prog=prog)
        vals = []
        for i, cu in enumerate(cus + cus[:1]):
            v = Obj(cls)
            v.m_cu, v.m_offset, v.m_dwctx, v.m_pos = cu, cu.off, Sym.of("dwctx"), i
            v.m_doneness = ("enum", "cooked", 0)
            vals.append(v)
        key = "O7:%s::cmp" % cls
        bad = None
        for a in vals:
            for b in vals:
                r = ev.call(f, a, [b])
                if not (isinstance(r, tuple) and r[0] == "enum"):
                    raise Broken("%s::cmp did not evaluate to a cmp_result" % cls)
                back = ev.call(f, b, [a])
                same = a.m_cu is b.m_cu
                if (r[1] == "equal") != same and bad is None:
                    bad = "%s::cmp answers `%s` for %r and %r: units must compare equal exactly when they are the same unit (a file and its alt file both have a unit at offset 0)" % (cls, r[1], a.m_cu, b.m_cu)
                elif {"less": "greater", "greater": "less", "equal": "equal"}.get(r[1]) != back[1] and bad is None:
                    bad = "%s::cmp is not antisymmetric on %r and %r" % (cls, a.m_cu, b.m_cu)
        inst.append((key, {"abstract_units": len(cus), "pairs": len(vals) ** 2}))
        if bad:
            findings.append({"key": key, "where": "libzwerg/" + f["l"], "msg": bad, "detail": None})
    return inst, findings


def o8(prog):
    """value_attr::cmp interpreted from source on abstract attributes of two DIEs, including zero-size attributes (DW_FORM_flag_present)
    that share their value pointer with the attribute stored after them, the same attribute obtained twice, and attributes of another
    DIE: two attribute values are equal exactly when they are the same attribute (same DIE, same attribute code), and the order is the
    one of (DIE offset, attribute code) - so equality and order agree and different attributes never compare equal."""
    import itertools
    from absint import Evaluator
    inst, findings = [], []
    f = prog.func_opt("value_attr::cmp")
    if f is None or f.get("body") is None:
        raise Broken("anchor value_attr::cmp vanished")
    cmp_enum = None
    for e in prog.enums.values():
        if e["q"] == "cmp_result":
            cmp_enum = {c["n"]: ("enum", c["n"], c["v"]) for c in e["consts"]}
    if cmp_enum is None:
        raise Broken("enum cmp_result vanished")

    class A:
        def __init__(self, off, code, valp):
            self.off, self.code = off, code
            self.m_attr = {"code": code, "valp": valp}
            self.m_die = {"off": off}
            self.addr = id(self)

        def __repr__(self):
            return "attr %#x of DIE %#x" % (self.code, self.off)

    def three(ev, o, a):
        x, y = a
        return cmp_enum["less"] if x < y else (cmp_enum["greater"] if x > y else cmp_enum["equal"])
    hooks = {
        "zw_value::as<value_attr>": lambda ev, o, a: a[0] if isinstance(a[0], A) else None,
        "dwarf_dieoffset": lambda ev, o, a: a[0]["off"],
        "dwarf_whatattr": lambda ev, o, a: a[0]["code"],
        "value_attr::get_die": lambda ev, o, a: o.m_die,
        "compare<*": three,
    }
    ev = Evaluator(hooks, {}, ptr_lt=True, prog=prog)
    # DIE 0x10: external (flag_present, zero size, shares the pointer of what follows), location, name; DIE 0x20: the same codes
    attrs = []
    for off in (0x10, 0x20):
        base = off * 100
        attrs += [A(off, 0x3f, base + 4), A(off, 0x02, base + 4), A(off, 0x03, base + 9), A(off, 0x3c, base + 20), A(off, 0x49, base + 20)]
    attrs.append(A(0x10, 0x02, 0x10 * 100 + 4))       # the location attribute of DIE 0x10 obtained a second time
    bad = None
    n = 0
    for a, b in itertools.product(attrs, repeat=2):
        r = ev.call(f, a, [b])
        n += 1
        got = r[1] if isinstance(r, tuple) else r
        ka, kb = (a.off, a.code), (b.off, b.code)
        want = "equal" if ka == kb else ("less" if ka < kb else "greater")
        if got != want and bad is None:
            bad = "%r compared with %r is `%s`; expected `%s`" % (a, b, got, want)
    inst.append(("O8:value_attr::cmp", {"pairs": n}))
    if bad:
        findings.append({"key": "O8:value_attr::cmp", "where": "libzwerg/" + f["l"],
                         "msg": bad + " (equal exactly for the same attribute of the same DIE, otherwise ordered by DIE offset, then attribute code; a zero-size attribute "
                                      "shares its value pointer with its neighbour)", "detail": None})
    return inst, findings


def o10(prog):
    """The remaining cmp overrides of DWARF / ELF value classes (location-list elements and operations, abbreviation attributes, symbols)
    interpreted from source - the class's cmp and the compare<T> template it goes through - on every pair and triple of a small family of
    abstract objects whose fields range over two or three values each (incl. `crossed` ones: smaller in one field, larger in the next).
    Decided: cmp never fails for two values of the class, a value equals itself and its copy, `A < B` iff `B > A`, and `<` is
    transitive.  Which objects a class chooses to call equal is its own business (C09 does not say), only that the relation is an order."""
    import itertools
    from cxxobj import CxxEvaluator, Obj, Struct, Buf, Ptr, OutOfBounds
    from absint import Thrown
    inst, findings = [], []

    def mk_tuple(ev, o, a):
        return tuple(a)
    hooks = {"std::make_tuple<*": mk_tuple, "std::tie<*": mk_tuple, "std::forward_as_tuple<*": mk_tuple}

    def op_struct(atom, number, number2, offset):
        return Struct("Dwarf_Op", {"atom": atom, "number": number, "number2": number2, "offset": offset})

    def fam_abbrev_attr():
        for off in (0, 3, 5):
            for name in (2, 3):
                v = Obj("value_abbrev_attr")
                v.offset, v.name, v.form, v.m_pos = off, name, 8, 0
                yield v, "abbreviation attribute at offset %#x" % off

    def fam_symbol():
        for idx in (0, 1, 7):
            v = Obj("value_symbol")
            v.m_symidx, v.m_name, v.m_pos, v.m_dwctx = idx, None, 0, None
            v.m_symbol = Struct("GElf_Sym", {"st_value": idx * 16, "st_size": 0, "st_info": 0, "st_other": 0, "st_name": 0, "st_shndx": 0})
            yield v, "symbol #%d" % idx

    def fam_loclist_op():
        for valp in (0x100, 0x200):
            for off in (0, 1, 9):
                v = Obj("value_loclist_op")
                v.m_attr = Struct("Dwarf_Attribute", {"code": 2, "form": 0x18, "valp": valp, "cu": None})
                v.m_dwop = op_struct(0x91, 1, 0, off)
                v.m_pos, v.m_dwctx = 0, None
                yield v, "operation at offset %d of the expression at %#x" % (off, valp)

    def fam_loclist_elem():
        exprs = {"e0": [], "e1": [op_struct(0x91, 1, 0, 0)], "e1b": [op_struct(0x91, 2, 0, 0)], "e1c": [op_struct(0x50, 9, 0, 0)], "e2": [op_struct(0x50, 0, 0, 0), op_struct(0x91, 0, 0, 1)]}
        for valp in (0x100, 0x200):
            for low, high in ((0, 8), (0, 4), (4, 8), (2, 12)):
                for en, ops in exprs.items():
                    v = Obj("value_loclist_elem")
                    v.m_attr = Struct("Dwarf_Attribute", {"code": 2, "form": 0x17, "valp": valp, "cu": None})
                    v.m_low, v.m_high, v.m_exprlen = low, high, len(ops)
                    b = Buf(max(len(ops), 1))
                    for i, o_ in enumerate(ops):
                        b.cells[i] = o_
                    v.m_expr = Ptr(b, 0)
                    v.m_pos, v.m_dwctx = 0, None
                    yield v, "element [%d, %d) with expression %s of the list at %#x" % (low, high, en, valp)
    families = {"value_abbrev_attr": fam_abbrev_attr, "value_symbol": fam_symbol, "value_loclist_op": fam_loclist_op, "value_loclist_elem": fam_loclist_elem}
    flip = {"less": "greater", "greater": "less", "equal": "equal"}
    for cls, fam in families.items():
        f = prog.func_opt(cls + "::cmp")
        if f is None or f.get("body") is None:
            raise Broken("anchor %s::cmp vanished" % cls)
        hk = dict(hooks)
        hk["zw_value::as<%s>" % cls] = lambda ev, o, a, cls=cls: a[0] if getattr(a[0], "_cls", None) == cls else None
        ev = CxxEvaluator(hk, {}, prog=prog)
        vals = list(fam())
        if cls == "value_loclist_elem":
            vals = vals[::3] + vals[1:8]      # a sample that keeps crossed pairs; all 40 would be 64000 triples
        key = "O10:%s::cmp" % cls
        rel = {}
        bad = None
        try:
            for (i, (a, an)), (j, (b, bn)) in itertools.product(enumerate(vals), repeat=2):
                ev.steps = 0
                r = ev.call(f, a, [b])
                if not (isinstance(r, tuple) and r[0] == "enum"):
                    raise Broken("%s::cmp did not evaluate to a cmp_result" % cls)
                rel[(i, j)] = r[1]
                if r[1] not in flip and bad is None:
                    bad = "%s::cmp answers `%s` for two values of its own class (%s / %s)" % (cls, r[1], an, bn)
        except (OutOfBounds, Thrown) as x:
            bad = "%s::cmp cannot be evaluated on %s: %s" % (cls, an, x)
        n = len(vals)
        if bad is None:
            for i in range(n):
                if rel[(i, i)] != "equal":
                    bad = "%s is not equal to itself (%s)" % (vals[i][1], rel[(i, i)])
                    break
        if bad is None:
            for i in range(n):
                for j in range(n):
                    if flip[rel[(i, j)]] != rel[(j, i)]:
                        bad = bad or "%s::cmp: %s compared with %s is `%s`, the other way round `%s`: `A < B` iff `B > A` fails" % (cls, vals[i][1], vals[j][1], rel[(i, j)], rel[(j, i)])
        if bad is None:
            for i in range(n):
                for j in range(n):
                    if rel[(i, j)] not in ("less", "equal"):
                        continue
                    for k in range(n):
                        if rel[(j, k)] not in ("less", "equal"):
                            continue
                        want = "equal" if rel[(i, j)] == rel[(j, k)] == "equal" else "less"
                        if rel[(i, k)] != want:
                            bad = bad or "%s::cmp is not transitive: %s %s %s %s %s, but the first compared with the last is `%s`" % (
                                cls, vals[i][1], "<" if rel[(i, j)] == "less" else "==", vals[j][1], "<" if rel[(j, k)] == "less" else "==", vals[k][1], rel[(i, k)])
        inst.append((key, {"objects": n, "pairs": n * n}))
        if bad:
            findings.append({"key": key, "where": "libzwerg/" + f["l"], "msg": bad, "detail": None})
    return inst, findings
