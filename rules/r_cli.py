"""Command-line rules (C19, C14): K1 -q silences stdout, K2 library never writes stdout,
K3 exit codes, K4 per-input handlers set `errors`."""
from zw import walk, walk_nolambda, unwrap, short, Broken, calls
from cfg import CFG
import r_pure

STDOUT_FUNCS = {"printf", "puts", "putchar", "vprintf", "putchar_unlocked", "puts_unlocked"}
STDOUT_STREAM_FUNCS = {"fputs", "fputc", "fwrite", "fprintf", "putc", "vfprintf"}


def mentions_stdout(e, lambdas=True):
    """list of reasons this AST writes/mentions stdout"""
    out = []
    for x in (walk(e) if lambdas else walk_nolambda(e)):
        if x.get("k") == "ref" and x.get("d") == "global" and x.get("q") in ("std::cout", "stdout", "std::wcout"):
            out.append(x["q"])
        if x.get("k") == "call" and x.get("fn") in STDOUT_FUNCS and not x.get("own"):
            out.append(x["fn"] + "()")
    return out


def k2(prog):
    inst, findings = [], []
    n = 0
    gen = prog.info["gen"]
    for f in prog.funcs.values():
        if not r_pure.in_lib(prog, f):
            continue
        # generated scanner/parser skeleton code is covered by Y1 (flex default rule); user actions
        # carry #line locations of lexer.ll / parser.yy
        body = f.get("body")
        if body is None:
            continue
        n += 1
        for x in walk(body):
            why = None
            if x.get("k") == "ref" and x.get("d") == "global" and x.get("q") in ("std::cout", "stdout", "std::wcout"):
                why = x["q"]
            elif x.get("k") == "call" and x.get("fn") in STDOUT_FUNCS and not x.get("own"):
                why = x["fn"] + "()"
            if why is None:
                continue
            macs = x.get("macs") or []
            if f["n"] in ("yylex", "yy_init_globals", "yyrestart", "yylex_init", "yylex_init_extra") and \
               (not x.get("l") or "lexer.cc" in (x.get("l") or "") or x.get("k") == "ref"):
                # flex skeleton: yyout defaults to stdout, only used by ECHO (rule Y1 decides reachability)
                if not any(m in ("ECHO",) for m in macs) and "ECHO" not in macs:
                    continue
                continue
            findings.append({"key": "K2:%s:%s" % (f["q"], why), "where": x.get("l") or f["l"],
                             "msg": "library function %s writes to standard output (%s): diagnostics must go to stderr and results only through the API" % (f["q"], why),
                             "detail": None})
    inst.append(("K2:library-functions", {"functions_scanned": n}))
    return inst, findings


def _main(prog):
    f = prog.func_opt("main")
    if f is None:
        raise Broken("anchor main() vanished")
    return f


def _verbosity(main):
    """the local variable set by -q; verify it only ever holds the constants 0 / -1"""
    cands = []
    for x in walk(main["body"]):
        if x.get("k") == "decl":
            for v in x["vars"]:
                if v["n"] == "verbosity":
                    cands.append(v)
    if len(cands) != 1:
        raise Broken("main() has no unique local `verbosity` (the -q flag); unmodelled shape")
    v = cands[0]
    vals = set()
    i = v.get("init")
    if not isinstance(i, dict) or "iv" not in i and "v" not in i:
        raise Broken("verbosity is not initialised with a constant")
    vals.add(i.get("iv", i.get("v")))
    for x in walk(main["body"]):
        if x.get("k") == "asg":
            l = unwrap(x["lhs"])
            if isinstance(l, dict) and l.get("k") == "ref" and l.get("id") == v["id"]:
                r = x["rhs"]
                if x["op"] != "=" or not isinstance(r, dict) or ("iv" not in r and "v" not in r):
                    raise Broken("verbosity is assigned a non-constant at %s" % x.get("l"))
                vals.add(r.get("iv", r.get("v")))
        if x.get("k") == "un" and x.get("op") in ("++", "--", "&"):
            l = unwrap(x["e"])
            if isinstance(l, dict) and l.get("k") == "ref" and l.get("id") == v["id"]:
                raise Broken("verbosity is modified/address-taken at unmodelled site")
    if not vals <= {0, -1} or -1 not in vals:
        raise Broken("verbosity takes values %s; the rule models 0 (default) and -1 (-q)" % sorted(vals))
    return v


_derived = {}


def eval_with(e, vid, val):
    """evaluate a condition that only involves variable vid (=val), const locals derived from it, and integer
    constants; None if other things are read"""
    e = unwrap(e)
    if not isinstance(e, dict):
        return None
    k = e.get("k")
    if k == "ref":
        if e.get("id") == vid:
            return val
        if e.get("id") in _derived:
            return eval_with(_derived[e["id"]], vid, val)
        if "iv" in e:
            return e["iv"]
        return None
    if k in ("int", "chr"):
        return e["v"]
    if k == "bool":
        return int(e["v"])
    if "iv" in e and k not in ("call",):
        return e["iv"]
    if k == "un":
        a = eval_with(e["e"], vid, val)
        if a is None:
            return None
        return {"-": -a, "!": int(not a), "+": a, "~": ~a}.get(e["op"])
    if k == "bin":
        a, b = eval_with(e["lhs"], vid, val), eval_with(e["rhs"], vid, val)
        if a is None or b is None:
            return None
        op = e["op"]
        try:
            return {"<": int(a < b), ">": int(a > b), "<=": int(a <= b), ">=": int(a >= b), "==": int(a == b),
                    "!=": int(a != b), "+": a + b, "-": a - b}.get(op)
        except Exception:
            return None
    return None


def k1(prog):
    inst, findings = [], []
    main = _main(prog)
    v = _verbosity(main)
    # the option loop: the loop whose body calls getopt_long
    optloop = None
    for x in walk(main["body"]):
        if x.get("k") in ("while", "for", "do") and any(c.get("fn") in ("getopt_long", "getopt") for part in ("body", "c", "init", "inc", "var")
                                                       if x.get(part) is not None for c in calls(x[part])):
            optloop = x
            break
    if optloop is None:
        raise Broken("option loop (getopt_long) not found in main()")
    exempt = {id(y) for y in walk(optloop)}
    # const locals initialised from an expression of `verbosity` only (e.g. `bool const quiet = verbosity < 0;`)
    _derived.clear()
    assigned = {unwrap(x["lhs"]).get("id") for x in walk(main["body"]) if x.get("k") == "asg" and isinstance(unwrap(x["lhs"]), dict)}
    for x in walk(main["body"]):
        if x.get("k") == "decl":
            for d in x["vars"]:
                if d.get("init") is not None and d["id"] not in assigned and d["id"] != v["id"] and \
                   eval_with(d["init"], v["id"], -1) is not None and eval_with(d["init"], v["id"], 0) is not None:
                    _derived[d["id"]] = d["init"]
    g = CFG(main)

    def edge_ok(n, t, lab):
        if n.kind == "cond" and lab in (True, False):
            r = eval_with(n.ast, v["id"], -1)
            if r is not None and bool(r) != lab:
                return False
        return True
    reach = g.reachable(edge_ok=edge_ok)
    allreach = g.reachable()
    nwr = 0
    for n in g.nodes:
        if not isinstance(n.ast, dict):
            continue
        why = mentions_stdout(n.ast)
        if not why:
            continue
        if id(n.ast) in exempt or any(id(y) in exempt for y in walk(n.ast)):
            continue
        nwr += 1
        key = "K1:main@%s" % n.loc
        if n.id in reach:
            findings.append({"key": "K1:main:%s" % short(n.ast)[:50], "where": "dwgrep/dwgrep.cc:%s" % (n.loc or "?").split(":")[-1],
                             "msg": "stdout is written at %s (`%s`) on a path that is feasible with -q (verbosity == -1)" % (n.loc, short(n.ast)[:80]),
                             "detail": None})
        else:
            inst.append((key, {"write": short(n.ast)[:60], "reachable_without_q": n.id in allreach}))
    if nwr < 5:
        raise Broken("only %d stdout writes found in main() after option parsing (floor 5)" % nwr)
    return inst, findings


def k3(prog):
    inst, findings = [], []
    main = _main(prog)
    body = main["body"]
    if body.get("k") != "try":
        raise Broken("main() is no longer a function-try-block (unmodelled shape)")
    def values(e, depth=0):
        """set of integer values the expression can take, from constants, enumerators, conditionals and the return statements of
        called functions of the repository; None when some operand is not a constant"""
        while isinstance(e, dict) and e.get("k") in ("cast", "paren") and isinstance(e.get("e"), dict) and "iv" not in e:
            e = e["e"]
        if not isinstance(e, dict):
            return None
        if "iv" in e and e.get("k") != "call":
            return {int(e["iv"])}
        if e.get("k") in ("int", "bool"):
            return {int(e["v"])}
        if e.get("k") == "cond":
            a_, b_ = values(e["a"], depth), values(e["b"], depth)
            return None if a_ is None or b_ is None else a_ | b_
        if e.get("k") == "call" and depth < 4:
            g = prog.funcs.get(e.get("fid"))
            if g is None or g.get("body") is None:
                return None
            out = set()
            rets_ = [r for r in walk_nolambda(g["body"]) if r.get("k") == "return"]
            if not rets_:
                return None
            for r in rets_:
                v = values(r.get("e"), depth + 1)
                if v is None:
                    return None
                out |= v
            return out
        return None
    for x in walk_nolambda(body):
        if x.get("k") == "return":
            e = x.get("e")
            vals = values(e)
            key = "K3:return@%s" % x["l"]
            inst.append((key, {"values": sorted(vals) if vals else None}))
            if vals is None:
                raise Broken("main() returns `%s` at %s, whose possible values are not constants (unmodelled)" % (short(e), x["l"]))
            if not vals <= {0, 1, 2}:
                findings.append({"key": key, "where": x["l"], "msg": "main() can return %s (`%s`), outside the documented exit statuses {0,1,2}" % (sorted(vals - {0, 1, 2}), short(e)), "detail": None})
    for h in body["handlers"]:
        rets = [x for x in walk_nolambda(h["body"]) if x.get("k") == "return"]
        key = "K3:handler(%s)" % h["t"]
        inst.append((key, {"returns": [short(r.get("e")) for r in rets]}))
        ok = bool(rets) and all(values(r.get("e")) == {2} for r in rets)
        # the handler must not fall off its end
        gb = CFG({"q": "main-handler", "l": h["l"], "body": h["body"]})
        falls = any(t == gb.exit.id and n.kind != "ret" for n in gb.nodes if n.id in gb.reachable() for t, _ in n.succs)
        if not ok or falls:
            findings.append({"key": key, "where": h["l"], "msg": "function-level handler catch(%s) of main() does not return exit status 2 on every path" % h["t"], "detail": None})
    if not any(h["t"] == "..." for h in body["handlers"]):
        findings.append({"key": "K3:catch-all", "where": main["l"], "msg": "main() has no catch (...) handler: a non-std exception would terminate instead of exit status 2", "detail": None})
    return inst, findings


def k4(prog):
    inst, findings = [], []
    main = _main(prog)
    # the per-input try: the try statement (not the function-try) that calls zw_query_execute
    tries = [x for x in walk_nolambda(main["body"]["body"]) if x.get("k") == "try"
             and any(c.get("fn") == "zw_query_execute" for c in calls(x["body"]))]
    if len(tries) != 1:
        raise Broken("per-input try block around zw_query_execute not found")
    t = tries[0]
    # which error_message overload sets `errors`: the one with a bool& parameter that assigns it
    setters = []
    for f in prog.funcs.values():
        if f["n"] == "error_message":
            refs = [p for p in f["params"] if p["t"].replace(" ", "") == "bool&"]
            if refs and any(x.get("k") == "asg" and isinstance(unwrap(x["lhs"]), dict) and unwrap(x["lhs"]).get("id") == refs[0]["id"]
                            for x in walk(f["body"])):
                setters.append(f["fid"])
    if not setters:
        raise Broken("no error_message overload that sets the error flag")
    errvar = [v for x in walk(main["body"]) if x.get("k") == "decl" for v in x["vars"] if v["n"] == "errors"]
    if len(errvar) != 1:
        raise Broken("local `errors` not found in main()")
    for h in t["handlers"]:
        key = "K4:catch(%s)" % h["t"]
        cs = [c for c in calls(h["body"]) if c.get("fid") in setters
              and any(isinstance(unwrap(a), dict) and unwrap(a).get("id") == errvar[0]["id"] for a in c["a"])]
        direct = [x for x in walk(h["body"]) if x.get("k") == "asg" and isinstance(unwrap(x["lhs"]), dict)
                  and unwrap(x["lhs"]).get("id") == errvar[0]["id"]]
        inst.append((key, {"sets_errors_via": [c["fid"] for c in cs] or [short(d) for d in direct]}))
        if not cs and not direct:
            findings.append({"key": key, "where": h["l"],
                             "msg": "handler catch(%s) of the per-input execution does not record the error (exit status 2 would be lost)" % h["t"],
                             "detail": None})
    if not any(h["t"] == "..." for h in t["handlers"]):
        findings.append({"key": "K4:catch-all", "where": t["l"], "msg": "per-input try has no catch (...)", "detail": None})
    return inst, findings


def k5(prog):
    """the flags that accumulate over all inputs (`match`, `errors`) are only ever set inside the per-input loop"""
    inst, findings = [], []
    main = _main(prog)
    body = main["body"]["body"] if main["body"].get("k") == "try" else main["body"]
    st = body["s"]
    n = 0
    for i, s in enumerate(st):
        if s.get("k") not in ("while", "for", "do") or not any(c.get("fn") == "zw_query_execute" for c in calls(s)):
            continue
        flags = {}
        for prev in st[:i]:
            if prev.get("k") == "decl":
                for v in prev["vars"]:
                    iv = unwrap(v.get("init"))
                    if v.get("t") == "bool" and isinstance(iv, dict) and iv.get("k") == "bool" and iv["v"] is False:
                        flags[v["id"]] = v
        used_after = {y["id"] for later in st[i + 1:] for y in walk(later) if y.get("k") == "ref" and y.get("id") in flags}
        for y in walk(s):
            if y.get("k") == "asg" and isinstance(unwrap(y["lhs"]), dict) and unwrap(y["lhs"]).get("id") in used_after:
                v = flags[unwrap(y["lhs"])["id"]]
                n += 1
                rhs = unwrap(y["rhs"])
                mono = (y["op"] == "=" and isinstance(rhs, dict) and rhs.get("k") == "bool" and rhs["v"] is True) or y["op"] == "|=" or \
                    (y["op"] == "=" and any(z.get("k") == "ref" and z.get("id") == v["id"] for z in walk(y["rhs"])))
                key = "K5:main:%s@%s" % (v["n"], y.get("l"))
                inst.append((key, {"assignment": short(y)[:50], "monotone": mono}))
                if not mono:
                    findings.append({"key": "K5:main:%s" % v["n"], "where": "dwgrep/dwgrep.cc:%s" % (y.get("l") or "?").split(":")[-1],
                                     "msg": "`%s` decides the exit status over ALL inputs but is overwritten per input (`%s`): the status then reflects only the last file/argument combination" % (v["n"], short(y)[:60]),
                                     "detail": None})
        for fl in flags.values():
            if fl["id"] in used_after:
                inst.append(("K5:main:%s" % fl["n"], {"accumulates_over_inputs": True}))
    if n < 1:
        raise Broken("no accumulating status flag assigned inside the per-input loop of main() (anchor `match` vanished)")
    return inst, findings


def k6(prog):
    """the query is executed once per combination of argument values; with a multi-valued argument that has NO value there is no
    combination: main() must test the product of the list sizes for zero before the execution loop dereferences the iterators"""
    inst, findings = [], []
    main = _main(prog)
    body = main["body"]["body"] if main["body"].get("k") == "try" else main["body"]
    prod = None
    for x in walk(body):
        if x.get("k") == "asg" and x.get("op") == "*=" and any(c.get("fn") == "size" for c in calls(x["rhs"])):
            u = unwrap(x["lhs"])
            if isinstance(u, dict) and u.get("k") == "ref":
                prod = u
    if prod is None:
        raise Broken("main() no longer computes the number of argument combinations as a product of sizes (unmodelled shape)")
    g = CFG(main)
    execn = [n for n in g.nodes if isinstance(n.ast, dict) and any(c.get("fn") == "zw_query_execute" for c in calls(n.ast))]
    if not execn:
        raise Broken("zw_query_execute call not found in main()")

    def zero_edge(n, lab):
        """edge taken exactly when the product is zero"""
        if n.kind != "cond" or not isinstance(n.ast, dict):
            return False
        if not any(y.get("k") == "ref" and y.get("id") == prod["id"] for y in walk_nolambda(n.ast)):
            return False
        v0, v1, v2 = (eval_with(n.ast, prod["id"], v) for v in (0, 1, 2))
        if None in (v0, v1, v2):
            return False
        if bool(v0) != bool(v1) and bool(v1) == bool(v2):
            return lab is bool(v0)
        return False
    has_test = any(zero_edge(n, lab) for n in g.nodes for _, lab in n.succs)
    # along the zero edge the execution must be unreachable
    guarded = False
    if has_test:
        starts = [t for n in g.nodes for t, lab in n.succs if zero_edge(n, lab)]
        guarded = all(execn[0].id not in g.reachable(start=s) and execn[0].id != s for s in starts)
        # and the test must dominate the execution
        reach = g.reachable(edge_ok=lambda n, t, lab: True, avoid=lambda n: any(zero_edge(n, l) or zero_edge(n, not l if isinstance(l, bool) else l) for _, l in n.succs))
        guarded = guarded and execn[0].id not in reach
    inst.append(("K6:main:combinations", {"product_variable": prod["n"], "zero_tested_before_execution": bool(has_test and guarded)}))
    if not (has_test and guarded):
        findings.append({"key": "K6:main:combinations", "where": "dwgrep/dwgrep.cc:%s" % (execn[0].loc or "?").split(":")[-1],
                         "msg": "main() never checks that there is at least one combination of argument values: with a multi-valued --a that yields no value (`--a '1 (== 2)'`) the execution loop dereferences the end iterator of an empty list (crash instead of exit status 1)",
                         "detail": None})
    return inst, findings


# ---------------------------------------------------------------------------
# K7: `-a X` passes X as one string value, byte for byte (`-a X` equals `--a '"X"'`)

def k7(prog):
    """parse_arg_literal (and whatever file-local functions it uses) interpreted from source with the libzwerg C API modelled: the
    argument list it returns must hold exactly one string value whose bytes are X, for X containing every character that is special
    inside a Zwerg string literal (`"`, `\\`, `%` followed by a directive letter, `%(`), control and high bytes.  If the function builds
    a query text instead of a value, the text is read with the documented string-literal rules: a `%s`/`%d`/`%x`/`%o`/`%b`/`%(` that
    survives in it is a directive, not text."""
    from cxxobj import CxxEvaluator, Obj, Vec, StdStr, Ptr, OutOfBounds, Sym
    from absint import Thrown, Closure
    inst, findings = [], []
    fs = [f for f in prog.funcs.values() if f["n"] == "parse_arg_literal" and f.get("body") is not None]
    if len(fs) != 1:
        raise Broken("anchor parse_arg_literal vanished")
    f = fs[0]

    class Val:
        def __init__(self, b, pos):
            self.b, self.pos = b, pos
            self.addr = id(self)

    class Query:
        def __init__(self, text):
            self.text = text
            self.addr = id(self)

    def read_literal(text):
        """values yielded by a query that is one double-quoted literal, per doc/syntax.rst; ('directive', what) when the literal
        contains a formatting directive; None when the text is something else"""
        if len(text) < 2 or text[:1] != b'"' or text[-1:] != b'"':
            return None
        out = bytearray()
        i, body = 0, text[1:-1]
        esc = {ord("n"): 10, ord("t"): 9, ord("\\"): 92, ord('"'): 34, ord("a"): 7, ord("b"): 8, ord("e"): 27, ord("f"): 12, ord("r"): 13, ord("v"): 11}
        while i < len(body):
            c = body[i]
            if c == ord('"'):
                return None
            if c == ord("\\"):
                if i + 1 >= len(body):
                    return None
                d = body[i + 1]
                if d in esc:
                    out.append(esc[d])
                    i += 2
                    continue
                return None        # other escapes are not produced by any sensible quoting; unmodelled
            if c == ord("%"):
                d = body[i + 1:i + 2]
                if d == b"%":
                    out.append(ord("%"))
                    i += 2
                    continue
                if d in (b"s", b"d", b"x", b"o", b"b", b"("):
                    return ("directive", "%" + d.decode())
                out.append(c)      # a lone % stands for itself
                i += 1
                continue
            out.append(c)
            i += 1
        return bytes(out)

    def parse_len(ev, o, a):
        voc, ptr, ln = a[0], a[1], int(a[2])
        cells = ptr.cells()
        return Query(bytes(x & 0xff for x in cells[ptr.off:ptr.off + ln]))

    def execute(ev, o, a):
        q = a[0]
        r = read_literal(q.text)
        res = Obj("zw_result")
        if r is None:
            raise Broken("parse_arg_literal evaluates the query `%s`, which is not a plain string literal (unmodelled)" % q.text.decode("latin-1"))
        if isinstance(r, tuple):
            res.stacks = None
            res.why = r[1]
        else:
            st = Obj("zw_stack")
            st.vals = [Val(r, 0)]
            res.stacks = [st]
        return res

    def result_next(ev, o, a):
        r = a[0]
        if r.stacks is None:
            raise Thrown("the literal contains the directive %s: it formats the stack instead of standing for itself" % r.why)
        return r.stacks.pop(0) if r.stacks else None

    def init_str(ev, o, a):
        ptr, ln, pos = a[0], int(a[1]), a[2]
        cells = ptr.cells()
        if ptr.off + ln > len(cells):
            raise OutOfBounds("zw_value_init_str_len reads %d bytes from a buffer of %d" % (ln, len(cells) - ptr.off))
        return Val(bytes(x & 0xff for x in cells[ptr.off:ptr.off + ln]), pos)
    hooks = {
        "zw_value_init_str_len": init_str,
        "zw_value_init_str": lambda ev, o, a: Val(a[0].cstr().encode("latin-1"), a[1]),
        "zw_query_parse_len": parse_len,
        "zw_query_parse": lambda ev, o, a: Query(a[1].cstr().encode("latin-1")),
        "zw_stack_init": lambda ev, o, a: Obj("zw_stack"),
        "zw_query_execute": execute,
        "zw_result_next": result_next,
        "zw_stack_depth": lambda ev, o, a: len(a[0].vals),
        "zw_stack_at": lambda ev, o, a: a[0].vals[len(a[0].vals) - 1 - int(a[1])],
        "zw_value_pos": lambda ev, o, a: a[0].pos,
        "zw_value_clone": lambda ev, o, a: Val(a[0].b, a[1]),
        "ctor:zw_throw_on_error": lambda ev, o, a: Sym.of("throw_on_error"),
        "zw_throw_on_error::operator zw_error **": lambda ev, o, a: Sym.of("errp"),
        "ctor:std::function<*": lambda ev, o, a: a[0],
    }
    ev = CxxEvaluator(hooks, {}, prog=prog)
    inputs = [b"abc", b"", b'a"b', b"a\\b", b"100%", b"a%%b", b"%s", b"50%d", b"%( 1 2 add %)", b"x%x", b"tab\there", b"line\nbreak", b"caf\xc3\xa9"]
    voc = Sym.of("vocabulary")
    key = "K7:parse_arg_literal"
    bad = None
    for x in inputs:
        args = [StdStr(x)] if len(f["params"]) == 1 else [voc if "voc" in p_.get("t", "") else StdStr(x) for p_ in f["params"]]
        shown = x.decode("latin-1").encode("unicode_escape").decode()
        try:
            r = ev.call(f, None, args)
        except Thrown as t:
            bad = bad or "`-a '%s'` is rejected or misread (%s)" % (shown, t)
            continue
        except OutOfBounds as t:
            bad = bad or "`-a '%s'`: %s" % (shown, t)
            continue
        vals = r.items if isinstance(r, Vec) else None
        if vals is None or len(vals) != 1 or not isinstance(vals[0], Val):
            bad = bad or "`-a '%s'` yields %s values instead of one string" % (shown, len(vals) if vals is not None else "?")
        elif vals[0].b != x:
            bad = bad or "`-a '%s'` passes the string `%s`" % (shown, vals[0].b.decode("latin-1").encode("unicode_escape").decode())
    inst.append((key, {"arguments_tried": len(inputs)}))
    if bad:
        findings.append({"key": key, "where": prog.rel(f["file"]) + ":" + f["l"].split(":")[-1],
                         "msg": "%s: `-a X` must pass X itself as one string (it equals `--a '\"X\"'` only with every special character of X quoted)" % bad, "detail": None})
    return inst, findings


def k4b(prog):
    """the error_message overload that the per-input handlers call, interpreted from source for every (-s given?, verbosity in {0,-1}):
    it records the error (sets the flag it is handed) exactly when verbosity >= 0 - whether or not -s silences the text - and it returns
    std::cerr exactly when -s is not given."""
    from cxxobj import CxxEvaluator, Obj, Sym
    from absint import Thrown
    inst, findings = [], []
    setters = [f for f in prog.funcs.values() if f["n"] == "error_message" and f.get("body") is not None
               and any(p["t"].replace(" ", "") == "bool&" for p in f["params"])]
    if len(setters) != 1:
        raise Broken("expected exactly one error_message overload taking the error flag by reference, found %d" % len(setters))
    f = setters[0]
    ps = f["params"]
    if [p["t"].replace(" ", "") for p in ps] != ["bool", "int", "bool&"]:
        raise Broken("error_message has an unexpected signature %s" % [p["t"] for p in ps])
    bad = []
    for no_messages in (False, True):
        for verbosity in (0, -1):
            for before in (False, True):
                ev = CxxEvaluator({"ctor:std::basic_ofstream<char>": lambda ev_, o, a: Obj("sink"),
                                   "ctor:std::basic_ofstream<char, std::char_traits<char>>": lambda ev_, o, a: Obj("sink")}, {}, prog=prog)
                try:
                    r = ev.call(f, None, [no_messages, verbosity, before])
                except Thrown as x:
                    raise Broken("error_message throws on the abstract inputs: %s" % x)
                after = dict.get(ev._last_env, ps[2]["id"])
                want = before or verbosity >= 0
                is_cerr = isinstance(r, Sym) and "cerr" in str(getattr(r, "name", r))
                if bool(after) != want:
                    bad.append("with -s %s and verbosity %d the error flag goes from %s to %s (expected %s): the exit status would not be 2 although an execution raised an error"
                               % ("given" if no_messages else "absent", verbosity, before, after, want))
                if is_cerr == no_messages:
                    bad.append("with -s %s the message goes to %s" % ("given" if no_messages else "absent", "std::cerr" if is_cerr else "a sink"))
    key = "K4b:error_message"
    inst.append((key, {"combinations": 8}))
    if bad:
        findings.append({"key": key, "where": "dwgrep/" + f["l"], "msg": "; ".join(bad[:2]), "detail": bad})
    return inst, findings


# ---------------------------------------------------------------------------
# K8: main() of the driver interpreted end to end on abstract command lines

def k8(prog, tier="quick"):
    """main() of dwgrep interpreted from source on abstract command lines (getopt_long scripted; libzwerg's C API, the file opener, the
    argument parsers and the value dumper summarised: a file opens or not, an argument expression yields 0-2 values, an execution
    yields a planned sequence of result stacks and possibly raises an error before or after some of them, a value prints as its tag).
    For every combination of the options -c -q -s -H -h, 0-2 files (openable or not), 0-2 -a / --a arguments, and five execution plans,
    the exit status, everything written to stdout and the driver's own diagnostics on stderr are compared with the documented
    behaviour: status 2 iff compile error or (without -q) a run-time error, else 0 iff some result; -q prints nothing and exits 0 at the
    first result; unopenable files are reported (unless -s) and skipped, nothing openable -> 1; one execution per combination of
    argument values in row-major order (files first, last argument fastest); header = the file and every multi-valued argument,
    comma separated, `<no-file>` if none, printed iff (-H or several combinations) and not -h; -c prints the count per combination;
    results in order, `---` before multi-value stacks; -s silences exactly the driver's messages."""
    import itertools
    from cxxobj import CxxEvaluator, Obj, Vec, Ptr, StdStr, OStream, Sym, OutOfBounds
    from absint import Thrown
    inst, findings = [], []
    main = _main(prog)

    class Val:
        def __init__(self, name, pos=0):
            self.name, self.pos = name, pos
            self.addr = id(self)

    class Query:
        def __init__(self, text):
            self.text = text
            self.addr = id(self)

    class Result:
        def __init__(self, items):
            self.items = list(items)
            self.addr = id(self)

    class Stack:
        def __init__(self):
            self.vals = []
            self.addr = id(self)

    def cstr(p):
        if isinstance(p, Ptr):
            return p.cstr()
        if isinstance(p, StdStr):
            return p.b.decode("latin-1")
        return str(p)

    def run(optlist, files, openable, arg_values, plan, query_ok, positional_query):
        cout, cerr = OStream(), OStream()
        rest = ([("Q" if query_ok else "BADQ")] if positional_query else []) + list(files)
        perm = ["dwgrep"] + [x for o_, v in optlist for x in ([o_] if v is None else [o_, v])] + rest
        argv_cells = [Ptr([ord(c) for c in s_] + [0], 0) for s_ in perm] + [None]
        state = {"k": 0}

        def getopt_long(ev, o, a):
            if state["k"] >= len(optlist):
                ev.globals["optind"] = len(perm) - len(rest)
                return -1
            o_, v = optlist[state["k"]]
            state["k"] += 1
            ev.globals["optarg"] = Ptr([ord(c) for c in v] + [0], 0) if v is not None else None
            return ev.globals["longarg"] if o_ == "--a" else ord(o_[1])

        def execute(ev, o, a):
            combo = tuple(v.name for v in a[1].vals)
            r = plan(combo)
            if r and r[0] == "throw-at-execute":
                raise Thrown("exec failed")
            if r and r[0] == "throw-other-at-execute":
                t_ = Thrown("not a std::exception")
                t_.etype = "int"
                raise t_
            return Result(r)

        def result_next(ev, o, a):
            r = a[0]
            if not r.items:
                return None
            x = r.items.pop(0)
            if x == "throw":
                raise Thrown("boom")
            s_ = Stack()
            s_.vals = [Val(n_) for n_ in x]
            return s_

        def dump_value(ev, o, a):
            a[0].put(StdStr(("%s{%s}" % (a[1].name, a[2][1] if isinstance(a[2], tuple) else a[2])).encode()))
            return None

        def init_dwarf(ev, o, a):
            fn = cstr(a[0])
            if fn not in openable:
                raise Thrown("cannot open")
            return Val(fn, int(a[1]))

        def parse_q(ev, o, a):
            t = cstr(a[1])
            if t.startswith("BAD"):
                raise Thrown("syntax error")
            return Query(t)
        hooks = {
            "setlocale": lambda ev, o, a: None, "textdomain": lambda ev, o, a: None,
            "gen_options": lambda ev, o, a: Sym.of("long_options"), "gen_shopts": lambda ev, o, a: StdStr(b"opts"),
            "getopt_long": getopt_long,
            "zw_vocabulary_init": lambda ev, o, a: Obj("voc"), "zw_vocabulary_core": lambda ev, o, a: Obj("voc"),
            "zw_vocabulary_dwarf": lambda ev, o, a: Obj("voc"), "zw_vocabulary_add": lambda ev, o, a: True,
            "zw_query_parse_len": parse_q, "zw_query_parse": parse_q,
            "zw_value_init_dwarf": init_dwarf,
            "zw_stack_init": lambda ev, o, a: Stack(),
            "zw_value_pos": lambda ev, o, a: a[0].pos,
            "zw_value_clone": lambda ev, o, a: Val(a[0].name, int(a[1])),
            "zw_stack_push_take": lambda ev, o, a: (a[0].vals.append(a[1]), True)[1],
            "zw_stack_push": lambda ev, o, a: (a[0].vals.append(a[1]), True)[1],
            "zw_query_execute": execute,
            "zw_result_next": result_next,
            "zw_stack_depth": lambda ev, o, a: len(a[0].vals),
            "zw_stack_at": lambda ev, o, a: a[0].vals[int(a[1])] if 0 <= int(a[1]) < len(a[0].vals) else None,
            "dumper::dump_value": dump_value,
            "ctor:dumper": lambda ev, o, a: Obj("dumper"),
            "ctor:zw_throw_on_error": lambda ev, o, a: Sym.of("throw_on_error"),
            "(anonymous namespace)::parse_arg_literal": lambda ev, o, a: Vec([Val("lit:" + cstr(a[0]), 0)], "args"),
            "(anonymous namespace)::parse_arg_eval": lambda ev, o, a: Vec([Val(n_, i) for i, n_ in enumerate(arg_values.get(cstr(a[1]), []))], "args"),
            "show_help": lambda ev, o, a: None,
            "method:get": lambda ev, o, a: o, "method:release": lambda ev, o, a: o,
            "ctor:std::basic_ofstream<char, std::char_traits<char>>": lambda ev, o, a: OStream(),
            "ctor:std::basic_ofstream<char>": lambda ev, o, a: OStream(),
        }
        ev = CxxEvaluator(hooks, {"std::cout": cout, "std::cerr": cerr, "optarg": None, "optind": 1,
                                  "longarg": 1000, "help": 1001, "version": 1002}, prog=prog)
        try:
            rc = ev.call(main, None, [len(perm), Ptr(argv_cells, 0)])
            if isinstance(rc, tuple) and rc and rc[0] == "enum":
                rc = rc[2]                  # an enumerator returned from `int main`: its value
            if isinstance(rc, bool):
                rc = int(rc)
        except Thrown as t:
            rc = "an exception leaves main (%s)" % t
        return rc, cout.text(), cerr.text()

    def expected(flags, files, openable, extra, arg_values, plan, query_ok, count_of_failed=False):
        out, err = [], []
        c, q, s_, H, h = (f in flags for f in "cqsHh")
        if not query_ok:
            return 2, "", None            # the text of a compile error is the library's
        args = []
        if files:
            opened = []
            for fn in files:
                if fn in openable:
                    opened.append(fn)
                elif not s_:
                    err.append("dwgrep: %s: cannot open\n" % fn)
            if not opened:
                return 1, "", "".join(err)
            args.append(opened)
        for kind, v in extra:
            args.append(["lit:" + v] if kind == "-a" else list(arg_values.get(v, [])))
        n = 1
        for a in args:
            n *= len(a)
        if n == 0:
            return 1, "", "".join(err)
        with_header = (H or n > 1) and not h
        errors = match = False
        for combo in itertools.product(*args):
            shown = [combo[i] for i in range(len(args)) if (i == 0 and files) or len(args[i]) > 1]
            header = ",".join("%s{header}" % x for x in shown) if shown else "<no-file>"
            r = plan(tuple(combo))
            count = 0
            failed = None
            if r and r[0] == "throw-at-execute":
                failed = "exec failed"
            elif r and r[0] == "throw-other-at-execute":
                failed = "Unknown error"
            else:
                for x in r:
                    if x == "throw":
                        failed = "boom"
                        break
                    if q:
                        return 0, "", "".join(err)
                    match = True
                    if not c:
                        if with_header:
                            out.append(header + ":\n")
                        if len(x) > 1:
                            out.append("---\n")
                        for v in x:
                            out.append("%s{full}\n" % v)
                    else:
                        count += 1
            if failed is not None:
                if not s_:
                    err.append("dwgrep: %s: %s\n" % (header, failed))
                if not q:
                    errors = True
                if c and not q and count_of_failed:
                    out.append((header + ":" if with_header else "") + "%d\n" % count)
            elif c and not q:
                out.append((header + ":" if with_header else "") + "%d\n" % count)
        return (2 if errors else (0 if match else 1)), "".join(out), "".join(err)
    flagsets = ["", "c", "q", "s", "H", "h", "cH", "ch", "qs", "sc", "Hh", "qc", "qcH"]
    filesets = [([], set()), (["f1"], {"f1"}), (["f1", "f2"], {"f1", "f2"}), (["bad1", "f2"], {"f2"}), (["bad1"], set()), (["f1", "bad2", "f3"], {"f1", "f3"})]
    arg_values = {"A0": [], "A1": ["a"], "A2": ["a1", "a2"], "B2": ["b1", "b2"]}
    extras = [[], [("-a", "x")], [("--a", "A1")], [("--a", "A2")], [("--a", "A0")], [("-a", "x"), ("--a", "A2")], [("--a", "A2"), ("-a", "x")],
              [("--a", "A2"), ("--a", "B2")], [("--a", "A1"), ("--a", "B2")]]

    def mkplan(style):
        def plan(combo):
            k = sum(len(x) for x in combo) + len(combo) + (1 if any(x.endswith("2") for x in combo) else 0)
            if style == "none":
                return []
            if style == "all":
                return [["r@" + "+".join(combo)], ["s1", "s2"]]
            if style == "some":
                return [["r@" + "+".join(combo)]] if k % 2 == 0 else []
            if style == "throw-late":
                return ([["r1"], "throw", ["never"]] if k % 2 == 0 else [["ok@" + "+".join(combo)]])
            if style == "throw-early":
                return ["throw-at-execute"] if k % 2 == 1 else [["ok"]]
            if style == "throw-other":
                return ["throw-other-at-execute"] if k % 2 == 1 else [["ok"]]
            raise AssertionError(style)
        return plan
    styles = ["none", "all", "some", "throw-late", "throw-early", "throw-other"]
    if tier != "thorough":
        filesets = [filesets[i] for i in (0, 1, 2, 3, 4)]
        extras = [extras[i] for i in (0, 1, 3, 4, 5, 6, 7)]     # 5 and 6: a literal before an evaluated argument and the other way round
    n = 0
    bad = {}
    try:
        for flags in flagsets:
            for files, openable in filesets:
                for extra in extras:
                    for style in styles:
                        # what -c prints for an input whose execution fails half-way is not documented: either nothing or the results
                        # counted so far is accepted for that input; the counts of the other inputs are documented all the same
                        lenient = "c" in flags and style.startswith("throw")
                        for positional in (False, True):
                            if positional and (flags or extra):
                                continue
                            optlist = [("-" + f, None) for f in flags] + list(extra) + ([] if positional else [("-e", "Q")])
                            plan = mkplan(style)
                            got = run(optlist, files, openable, arg_values, plan, True, positional)
                            want = expected(flags, files, openable, extra, arg_values, plan, True)
                            n += 1
                            what = "dwgrep %s%s %s with executions that %s" % (
                                " ".join(o_ if v is None else "%s %s" % (o_, v) for o_, v in optlist), " Q" if positional else "", " ".join(files),
                                {"none": "yield nothing", "all": "each yield two stacks", "some": "yield a result for some combinations",
                                 "throw-late": "raise an error after one result for some combinations", "throw-early": "fail to start for some combinations",
                                 "throw-other": "raise something that is not a std::exception for some combinations"}[style])
                            if got[0] != want[0]:
                                bad.setdefault("status", "%s exits with %s; documented status is %s" % (what, got[0], want[0]))
                            elif got[1] != want[1] and not (lenient and got[1] == expected(flags, files, openable, extra, arg_values, plan, True, True)[1]):
                                bad.setdefault("stdout", "%s writes to stdout %r; documented output is %r" % (what, got[1], want[1]))
                            elif want[2] is not None and got[2] != want[2]:
                                bad.setdefault("stderr", "%s writes the diagnostics %r; expected %r" % (what, got[2], want[2]))
        # a query that does not compile: status 2, nothing on stdout
        for flags in ("", "q", "c", "s"):
            optlist = [("-" + f, None) for f in flags] + [("-e", "BADQ")]
            got = run(optlist, ["f1"], {"f1"}, arg_values, mkplan("all"), False, False)
            n += 1
            if got[0] != 2 or got[1] != "":
                bad.setdefault("status", "dwgrep %s -e <query that does not compile> f1 exits with %s and writes %r to stdout; documented: status 2, no output" % (
                    " ".join("-" + f for f in flags), got[0], got[1]))
    except OutOfBounds as x:
        bad.setdefault("status", "main() reads or writes out of bounds: %s" % x)
    for k in ("status", "stdout", "stderr"):
        inst.append(("K8:" + k, {"command_lines": n}))
        if k in bad:
            findings.append({"key": "K8:" + k, "where": "dwgrep/" + main["l"], "msg": bad[k], "detail": None})
    return inst, findings


def k9(prog, driver_only=True):
    """The query can come from a pipe (`-f -` with stdin a pipe or terminal, a FIFO, process substitution).  Input streams are therefore
    only read sequentially: no function of the driver (lambdas included) calls seekg / tellg / unget / putback / sync on a std::istream
    or through its stream buffer (pubseekoff / pubseekpos).  On a non-seekable stream those fail and - with the usual `len > 0 ? len : 0`
    guard - turn the script into the empty query, which compiles and `matches`."""
    inst, findings = [], []
    BAD = ("seekg", "tellg", "unget", "putback", "pubseekoff", "pubseekpos", "pubsync")
    n_stream_fns = 0
    for f in sorted(prog.funcs.values(), key=lambda f: f["fid"]):
        if f.get("body") is None:
            continue
        rel = prog.rel(f.get("file", ""))
        if driver_only and not rel.startswith("dwgrep/"):
            continue
        uses = [c for c in walk(f["body"]) if c.get("k") == "call" and c.get("ismethod") and "basic_i" in (c.get("cls") or "") or
                (c.get("k") == "call" and "basic_streambuf" in (c.get("cls") or "")) or
                (c.get("k") == "ctor" and "istreambuf_iterator" in (c.get("c") or ""))]
        if not uses:
            continue
        n_stream_fns += 1
        key = "K9:" + f["q"]
        bad = [c for c in uses if c.get("fn") in BAD]
        inst.append((key, {"stream_operations": len(uses)}))
        if bad:
            findings.append({"key": key, "where": str(bad[0].get("l") or f["l"]),
                             "msg": "%s calls %s on an input stream: the query may be read from a pipe (`-f -`), where positioning fails and the script is silently replaced by "
                                    "the empty query (exit status 0, `-c` prints 1, compile errors vanish)" % (f["q"], bad[0].get("fn")), "detail": None})
    if n_stream_fns < 1:
        raise Broken("no function of the driver reads an input stream (anchor for -f vanished)")
    return inst, findings
