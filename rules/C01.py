"""C01 stream semantics: R1 (no exhaustion latch), R4 (origin/chain/layout pairing),
R5 (per-input accumulators reset)."""
import os
import r_stream
from zw import Broken
from common import apply as _apply_unused


def apply(rep, rid, what, res, floor):
    rep.rule(rid, what)
    if getattr(res, "broken", None):
        rep.broken.append((rid, res.broken))
        return
    inst, findings = res[0], res[1]
    bad = {f["key"] for f in findings}
    for key, info in inst:
        k = key.split("(")[0] if rid == "R1" else key
        if not any(k == b or key.startswith(b) for b in bad):
            rep.ok(rid, {"instance": key, "info": info} if isinstance(info, dict) else {"instance": key, "note": info})
    for f in findings:
        rep.fail(rid, f["key"], f["where"], f["msg"], f.get("detail"))
    rep.floor(rid, floor)


def run(prog, rep, tier):
    rep.clause = ("R1: every path of every op::next/stringer::next override (86 incl. template instantiations, same-class helpers inlined, "
                  "configuration conditions correlated) that returns 'no stack' passes through an upstream pull unless no state-dependent "
                  "condition lies on it (no exhaustion latch, so sub-expression chains can be re-fed); R4: build_exec/build_pred interpreted from source on a symbolic tree of every "
                  "sub-expression kind: each origin (or ALT tine) feeds exactly one chain, built on the origin's own layout object, and the constructor "
                  "or registration that receives the chain receives that very origin (overload_instance: same rule on its shape); "
                  "R5: state accumulators (containers grown, counters used for numbering) are reset between two inputs; "
                  "R7: on every path from the success edge of an upstream pull to a `no stack` return there is another pull (an op never reports "
                  "exhaustion while its upstream still has input); R6: in op_tine::next the shared upstream is pulled only on paths that established this tine is branch 0 (or the merge cursor "
                  "is reset with the pull), so alternatives are served left to right for every input, not rotated by earlier inputs; "
                  "Y2: the scanner fields that only matter inside %( ... %) (level, in_string) are set to their initial value whenever that start "
                  "condition is entered or provably restored whenever it is left (typestate over the flex actions), so every splice of a format "
                  "string is scanned independently of the previous one; E9: the op engine interpreted as a whole (build_exec/build_pred, every op's constructor / next / state_con / state_des, layout, "
                  "bindings, up-references, the stack class; per-execution state as typed tables per state area; RAII guards, optional and unique_ptr ownership "
                  "modelled) on ~900 (thorough ~2500) query trees over all constructs - juxtaposition, `,`, `||`, assertions, captures, sub-expressions, if-else, "
                  "closures, lexical names, blocks and apply, format strings - with abstract builtin words, against an independent reference implementation of "
                  "the documented meaning: same stacks, same order, exhaustion afterwards, every state slot destroyed; "
                  "E3: op_or::next interpreted from source with an abstract upstream of two inputs and 1-3 abstract branches that yield 0, 1 or 2 "
                  "stacks per input (all combinations): per input exactly all results of the first branch that yields anything; "
                  "R8: in every function that holds a reference into the per-execution state "
                  "area (scon::get), a field handed with std::move to a by-value or && parameter (smart pointers excepted: their moved-from state "
                  "is the `none` the op tests) is assigned, emplaced or reset again on every CFG path to the exit (a value cached for the current "
                  "input, e.g. the suffix a format splice appends to every result, is still intact for the next result); positive control under /verif/controls.")
    rep.not_decided = ("query trees outside the enumerated family (deeper nesting than two levels beyond the curated ones), the builtin words themselves (decided per "
                       "word under C05-C07, C09, C11, C16-C18), and the parser's translation of text into trees (C15).")
    apply(rep, "R1", "no exhaustion latch in next()", r_stream.r1(prog), 60)
    apply(rep, "R4", "origin/chain/layout pairing", r_stream.r4(prog), 17)
    apply(rep, "R5", "per-input accumulators reset on new input", r_stream.r5(prog), 3)
    apply(rep, "R7", "`no stack` is returned only when the upstream pull returned none", r_stream.r7(prog), 60)
    import r_lex
    apply(rep, "N6", "every %( ... %) splice of a literal is delimited on its own, whatever the previous splice contained (scanner simulated)", r_lex.n6(prog), 2)
    apply(rep, "E3", "`A || B`: per input all results of the first alternative that yields anything, nothing else (op_or::next interpreted on abstract branches)", r_stream.e3(prog), 1)
    r8 = r_stream.r8(prog)
    apply(rep, "R8", "values cached in the execution state for the current input are not left moved-from", r8, 1)
    if not getattr(r8, "broken", None) and [i for i in r8[0] if i[0] == "R8:functions-with-state-references"][0][1]["scanned"] < 25:
        raise Broken("R8 saw fewer functions holding a reference into the execution state than confirmed by hand (25)")
    from common import control
    control(rep, "R8", r_stream.r8, ["R8:verif_control_steals::next_bad:m_str"])
    apply(rep, "R6", "a new input is pulled for an ALT-list only by its first branch (left-to-right per input)", r_stream.r6(prog), 1)
    import r_lex
    apply(rep, "Y2", "scanner fields local to a start condition are initialised when it is entered", r_lex.y2(prog), 2)
    import r_core
    apply(rep, "P2b", "the type profile overload dispatch reads equals the types of the top values after every push/pop/drop (stack class interpreted): no stack loses its results to a stale profile", r_core.p2b(prog, tier), 2)
    e9 = r_stream.e9(prog, tier)
    apply(rep, "E9", "the op engine as a whole yields exactly the stacks the documented meaning of the constructs gives, in order, for ~400 (quick) / 2500 (thorough) query trees (build.cc and op.cc interpreted end to end against a reference semantics)", e9, 10)
    import r_pure as _rpq
    apply(rep, "Q4c", "the copies the engine makes of a stack (one per `,` / `||` branch, per capture, per closure step, per constant pushed) never alias storage that `add` mutates in place: branches and inputs stay independent", _rpq.q4c(prog), 3)
    if tier == "thorough" and not os.environ.get("VERIF_NO_MUTANTS"):
        import mutants
        mutants.run_mutants("C01", rep)
