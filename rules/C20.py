"""C20 printed values: Z1 named constants round-trip (exhaustive over all writer tables), Z2 escape tables agree, Z3 hex fill."""
import r_tables
from common import apply, maybe_mutants
from zw import Broken


def run(prog, rep, tier):
    rep.clause = ("Z1: for each of the 20 DWARF constant families, every value the domain's stringer switch can render (586 constants, evaluated by the "
                  "compiler after macro expansion) is a word that the vocabulary maps back to the same (value, domain), every registered word renders to "
                  "a word denoting the same constant, and dw_simple_dom::show prints the table entry unchanged; Z2: dumper::dump_charp interpreted from source on every single byte, every byte followed by a character that could extend an escape, and longer strings; the text is read by the simulated scanner (rule selection from lexer.ll, actions interpreted) and must come back as one literal with the same bytes; Z3: hex fields printed with setw() are zero filled.")
    rep.clause += (" Z4: the show members of the dec/hex/oct/bin domains with the mpz_class inserter, comparison and negation they use, interpreted "
                   "from source with std::ostream's radix/showbase formatting modelled, on 0 and on 2^k, 2^(k+1)-1 (k = 0..63) in every "
                   "representation and sign: the text is an integer literal of the lexer's syntax that reads back as the same value in the same "
                   "domain (three known findings: zero of the hex/oct/bin domains prints `0`).")
    rep.not_decided = ("the numeric values of constants against the DWARF/ELF standards beyond what the system headers define; the radix renderings "
                       "embedded in other values (addresses, offsets), which use the same iostream formatting.")
    r = r_tables.z1(prog)
    apply(rep, "Z1", "named constants round-trip through the vocabulary", (r[0], r[1]), 20)
    rep.extra["Z1_constants"] = r[2]
    import r_pure
    q = r_pure.q1(prog)
    apply(rep, "Q1", "constant domains (shared singletons that render every constant) carry no mutable members or written statics",
          ([i for i in q[0] if i[0].startswith(("Q1i:", "Q1ii"))], [f for f in q[1] if f["key"].startswith(("Q1i:", "Q1ii"))]), 2)
    apply(rep, "Z2", "brief string rendering reads back as the same bytes (writer interpreted, reader simulated from lexer.ll)", r_tables.z2(prog), 3)
    apply(rep, "Z3", "hex fields are zero filled", r_tables.z3(prog), 2)
    apply(rep, "Z4", "integers render in their domain's radix and read back as the same value of the same domain (renderers interpreted on every bit length)", r_tables.z4(prog, tier), 4)
    apply(rep, "Z5", "`value` / `%d` give the same number in the decimal domain for constants of every kind of domain (op_value_cst::operate interpreted)", r_tables.z5(prog), 1)
    apply(rep, "Z6", "the alias predicates on constants (`C ?TAG_x`, `?AT_x`, `?FORM_x`, `?OP_x`) hold exactly when `C == DW_..x` holds: same family and number; never for an equal number of another family (each pred_*_cst built by its constructor, result() and constant::operator== interpreted)", r_tables.z6(prog), 4)
    maybe_mutants("C20", rep, tier)
