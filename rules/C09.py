"""C09 comparison: A3c alias table, O2 sibling rule for cmp overrides, O3 strict weak order on a finite abstract domain."""
import r_pred, r_order
from common import apply, maybe_mutants


def run(prog, rep, tier):
    rep.clause = ("A3c: each of the 18 documented comparison words resolves (through the builtin object registered under that name, its build_pred, "
                  "the predicate class and the relation passed to comparison_result) to the documented (relation, polarity), so all aliases agree; "
                  "O2: every value::cmp override (16) casts its operand to its own class and answers fail exactly for another type; "
                  "O3: constant::operator< and value_die::cmp, interpreted on a finite abstract domain (null/arithmetic/named/overlapping domains, "
                  "all relevant address orders; DIEs with/without import chains), are irreflexive, asymmetric, transitive with transitive equivalence.")
    rep.not_decided = ("byte-wise string order and element-wise sequence order (delegated to std::string::compare / std::mismatch), and orders on "
                       "values whose comparison keys come from libdw at run time.")
    apply(rep, "A3c", "comparison alias table", r_pred.a3c(prog), 18)
    apply(rep, "O2", "cmp overrides cast to their own class", r_order.o2(prog), 15)
    apply(rep, "O3", "strict weak order on the abstract domain", r_order.o3(prog, tier), 1)
    apply(rep, "O8", "attribute values are equal exactly when they are the same attribute of the same DIE, and ordered by (DIE, code) (value_attr::cmp interpreted)", r_order.o8(prog), 1)
    apply(rep, "O3d", "value_die::cmp consistency on abstract DIEs", r_order.o3_die(prog), 1)
    import r_core
    g = r_core.p5(prog, tier)
    apply(rep, "P5", "strings compare bytewise over their whole length (value_str::cmp interpreted on strings with embedded NUL and bytes >= 0x80)",
          ([i for i in g[0] if i[0] == "P5:cmp"], [f for f in g[1] if f["key"] == "P5:cmp"]), 1)
    g = r_core.p6(prog, tier)
    apply(rep, "P6", "sequences compare by length, then element-wise (value_seq::cmp interpreted on abstract sequences)",
          ([i for i in g[0] if i[0] == "P6:cmp"], [f for f in g[1] if f["key"] == "P6:cmp"]), 1)
    apply(rep, "O7", "units compare equal exactly when they are the same unit", r_order.o7(prog), 2)
    apply(rep, "O6", "integer comparison agrees with mathematical order on a representative signed/unsigned domain", r_order.o6(prog), 2)
    apply(rep, "O5", "the order on whole stacks is a strict weak order with == as its equivalence", r_order.o5(prog, tier), 1)
    apply(rep, "O10", "location-list elements and operations, abbreviation attributes and symbols are ordered: each cmp and the compare<T> it uses interpreted on all pairs and triples of abstract objects (never fails within the class, reflexive, `A < B` iff `B > A`, transitive)", r_order.o10(prog), 4)
    import r_elf
    apply(rep, "W5", "named ELF symbol constants of different machines are equal only for the generic codes (most_enclosing of every per-machine STT / STB domain interpreted on all 4-bit codes: machine-specific from LOOS through HIPROC)", r_elf.w5(prog), 4)
    import r_aset
    h7 = r_aset.h7(prog, tier)
    apply(rep, "O9", "address sets are totally ordered: value_aset::cmp interpreted on every pair and triple of sets over a small universe (equal iff same set, antisymmetric, transitive)",
          h7 if getattr(h7, "broken", None) else ([i for i in h7[0] if i[0] == "H7:value_aset::cmp"], [f for f in h7[1] if f["key"] == "H7:value_aset::cmp"]), 1)
    apply(rep, "O4", "all relational operators and compare<T> agree with operator<; arithmetic by value, unrelated domains never equal", r_order.o4(prog, tier), 7)
    rep.assumptions.append("abstract domain of O3: domains {null, 2-3 arithmetic, 2 unrelated named, 2-3 named sharing a sub-domain for values < 2}, values {0,1,(2),3}, all address orders of the domains involved in a triple")
    maybe_mutants("C09", rep, tier)
