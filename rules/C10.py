"""C10 closures: R1 on all next() (closure bodies are re-fed sub-chains), T1 (seen-set cleared per input,
instance of R5), T2 (work-list push guarded by successful insertion into the seen-set)."""
import os
import r_stream
from C01 import apply
from zw import Broken


def run(prog, rep, tier):
    rep.clause = ("R1 (as C01) on every next() override: a closure body is a sub-chain re-fed once per work-list item, so no op in it may latch "
                  "exhaustion; T1: in op_tr_closure the seen-set and the work-list are reset/empty whenever a new input is pulled; "
                  "T2: the only push onto the work-list is control-dependent on `seen.insert(x).second` (termination on cyclic bodies, each stack once).")
    rep.not_decided = ("equality of the yielded set with the reachable set, and termination when the stack ordering is not a strict weak order "
                       "(see C09/O3 for the ordering itself).")
    apply(rep, "R1", "no exhaustion latch in next()", r_stream.r1(prog), 60)
    r5 = r_stream.r5(prog)
    t1 = ([i for i in r5[0] if i[0].startswith("op_tr_closure::")], [f for f in r5[1] if f["key"].startswith("op_tr_closure::")])
    apply(rep, "R5", "T1: closure seen-set/work-list start clean for each input", t1, 2)
    import r_order
    apply(rep, "O5", "the seen-set's order on stacks is a strict weak order consistent with ==", r_order.o5(prog, tier), 1)
    apply(rep, "T4", "`E*` / `E+` yield, for every input in turn, each reachable stack exactly once and then stay exhausted (op_tr_closure interpreted on finite relations)", r_stream.t4(prog, tier), 1)
    import r_lex
    apply(rep, "N3", "`E?` is (E,) and closures are only merged with a closure directly beneath them (grammar actions interpreted from source)", r_lex.n3(prog), 4)
    apply(rep, "T2", "work-list push only after successful seen-set insertion", r_stream.t2(prog), 1)
    e9 = r_stream.e9(prog, tier)
    if getattr(e9, "broken", None):
        apply(rep, "E9", "E* and E+ over converging bodies, alone, on two inputs and inside a capture (engine interpreted against the reference semantics)", e9, 1)
    else:
        apply(rep, "E9", "E* and E+ over converging bodies, alone, on two inputs and inside a capture (engine interpreted against the reference semantics)", ([i for i in e9[0] if i[0] in ('E9:closure',)], [f for f in e9[1] if f["key"] in ('E9:closure',)]), 1)
    import r_front
    apply(rep, "E11", "`E?`, `E*`, `E+` written in query text, stacked and over bodies with cycles, yield what `(E,)` and the closures yield (query text -> scanner simulation -> LALR automaton of parser.yy with every action interpreted -> tree::simplify -> build_exec -> op engine, all interpreted, against the documented meaning of the notation)", r_front.e11(prog, tier, ("E11:suffix",)), 1)
    if tier == "thorough" and not os.environ.get("VERIF_NO_MUTANTS"):
        import mutants
        mutants.run_mutants("C10", rep)
