"""DWARF-side rules: I1 import-chain propagation (C05), G1 single integration predicate and V2 family
agreement (C06), F1/F3/E1 attribute decoding (C07), W2 ELF macro/domain pairing (C18)."""
from zw import walk, walk_nolambda, unwrap, short, Broken, calls
from cfg import CFG

ORIGIN_FUNCS = {"dwpp_cudie": "root of a unit", "dwpp_formref_die": "reference followed",
                "dwarf_formref_die": "reference followed", "dwarf_getlocation_die": "reference from a location operation",
                "dwarf_cu_die": "root of a unit"}
SAME_UNIT_FUNCS = {"dwarf_offdie": "DIE addressed by an offset computed from the current DIE (parent lookup)",
                   "dwarf_child": "child", "dwarf_siblingof": "sibling"}
I1_EXEMPT = {
    "op_cooked_die::operate": "`cooked` applied to a DIE re-labels it; the navigation laws of C05 relate DIEs reached by navigation words, and root/parent stay mutually consistent for an import-less cooked DIE",
}


def _die_provenance(prog, f, e, depth=0):
    """('origin'|'same-unit'|'unknown', why) for the Dwarf_Die expression e inside function f"""
    u = unwrap(e)
    if not isinstance(u, dict):
        return ("unknown", "not an expression")
    if u.get("k") == "un" and u.get("op") == "*":
        return _die_provenance(prog, f, u["e"], depth)
    if u.get("k") == "call":
        fn = u.get("fn")
        if fn in ORIGIN_FUNCS:
            return ("origin", ORIGIN_FUNCS[fn])
        if fn == "get_die" and u.get("cls") in ("value_die",):
            return ("same-unit", "re-wraps the DIE of an existing value_die (%s)" % short(u.get("obj")))
        if fn in ("operator*", "operator->") and u.get("cls") in ("all_dies_iterator", "child_iterator", "sibling_iterator"):
            return ("same-unit", "DIE reached by iterating children/DIEs of the unit (%s)" % u["cls"])
        return ("unknown", "call to %s" % (u.get("f") or fn))
    if u.get("k") == "ref" and u.get("d") in ("local", "param"):
        vid = u["id"]
        # declared with an initialiser?
        for x in walk(f.get("body")):
            if x.get("k") == "decl":
                for v in x["vars"]:
                    if v["id"] == vid and v.get("init") is not None:
                        i = unwrap(v["init"])
                        if isinstance(i, dict) and i.get("k") == "ctor" and not i["a"]:
                            continue
                        return _die_provenance(prog, f, v["init"], depth + 1)
        # filled through an out-parameter
        res = []
        for c in calls(f.get("body")):
            for idx, a in enumerate(c.get("a", [])):
                ua = unwrap(a)
                byaddr = isinstance(ua, dict) and ua.get("k") == "un" and ua.get("op") == "&" and \
                    isinstance(unwrap(ua["e"]), dict) and unwrap(ua["e"]).get("id") == vid
                byref = isinstance(ua, dict) and ua.get("k") == "ref" and ua.get("id") == vid
                if not (byaddr or byref):
                    continue
                fn = c.get("fn")
                if fn in ORIGIN_FUNCS:
                    res.append(("origin", ORIGIN_FUNCS[fn]))
                elif fn in SAME_UNIT_FUNCS:
                    res.append(("same-unit", SAME_UNIT_FUNCS[fn]))
                elif c.get("own") and byref and depth < 3:
                    callee = prog.funcs.get(c.get("fid"))
                    if callee and idx < len(callee["params"]) and "Dwarf_Die &" in callee["params"][idx]["t"] and \
                       "const" not in callee["params"][idx]["t"]:
                        pref = {"k": "ref", "d": "param", "id": callee["params"][idx]["id"], "n": callee["params"][idx]["n"]}
                        res.append(_die_provenance(prog, callee, pref, depth + 1))
        if u.get("d") == "param" and not res:
            # a by-value / const-reference parameter: the provenance is that of the argument at every call site
            pidx = [i for i, p_ in enumerate(f.get("params", [])) if p_["id"] == vid]
            if pidx and depth < 3:
                got = []
                for g in prog.funcs.values():
                    if g.get("body") is None or g is f:
                        continue
                    for c in calls(g["body"]):
                        if c.get("fid") == f["fid"] and len(c.get("a", [])) > pidx[0]:
                            got.append(_die_provenance(prog, g, c["a"][pidx[0]], depth + 1))
                kinds = {r[0] for r in got}
                if got and kinds == {"origin"}:
                    return ("origin", "%s at every call site of %s" % (got[0][1], f["q"]))
                if "same-unit" in kinds:
                    return [r for r in got if r[0] == "same-unit"][0]
            return ("unknown", "parameter %s" % u["n"])
        kinds = {r[0] for r in res}
        if kinds == {"origin"}:
            return res[0]
        if "same-unit" in kinds:
            return [r for r in res if r[0] == "same-unit"][0]
        return ("unknown", "variable %s" % u["n"])
    if u.get("k") == "mem":
        return ("unknown", "member %s" % u["n"])
    return ("unknown", u.get("k"))


def i1(prog):
    inst, findings = [], []
    sites = []
    for f in prog.funcs.values():
        if f["q"].startswith("std::") or f.get("cls", "").startswith("value_die"):
            continue
        for x in walk(f.get("body")):
            args = None
            if x.get("k") == "ctor" and x.get("c") == "value_die" and not x.get("cm"):
                args = x["a"]
            elif x.get("k") == "call" and x.get("f", "").startswith(("std::make_unique<value_die", "std::make_shared<value_die")):
                args = x["a"]
                if len(args) == 1:
                    continue    # copy
            if args is None or len(args) not in (4, 5):
                continue
            sites.append((f, x, args))
    if len(sites) < 12:
        raise Broken("only %d value_die construction sites found (floor 12)" % len(sites))
    seen = set()
    for f, x, args in sites:
        base = f["q"].split("<")[0]
        key = "I1:%s@%s" % (base, x["l"])
        if key in seen:
            continue
        seen.add(key)
        if len(args) == 5:
            die_e, don_e, imp_e = args[2], args[4], args[1]
        else:
            die_e, don_e, imp_e = args[1], args[3], None
        du = unwrap(don_e)
        raw_literal = isinstance(du, dict) and du.get("d") == "enum" and du.get("n") == "raw"
        prov = _die_provenance(prog, f, die_e)
        info = {"args": len(args), "die": short(die_e)[:40], "provenance": prov[0], "why": prov[1], "doneness": short(don_e)}
        inst.append((key, info))
        if len(args) == 5:
            iu = unwrap(imp_e)
            if isinstance(iu, dict) and iu.get("k") == "null" and not raw_literal and prov[0] == "same-unit":
                findings.append({"key": key, "where": x["l"], "msg": "%s builds a DIE value from a same-unit move with a null import chain" % f["q"], "detail": info})
            continue
        if raw_literal or prov[0] == "origin":
            continue
        if base in I1_EXEMPT:
            info["exempt"] = I1_EXEMPT[base]
            continue
        if prov[0] == "unknown":
            raise Broken("cannot determine the provenance of the DIE passed to value_die at %s in %s (%s)" % (x["l"], f["q"], prov[1]))
        findings.append({"key": "I1:%s" % base, "where": x["l"],
                         "msg": "%s wraps a DIE obtained by moving inside the unit (%s) in a value_die WITHOUT the import chain of the DIE it came from: for a cooked DIE inside an imported partial unit, `parent`/`root` lose the importing unit" % (f["q"], prov[1]),
                         "detail": info})
    return inst, findings


# ---------------------------------------------------------------------------
# G1: one exclusion predicate for attribute integration

def g1(prog):
    from r_scope import switch_groups
    inst, findings = [], []
    pred = prog.func_opt("(anonymous namespace)::attr_should_be_integrated")
    if pred is None:
        raise Broken("anchor attr_should_be_integrated vanished")
    # decided by evaluating the predicate's source on every DW_AT_* code of dwarf.h (plus one code no header names)
    from absint import Evaluator
    names = _enum_names(prog, "DW_AT_")
    ev = Evaluator({}, {}, prog=prog)
    excluded = set()
    for code in sorted(names) + [0x3ff0]:
        r = ev.call(pred, None, [code])
        if not isinstance(r, bool):
            raise Broken("attr_should_be_integrated does not evaluate to a boolean for code %#x" % code)
        if not r:
            excluded.update(names.get(code, ["%#x" % code]))
    default_true = ev.call(pred, None, [0x3ff0]) is True
    key = "G1:attr_should_be_integrated"
    inst.append((key, {"excluded": sorted(excluded), "default_integrates": default_true}))
    if excluded != {"DW_AT_sibling", "DW_AT_declaration"} or default_true is not True:
        findings.append({"key": key, "where": pred["l"],
                         "msg": "the integration predicate excludes %s (documented: DW_AT_sibling and DW_AT_declaration only) / default integrates=%s" % (sorted(excluded), default_true),
                         "detail": None})
    users = []
    for f in prog.funcs.values():
        if not prog.rel(f["file"]).startswith("libzwerg/") or "test-" in f["file"]:
            continue
        if f is pred:
            continue
        from cfg import contains_assert
        refs = []
        body = f.get("body")
        if body is None:
            continue

        def rec(n):
            if isinstance(n, list):
                for x in n:
                    rec(x)
                return
            if not isinstance(n, dict):
                return
            if n.get("k") in ("cond", "call") and contains_assert(n):
                return
            if n.get("k") == "ref" and n.get("d") == "enum" and n.get("n") in ("DW_AT_specification", "DW_AT_abstract_origin"):
                if not any(m.startswith(("DWARF_ONE_KNOWN", "DWARF_ALL_KNOWN")) for m in (n.get("macs") or [])):
                    refs.append(n)       # (references expanded from the constant-name tables are not navigation)
            for v in n.values():
                if isinstance(v, (dict, list)):
                    rec(v)
        rec(body)
        if not refs:
            continue
        uses = any(c.get("fn") == "attr_should_be_integrated" for c in calls(body))
        key = "G1:" + f["q"]
        users.append(f["q"])
        inst.append((key, {"consults_predicate": uses}))
        if not uses:
            findings.append({"key": key, "where": f["l"],
                             "msg": "%s follows DW_AT_specification/DW_AT_abstract_origin but does not consult attr_should_be_integrated: `attribute` and `@AT_x`/`?AT_x` would integrate different attribute sets" % f["q"],
                             "detail": None})
    if len(users) < 2:
        raise Broken("fewer functions following specification/abstract_origin than confirmed by hand (2)")
    return inst, findings


# ---------------------------------------------------------------------------
# V2: family agreement (sugar words, label/form producers and named constants share code and domain)

FAMILY_SOURCES = {
    "dwarf_tag": "TAG", "dwarf_getabbrevtag": "TAG",
    "dwarf_whatattr": "AT", "dwarf_whatform": "FORM",
}
FAMILY_FIELDS = {("(anonymous)", "atom"): "OP", ("Dwarf_Op", "atom"): "OP", ("value_abbrev_attr", "name"): "AT", ("value_abbrev_attr", "form"): "FORM"}


def _value_family(f, e, depth=0):
    u = unwrap(e)
    if not isinstance(u, dict) or depth > 3:
        return None
    if u.get("k") == "cast":
        return _value_family(f, u.get("e"), depth + 1)
    if u.get("k") == "call" and u.get("fn") in FAMILY_SOURCES:
        return FAMILY_SOURCES[u["fn"]]
    if u.get("k") == "mem" and (u.get("c"), u["n"]) in FAMILY_FIELDS:
        return FAMILY_FIELDS[(u.get("c"), u["n"])]
    if u.get("k") == "ref" and u.get("d") == "local":
        for x in walk(f.get("body")):
            if x.get("k") == "decl":
                for v in x["vars"]:
                    if v["id"] == u["id"] and v.get("init") is not None:
                        return _value_family(f, v["init"], depth + 1)
    return None


def v2(prog):
    from r_tables import expand_calls, dom_of
    inst, findings = [], []
    # (1) the domain registered for each family's named constants, from the add_dw_* lambdas
    voc = [f for f in prog.funcs.values() if f["n"] == "dwgrep_vocabulary_dw" or f["q"].endswith("dwgrep_vocabulary_dw")]
    if len(voc) != 1:
        raise Broken("anchor dwgrep_vocabulary_dw vanished")
    voc = voc[0]
    fam_dom = {}
    fam_lambda = {}
    for x in walk(voc["body"]):
        if x.get("k") == "decl":
            for v in x["vars"]:
                i = unwrap(v.get("init"))
                if isinstance(i, dict) and i.get("k") == "lambda" and v["n"].startswith("add_dw_"):
                    fam = {"add_dw_at": "AT", "add_dw_tag": "TAG", "add_dw_form": "FORM", "add_dw_op": "OP"}.get(v["n"])
                    if fam:
                        fam_lambda[fam] = (v, i)
    if set(fam_lambda) != {"AT", "TAG", "FORM", "OP"}:
        raise Broken("registration lambdas add_dw_at/tag/form/op not all found (unmodelled shape): %s" % sorted(fam_lambda))
    for fam, (v, lam) in sorted(fam_lambda.items()):
        code = lam["params"][0]
        doms = set()
        problems = []
        for c in calls(lam["body"], lambdas=False):
            if c.get("fn") == "add_builtin_constant":
                k = unwrap(c["a"][1])
                a0 = unwrap(k["a"][0])
                d = dom_of(k["a"][1])
                doms.add(d[0] if d else None)
                if not (isinstance(a0, dict) and a0.get("k") == "ref" and a0.get("id") == code["id"]):
                    problems.append("named constant of family %s is not built from the lambda's `%s` parameter at %s" % (fam, code["n"], c["l"]))
            if c.get("fn") in ("add_pred_overload", "add_op_overload"):
                for a in c["a"]:
                    ua = unwrap(a)
                    if not (isinstance(ua, dict) and ua.get("k") == "ref" and ua.get("id") == code["id"]):
                        problems.append("%s<%s> in family %s is not built from `%s` at %s" % (c["fn"], (c.get("targs") or ["?"])[0], fam, code["n"], c["l"]))
        if len(doms) != 1:
            raise Broken("family %s registers constants in %d domains" % (fam, len(doms)))
        fam_dom[fam] = doms.pop()
        inst.append(("V2:lambda:" + fam, {"domain": fam_dom[fam], "code_param": code["n"]}))
        for p in problems:
            findings.append({"key": "V2:lambda:" + fam, "where": v["l"], "msg": p, "detail": None})
        # predicate classes on constants registered in this lambda: their m_const domain
        for c in calls(lam["body"], lambdas=False):
            if c.get("fn") == "add_pred_overload" and c.get("targs"):
                cls = c["targs"][0]
                for g in prog.funcs.values():
                    if g.get("cls") == cls and g.get("isctor"):
                        for i in g.get("inits", []):
                            if i.get("field") == "m_const":
                                for y in walk(i["init"]):
                                    d = dom_of(y) if y.get("k") == "un" else None
                                    if d:
                                        key = "V2:%s::m_const" % cls
                                        inst.append((key, {"domain": d[0], "family": fam}))
                                        if d[0] != fam_dom[fam]:
                                            findings.append({"key": key, "where": g["l"],
                                                             "msg": "%s (registered as ?%s_x on constants) compares in domain %s but the family's named constants live in %s: `DW_%s_x ?%s_x` would never hold" % (cls, fam, d[0], fam_dom[fam], fam, fam),
                                                             "detail": None})
    # (2) every producer that builds a constant from a family's libdw source uses that family's domain
    n = 0
    for f in prog.funcs.values():
        if not prog.rel(f["file"]).startswith("libzwerg/builtin-dw"):
            continue
        for x in walk(f.get("body")):
            if x.get("k") in ("ctor", "ilist") and (x.get("c") == "constant" or x.get("t") == "constant") and len(x.get("a", [])) >= 2 and not x.get("cm"):
                fam = _value_family(f, x["a"][0])
                d = dom_of(x["a"][1])
                if fam is None or d is None:
                    continue
                n += 1
                key = "V2:%s@%s" % (f["q"], x.get("l", "?"))
                inst.append((key, {"family": fam, "domain": d[0]}))
                if d[0] != fam_dom[fam]:
                    findings.append({"key": "V2:%s" % f["q"], "where": x.get("l") or f["l"],
                                     "msg": "%s yields a %s code in domain %s, but ?%s_x / DW_%s_x use %s: `label == DW_%s_x` would be false for every value" % (f["q"], fam, d[0], fam, fam, fam_dom[fam], fam),
                                     "detail": None})
    if n < 6:
        raise Broken("only %d family-valued constant producers found (floor 6)" % n)
    return inst, findings


# ---------------------------------------------------------------------------
# C07: F1 unknown means error, F3/F4/F5 dispatch tables, E1 no libdw error dropped

FORM_CLASS = {}
for _n in ("string", "strp", "line_strp", "strp_sup", "strx", "strx1", "strx2", "strx3", "strx4", "GNU_strp_alt", "GNU_str_index"):
    FORM_CLASS["DW_FORM_" + _n] = "string"
for _n in ("ref_addr", "ref1", "ref2", "ref4", "ref8", "ref_udata", "ref_sup4", "ref_sup8", "GNU_ref_alt", "ref_sig8"):
    FORM_CLASS["DW_FORM_" + _n] = "reference"
FORM_CLASS["DW_FORM_sdata"] = "signed"
FORM_CLASS["DW_FORM_udata"] = "unsigned"
for _n in ("addr", "addrx", "addrx1", "addrx2", "addrx3", "addrx4", "GNU_addr_index"):
    FORM_CLASS["DW_FORM_" + _n] = "address"
for _n in ("flag", "flag_present"):
    FORM_CLASS["DW_FORM_" + _n] = "flag"
for _n in ("data1", "data2", "data4", "data8", "data16", "block", "block1", "block2", "block4", "sec_offset", "implicit_const"):
    FORM_CLASS["DW_FORM_" + _n] = "dependent"      # class decided by the attribute / type
for _n in ("exprloc", "loclistx"):
    FORM_CLASS["DW_FORM_" + _n] = "location"
FORM_CLASS["DW_FORM_rnglistx"] = "ranges"
FORM_CLASS["DW_FORM_indirect"] = "never-seen"      # libdw resolves it

ATE_SIGN = {"DW_ATE_signed": "signed", "DW_ATE_signed_char": "signed", "DW_ATE_unsigned": "unsigned",
            "DW_ATE_unsigned_char": "unsigned", "DW_ATE_address": "unsigned", "DW_ATE_UTF": "unsigned",
            "DW_ATE_boolean": "bool"}

AT_ENUM_PREFIX = {"DW_AT_language": "DW_LANG_", "DW_AT_inline": "DW_INL_", "DW_AT_encoding": "DW_ATE_",
                  "DW_AT_accessibility": "DW_ACCESS_", "DW_AT_visibility": "DW_VIS_", "DW_AT_virtuality": "DW_VIRTUALITY_",
                  "DW_AT_identifier_case": "DW_ID_", "DW_AT_calling_convention": "DW_CC_", "DW_AT_ordering": "DW_ORD_",
                  "DW_AT_decimal_sign": "DW_DS_", "DW_AT_address_class": "DW_ADDR_", "DW_AT_endianity": "DW_END_",
                  "DW_AT_defaulted": "DW_DEFAULTED_"}


_THROWERS = set()


def _throwers(prog):
    """repository functions that never return normally: no `return`, and the last statement is a throw (or a call of
    another such function).  A dispatch arm that calls one of them reports an error just as an inline `throw` does."""
    _THROWERS.clear()
    _PROGREF[0] = prog
    changed = True
    while changed:
        changed = False
        for fid, f in prog.funcs.items():
            body = f.get("body")
            if fid in _THROWERS or not body or not body.get("s"):
                continue
            if any(x.get("k") == "return" for x in walk_nolambda(body)):
                continue
            if _stmt_throws(body["s"][-1]):
                _THROWERS.add(fid)
                changed = True
    return _THROWERS


def _stmt_throws(st):
    st = unwrap(st) if isinstance(st, dict) else st
    if not isinstance(st, dict):
        return False
    if st.get("k") == "throw":
        return True
    if st.get("k") == "call" and (st.get("fn") == "abort" or st.get("fid") in _THROWERS):
        return True
    return False


_DECODER_ANCHORS = ("atval_signed", "atval_addr", "handle_at_dependent_value", "die_ranges", "atval_unsigned_with_domain",
                    "atval_unsigned", "handle_encoding_data")
_PROGREF = [None]


def _through_helpers(stmts, depth=3):
    """the statements of a case group together with the bodies of the helpers of the same source file it calls (a helper is any
    repository function that is not itself one of the decoders the classification is stated in); a case that delegates to
    `atval_ranges (die)` does what atval_ranges does"""
    prog = _PROGREF[0]
    if prog is None or depth == 0:
        return list(stmts)
    out = list(stmts)
    seen = set()
    for s in stmts:
        for c in calls(s):
            fid = c.get("fid")
            if not fid or fid in seen or c.get("fn") in _DECODER_ANCHORS or fid in _THROWERS:
                continue
            seen.add(fid)
            g = prog.funcs.get(fid)
            if g is None or not g.get("body") or not str(g.get("file", "")).endswith("atval.cc"):
                continue
            out.extend(_through_helpers(g["body"].get("s", []), depth - 1))
    return out


def _classify_decoder(stmts):
    """what a case group of at_value / handle_encoding_data does"""
    stmts = _through_helpers(stmts)
    fns = [c.get("fn") for s in stmts for c in calls(s)]
    mk = [c.get("f", "") for s in stmts for c in calls(s) if c.get("f", "").startswith("std::make_unique<")]
    has_throw = any(x.get("k") == "throw" for s in stmts for x in walk(s)) or \
        any(c.get("fid") in _THROWERS for s in stmts for c in calls(s))
    strs = [x["v"] for s in stmts for x in walk(s) if x.get("k") == "str"]
    if "atval_signed" in fns:
        return "signed"
    if "atval_addr" in fns:
        return "address"
    if "dwarf_formflag" in fns:
        return "flag"
    if "dwarf_formstring" in fns:
        return "string"
    if "dwarf_formref_die" in fns:
        return "reference"
    if "handle_at_dependent_value" in fns:
        return "dependent"
    if "die_ranges" in fns:
        return "ranges"
    if any("locexpr_producer" in m for m in mk):
        return "location"
    if "atval_unsigned_with_domain" in fns:
        doms = [short(c["a"][1]) for s in stmts for c in calls(s) if c.get("fn") == "atval_unsigned_with_domain"]
        return "bool" if any("bool_constant_dom" in d for d in doms) else "unsigned-with-domain"
    if "atval_unsigned" in fns:
        return "unsigned"
    if has_throw:
        return "error"
    if any("unhandled" in s.lower() for s in strs) and "operator<<" in fns:
        return "diagnostic"
    if "abort" in fns:
        return "never-seen"
    rets = [x for s in stmts for x in walk(s) if x.get("k") == "return"]
    if rets and all(isinstance(unwrap(r.get("e")), dict) and (unwrap(r["e"]).get("k") == "null" or short(r["e"]) in ("nullptr", "std::unique_ptr{nullptr}")) for r in rets):
        return "not-decoded"
    return "unknown"


def _enum_names(prog, prefix):
    out = {}
    for e in prog.enums.values():
        if e["file"] == "/usr/include/dwarf.h":
            for c in e["consts"]:
                if c["n"].startswith(prefix):
                    out.setdefault(c["v"], []).append(c["n"])
    if not out:
        raise Broken("no %s* enumerators found in the system dwarf.h" % prefix)
    return out


def f1(prog):
    from r_scope import switch_groups
    from zw import is_null_stack_expr
    inst, findings = [], []
    _throwers(prog)
    for q, guard in (("at_value", None), ("(anonymous namespace)::handle_at_dependent_value", None)):
        f = prog.func_opt(q)
        if f is None:
            raise Broken("anchor %s vanished" % q)
        sws = [x for x in f["body"]["s"] if x.get("k") == "switch"]
        if len(sws) != 1:
            raise Broken("%s no longer dispatches with one top-level switch (unmodelled shape)" % q)
        key = "F1:" + q.split("::")[-1]
        probs = []
        for labels, stmts in switch_groups(sws[0]):
            if "default" in labels:
                cls = _classify_decoder(stmts)
                if cls not in ("error", "never-seen"):
                    probs.append("the `default` label of %s decodes unknown codes as `%s` instead of reporting them" % (q, cls))
        last = f["body"]["s"][-1]
        ends_in_throw = _stmt_throws(last)
        if not ends_in_throw:
            probs.append("%s no longer ends in a throw: a code that matches no case falls off into `%s`" % (q, last.get("k")))
        inst.append((key, {"ends_in_throw": ends_in_throw}))
        for p in probs:
            findings.append({"key": key, "where": f["l"], "msg": p, "detail": None})
    # handle_encoding_data interpreted on every DW_ATE_* code of dwarf.h and on codes that name no encoding: the signed encodings are
    # decoded as signed, unsigned / address / UTF as unsigned, boolean in the boolean domain, and a code that is no encoding at all
    # raises an error (it is never silently decoded)
    from cxxobj import CxxEvaluator, Struct, Sym, OutOfBounds
    from absint import Thrown
    f = prog.func_opt("(anonymous namespace)::handle_encoding_data")
    if f is None or f.get("body") is None:
        raise Broken("anchor handle_encoding_data vanished")
    ate = {c["n"]: c["v"] for e in prog.enums.values() if e["file"] == "/usr/include/dwarf.h" for c in e["consts"] if c["n"].startswith("DW_ATE_")}
    if len(ate) < 15:
        raise Broken("DW_ATE_* constants vanished from dwarf.h")
    hooks = {"(anonymous namespace)::atval_signed": lambda ev, o, a: ("signed", None),
             "(anonymous namespace)::atval_unsigned": lambda ev, o, a: ("unsigned", None),
             "(anonymous namespace)::atval_unsigned_with_domain": lambda ev, o, a: ("unsigned", getattr(a[1], "q", a[1])),
             "dw_encoding_dom": lambda ev, o, a: Sym.of("dw_encoding_dom"),
             "zw_cdom::show": lambda ev, o, a: None, "constant_dom::show": lambda ev, o, a: None}
    ev = CxxEvaluator(hooks, {}, prog=prog)
    want = {"DW_ATE_signed": "signed", "DW_ATE_signed_char": "signed", "DW_ATE_unsigned": "unsigned", "DW_ATE_unsigned_char": "unsigned",
            "DW_ATE_address": "unsigned", "DW_ATE_UTF": "unsigned", "DW_ATE_boolean": "unsigned"}
    bad = None
    known = set(ate.values())
    unknown = [x for x in (0, 0x13, 0x55, 0x7f, 0x100, 0xffff) if x not in known and not (ate.get("DW_ATE_lo_user", 0x80) <= x <= ate.get("DW_ATE_hi_user", 0xff))]
    for name, code in sorted(ate.items()) + [("<no encoding %#x>" % u, u) for u in unknown]:
        attr = Struct("Dwarf_Attribute", {})
        attr.code, attr.form, attr.valp, attr.cu = 0x1c, 0x0b, Sym.of("valp"), Sym.of("cu")
        try:
            r = ev.call(f, None, [attr, code])
            out = r[0] if isinstance(r, tuple) else ("block" if r is None else "?")
        except Thrown:
            out = "error"
        except OutOfBounds as x:
            raise Broken("handle_encoding_data cannot be evaluated: %s" % x)
        if name in want and out != want[name] and bad is None:
            bad = "a constant whose type has the encoding %s is decoded as %s; expected %s" % (name, out, want[name])
        if name.startswith("<no encoding") and out != "error" and bad is None:
            bad = "the code %#x, which names no base-type encoding, is decoded as %s instead of being reported as an error" % (code, out)
    inst.append(("F1:handle_encoding_data", {"encodings": len(ate), "non_encodings": len(unknown)}))
    if bad:
        findings.append({"key": "F1:handle_encoding_data", "where": f["l"], "msg": bad, "detail": None})
    return inst, findings


def f3(prog):
    from r_scope import switch_groups
    from r_tables import writer_tables, intval, dom_of
    inst, findings = [], []
    _throwers(prog)
    # forms
    f = prog.func("at_value")
    sw = [x for x in f["body"]["s"] if x.get("k") == "switch"][0]
    names = _enum_names(prog, "DW_FORM_")
    seen = set()
    for labels, stmts in switch_groups(sw):
        cls = _classify_decoder(stmts)
        for l in labels:
            if l == "default":
                continue
            v = intval(l)
            for nm in names.get(v, ["?%s" % v]):
                seen.add(nm)
                exp = FORM_CLASS.get(nm)
                key = "F3:" + nm
                inst.append((key, {"decoder": cls, "dwarf5_class": exp}))
                if exp is None:
                    raise Broken("no DWARF 5 class known to the checker for %s" % nm)
                if cls == "unknown":
                    raise Broken("cannot classify what at_value does for %s (unmodelled decoder)" % nm)
                if cls != exp and cls not in ("diagnostic", "error"):
                    findings.append({"key": key, "where": "libzwerg/atval.cc:%s" % f["l"].split(":")[-1],
                                     "msg": "%s is decoded as `%s` but DWARF 5 (7.5.6) makes it class `%s`" % (nm, cls, exp), "detail": None})
    unl = sorted(n for v in names.values() for n in v if n not in seen)
    inst.append(("F3:unlisted-forms", {"fall_to_error": unl}))
    if len(seen) < 40:
        raise Broken("only %d forms dispatched in at_value (floor 40)" % len(seen))
    # encodings
    g = prog.func("(anonymous namespace)::handle_encoding_data")
    sw = [x for x in walk(g["body"]) if x.get("k") == "switch"][0]
    names = _enum_names(prog, "DW_ATE_")
    for labels, stmts in switch_groups(sw):
        cls = _classify_decoder(stmts)
        for l in labels:
            if l == "default":
                continue
            for nm in names.get(intval(l), []):
                exp = ATE_SIGN.get(nm)
                key = "F5:" + nm
                inst.append((key, {"decoder": cls, "expected": exp}))
                if exp is not None and cls != exp:
                    findings.append({"key": key, "where": "libzwerg/atval.cc:%s" % g["l"].split(":")[-1],
                                     "msg": "values whose type has encoding %s are decoded as `%s`, expected `%s`" % (nm, cls, exp), "detail": None})
                if exp is None and cls not in ("not-decoded", "error"):
                    findings.append({"key": key, "where": "libzwerg/atval.cc:%s" % g["l"].split(":")[-1],
                                     "msg": "encoding %s (not an integer encoding) is decoded as `%s`" % (nm, cls), "detail": None})
    # enumerated attributes -> constant family: handle_at_dependent_value is interpreted on an attribute of each kind in a one-byte data
    # form; the domain it hands to the unsigned decoder must be the one whose names carry the attribute's DWARF prefix (DW_LANG_ for
    # DW_AT_language, ...).  No assumption about how the function is organised (a switch, a lookup helper, an if-chain).
    from cxxobj import CxxEvaluator, Obj, Struct, Sym, OutOfBounds
    from absint import Thrown
    W = writer_tables(prog)
    h = prog.func("(anonymous namespace)::handle_at_dependent_value")
    acodes = {c["n"]: c["v"] for e in prog.enums.values() if e["file"] == "/usr/include/dwarf.h" for c in e["consts"] if c["n"].startswith("DW_AT_")}
    fcodes = {c["n"]: c["v"] for e in prog.enums.values() if e["file"] == "/usr/include/dwarf.h" for c in e["consts"] if c["n"].startswith("DW_FORM_")}
    hooks = {
        "dwarf_whatattr": lambda ev, o, a: a[0].code, "dwarf_whatform": lambda ev, o, a: a[0].form,
        "(anonymous namespace)::atval_unsigned_with_domain": lambda ev, o, a: ("dom", a[1]),
        "(anonymous namespace)::atval_unsigned": lambda ev, o, a: ("dom", ("domfn", "dec_constant_dom")),
        "(anonymous namespace)::atval_signed": lambda ev, o, a: ("signed",),
        "value_die::get_die": lambda ev, o, a: o.m_die,
        "throw_libdw": lambda ev, o, a: (_ for _ in ()).throw(Thrown("libdw error")),
    }
    for d in W:
        hooks[d] = (lambda d: lambda ev, o, a: ("domfn", d))(d)
    ev4 = CxxEvaluator(hooks, {}, prog=prog)
    n = 0
    for nm, want_prefix in sorted(AT_ENUM_PREFIX.items()):
        if nm not in acodes:
            raise Broken("%s is not in the system dwarf.h" % nm)
        attr = Struct("Dwarf_Attribute", {"code": acodes[nm], "form": fcodes["DW_FORM_data1"], "valp": 1, "cu": None})
        vd = Obj("value_die")
        vd.m_die = Struct("Dwarf_Die", {"cu": None})
        key = "F4:" + nm
        try:
            ev4.steps = 0
            r = ev4.call(h, None, [attr, vd, Sym.of("dwctx")])
        except Thrown as x:
            r = ("error", str(x))
        except OutOfBounds as x:
            raise Broken("handle_at_dependent_value cannot be evaluated for %s: %s" % (nm, x))
        n += 1
        dom = r[1] if isinstance(r, tuple) and len(r) == 2 and r[0] == "dom" else None
        if isinstance(dom, tuple) and dom and dom[0] == "domfn":
            dn = dom[1]
            pref = [W[dn]["prefix"]] if dn in W else []
        else:
            dn, pref = repr(r), []
        inst.append((key, {"domain": dn, "prefix": pref, "expected_prefix": want_prefix}))
        if pref != [want_prefix]:
            findings.append({"key": key, "where": "libzwerg/atval.cc:%s" % h["l"].split(":")[-1],
                             "msg": "%s values are rendered in constant family %s, expected %s*" % (nm, pref or dn, want_prefix), "detail": None})
    if n < 10:
        raise Broken("only %d enumerated attributes dispatched (floor 10)" % n)
    return inst, findings


# fallible libdw/libdwfl/libelf functions -> how failure is reported
FALLIBLE = {
    "dwarf_offdie": "null", "dwarf_formref_die": "null", "dwarf_attr": "null", "dwarf_attr_integrate": "null",
    "dwarf_cu_die": "null", "dwarf_diecu": "null", "dwarf_filesrc": "null", "dwarf_formstring": "null",
    "dwarf_getabbrev": "null", "dwarf_begin": "null", "dwfl_begin": "null", "dwfl_report_offline": "null",
    "dwfl_module_getdwarf": "null", "dwfl_module_getelf": "null", "gelf_getehdr": "null", "dwarf_getalt": "null-ok",
    "dwarf_formudata": "nonzero", "dwarf_formsdata": "nonzero", "dwarf_formaddr": "nonzero", "dwarf_formflag": "nonzero",
    "dwarf_formblock": "nonzero", "dwarf_getsrcfiles": "nonzero", "dwarf_getlocation_die": "nonzero",
    "dwarf_getlocation_attr": "nonzero", "dwarf_getlocation_implicit_value": "nonzero", "dwarf_getabbrevattr": "nonzero",
    "dwarf_macro_opcode": "nonzero", "dwarf_macro_param1": "nonzero", "dwarf_macro_param2": "nonzero", "dwarf_macro_param": "nonzero",
    "dwfl_report_end": "nonzero",
    "dwarf_getmacros": "negative", "dwarf_ranges": "negative", "dwarf_nextcu": "negative", "dwarf_child": "negative",
    "dwarf_siblingof": "negative", "dwarf_getattrs": "negative", "dwarf_getlocations": "negative",
    "dwarf_getlocation": "negative", "dwfl_getmodules": "negative", "dwfl_module_getsymtab": "negative",
    "dwarf_getattrcnt": "nonzero", "dwarf_haschildren": "negative", "dwarf_next_unit": "negative",
}
E1_EXEMPT = {
    ("(anonymous namespace)::open_dwfl", "dwfl_getmodules"): "priming pass over the modules; failures resurface when the modules are iterated",
    ("op_abbrev_die::operate", "dwarf_haschildren"): "called only to force the abbreviation lookup on a DIE already validated by iteration",
}


def e1(prog):
    inst, findings = [], []
    n = 0
    for f in prog.funcs.values():
        rel = prog.rel(f["file"])
        if not rel.startswith("libzwerg/") or "/test-" in rel:
            continue
        body = f.get("body")
        if body is None:
            continue
        # parent map
        parent = {}

        def rec(node, par):
            if isinstance(node, list):
                for x in node:
                    rec(x, par)
                return
            if not isinstance(node, dict):
                return
            parent[id(node)] = par
            for v in node.values():
                if isinstance(v, (dict, list)):
                    rec(v, node)
        rec(body, None)
        for i in f.get("inits", []):
            rec(i.get("init"), None)
        nodes = list(walk(body)) + [x for i in f.get("inits", []) for x in walk(i.get("init"))]
        cond_vars = set()
        for x in nodes:
            if x.get("k") in ("if", "while", "for", "do", "cond", "switch") and x.get("c") is not None:
                for y in walk(x["c"]):
                    if y.get("k") == "ref" and y.get("id") is not None:
                        cond_vars.add(y["id"])
            if x.get("k") in ("if", "while") and x.get("var"):
                cond_vars.add(x["var"]["id"])
            if x.get("k") == "bin" and x.get("op") in ("==", "!=", "<", ">", "<=", ">="):
                for y in walk(x):
                    if y.get("k") == "ref" and y.get("id") is not None:
                        cond_vars.add(y["id"])
        for c in nodes:
            if c.get("k") != "call" or c.get("fn") not in FALLIBLE or c.get("own"):
                continue
            n += 1
            key = "E1:%s:%s@%s" % (f["q"].split("<")[0], c["fn"], c.get("l"))
            # climb: comparison / condition / negation / assignment to a checked variable / returned / passed on
            cur = c
            verdict = None
            while True:
                par = parent.get(id(cur))
                if par is None:
                    verdict = "discarded"
                    break
                k = par.get("k")
                if k in ("bin",) and par.get("op") in ("==", "!=", "<", ">", "<=", ">="):
                    verdict = "compared"
                    break
                if k == "un" and par.get("op") == "!":
                    verdict = "compared"
                    break
                if k in ("if", "while", "for", "do", "cond", "switch") and par.get("c") is cur:
                    verdict = "compared"
                    break
                if k == "return":
                    verdict = "returned"
                    break
                if k == "asg" and par.get("rhs") is cur:
                    tgt = unwrap(par["lhs"])
                    vid = tgt.get("id") if isinstance(tgt, dict) else None
                    if vid in cond_vars or (isinstance(tgt, dict) and tgt.get("k") == "mem"):
                        verdict = "assigned-then-checked" if vid in cond_vars else "stored-in-member"
                    else:
                        verdict = "assigned-unchecked"
                    break
                if "init" in par and par.get("init") is cur and "id" in par:
                    verdict = "assigned-then-checked" if par["id"] in cond_vars else "assigned-unchecked"
                    break
                if k in ("call", "ctor") and cur is not par.get("obj") and any(a is cur for a in par.get("a", [])):
                    verdict = "passed-on"
                    break
                if k in ("block", "decl", "case", "default", "label", "try", "rfor"):
                    verdict = "discarded"
                    break
                if k in ("cast", "ctor", "other") or k is None:
                    cur = par
                    continue
                cur = par
            base = f["q"].split("<")[0]
            info = {"call": c["fn"], "at": c.get("l"), "result": verdict}
            inst.append((key, info))
            if verdict in ("discarded", "assigned-unchecked"):
                if (base, c["fn"]) in E1_EXEMPT:
                    info["exempt"] = E1_EXEMPT[(base, c["fn"])]
                    continue
                findings.append({"key": "E1:%s:%s" % (base, c["fn"]), "where": c.get("l"),
                                 "msg": "%s calls %s and %s its result without testing for the failure value (%s): a libdw error would be silently decoded as data" % (f["q"], c["fn"], "discards" if verdict == "discarded" else "uses", FALLIBLE[c["fn"]]),
                                 "detail": None})
    if n < 50:
        raise Broken("only %d calls to fallible libdw functions found (floor 50)" % n)
    return inst, findings


def m1(prog):
    """once an imported unit has been resolved, import_partial_units always pushes its children onto the traversal stack"""
    inst, findings = [], []
    fs = [f for f in prog.funcs.values() if f["q"].startswith("(anonymous namespace)::import_partial_units<")]
    if not fs:
        raise Broken("anchor import_partial_units vanished")
    seen = set()
    from inline import Inliner

    def want(call, caller):
        # file-local helpers (anonymous namespace, non-member) are read as part of the function
        if not call.get("own") or call.get("virt") or call.get("cls"):
            return None
        callee = prog.funcs.get(call.get("fid"))
        if callee is None or callee.get("body") is None or callee.get("file") != caller.get("file"):
            return None
        return callee if callee["q"].startswith("(anonymous namespace)::") and callee["n"] != "get_it_range" else None
    for f in fs:
        g = Inliner(prog, want, maxdepth=2).build(f)
        # the resolution condition: the cond node testing dwarf_formref_die (...) != nullptr
        res = [n for n in g.nodes if n.kind == "cond" and isinstance(n.ast, dict) and any(c.get("fn") == "dwarf_formref_die" for c in calls(n.ast))]
        if len(res) != 1:
            raise Broken("import_partial_units no longer resolves the import with one dwarf_formref_die test (unmodelled shape)")
        r = res[0]
        c = r.ast
        resolved_label = True
        if c.get("k") == "bin" and c.get("op") == "==":
            resolved_label = False
        starts = [t for t, lab in r.succs if lab is resolved_label]
        stack_param = f["params"][0]["id"]

        def pushes(n):
            return isinstance(n.ast, dict) and any(
                x.get("fn") in ("push_back", "emplace_back") and isinstance(unwrap(x.get("obj")), dict) and unwrap(x["obj"]).get("id") == stack_param
                for x in calls(n.ast))
        bad = False
        for s in starts:
            reach = g.reachable(start=s, avoid=pushes)
            if pushes(g.nodes[s]):
                continue
            if any(g.nodes[i].kind == "ret" or g.nodes[i].id == g.exit.id for i in reach):
                bad = True
        key = "M1:import_partial_units"
        if key in seen:
            continue
        seen.add(key)
        inst.append((key, {"instantiations": len(fs)}))
        if bad:
            findings.append({"key": key, "where": f["l"],
                             "msg": "import_partial_units can return after resolving a DW_TAG_imported_unit without pushing the imported unit's children: in cooked mode that import is replaced by nothing instead of the unit's children",
                             "detail": None})
    return inst, findings


def f6(prog):
    """a boolean that summarises a scan (declared false before a loop, tested after it) is only ever set to true inside the loop"""
    inst, findings = [], []
    n = 0
    for f in prog.funcs.values():
        if not prog.rel(f["file"]).startswith("libzwerg/atval"):
            continue
        for b in walk(f.get("body")):
            if b.get("k") != "block":
                continue
            st = b["s"]
            for i, s in enumerate(st):
                if s.get("k") not in ("for", "while", "rfor", "do"):
                    continue
                flags = {}
                for prev in st[:i]:
                    if prev.get("k") == "decl":
                        for v in prev["vars"]:
                            iv = unwrap(v.get("init"))
                            if v.get("t") == "bool" and isinstance(iv, dict) and iv.get("k") == "bool" and iv["v"] is False:
                                flags[v["id"]] = v
                if not flags:
                    continue
                tested_after = set()
                for later in st[i + 1:]:
                    for y in walk(later):
                        if y.get("k") == "ref" and y.get("id") in flags:
                            tested_after.add(y["id"])
                for y in walk(s):
                    if y.get("k") == "asg" and isinstance(unwrap(y["lhs"]), dict) and unwrap(y["lhs"]).get("id") in flags and unwrap(y["lhs"])["id"] in tested_after:
                        v = flags[unwrap(y["lhs"])["id"]]
                        n += 1
                        rhs = unwrap(y["rhs"])
                        monotone = (y["op"] == "=" and isinstance(rhs, dict) and rhs.get("k") == "bool" and rhs["v"] is True) or y["op"] == "|=" or \
                            (y["op"] == "=" and any(z.get("k") == "ref" and z.get("id") == v["id"] for z in walk(y["rhs"])))
                        key = "F6:%s:%s" % (f["q"].split("::")[-1], v["n"])
                        inst.append((key, {"assignment": short(y)[:60], "monotone": monotone}))
                        if not monotone:
                            findings.append({"key": key, "where": y.get("l") or f["l"],
                                             "msg": "`%s` summarises a scan over all enumerators/children but is overwritten on every iteration (`%s`): only the last element decides, so the signedness chosen for the value depends on element order" % (v["n"], short(y)[:60]),
                                             "detail": None})
    if n < 2:
        raise Broken("the enumerator scan (seen_signed / seen_unsigned) was not found in atval.cc (anchor vanished)")
    return inst, findings


def i1b(prog):
    """fetch_parent_die interpreted from source on abstract DIE forests with partial units imported at top level, nested, and below an
    ordinary DIE: the parent of a cooked DIE is the DIE that contains it once imports are inlined, and it carries the import chain of
    the point where the climb stopped (not the child's chain); a raw DIE's parent is the stored parent without any chain; a root has none."""
    from cxxobj import CxxEvaluator, Obj, Struct, Sym, OutOfBounds
    from absint import Thrown
    inst, findings = [], []
    f = prog.func_opt("(anonymous namespace)::fetch_parent_die")
    if f is None:
        raise Broken("anchor fetch_parent_die vanished")
    ctor = [c for c in prog.funcs.values() if c["q"] == "value_die::value_die" and len(c["params"]) == 5 and c.get("inits")]
    if len(ctor) != 1:
        raise Broken("anchor value_die constructor (5 arguments) vanished")
    dn = {c["n"]: ("enum", c["n"], c["v"]) for e in prog.enums.values() if e["q"] == "doneness" for c in e["consts"]}
    tags = {c["n"]: c["v"] for e in prog.enums.values() if e["file"] == "/usr/include/dwarf.h" for c in e["consts"]
            if c["n"] in ("DW_TAG_partial_unit", "DW_TAG_compile_unit", "DW_TAG_imported_unit", "DW_TAG_structure_type", "DW_TAG_variable")}
    if set(dn) < {"raw", "cooked"} or len(tags) != 5:
        raise Broken("enum doneness / DW_TAG constants vanished")

    class N:
        def __init__(self, name, tag, off, parent):
            self.name, self.tag, self.off, self.parent = name, tags[tag], off, parent
            self.addr = 0x4000 + off

        def __repr__(self):
            return self.name
    #  CU R { imp1 -> P1 ; S0 { v0 } }   P1 { X { Z } ; imp2 -> P2 ; S { imp3 -> P3 } }   P2 { Y }   P3 { W }
    R = N("R", "DW_TAG_compile_unit", 0x0b, None)
    imp1 = N("imp1", "DW_TAG_imported_unit", 0x10, R)
    S0 = N("S0", "DW_TAG_structure_type", 0x20, R)
    v0 = N("v0", "DW_TAG_variable", 0x24, S0)
    P1 = N("P1", "DW_TAG_partial_unit", 0x100, None)
    X = N("X", "DW_TAG_structure_type", 0x110, P1)
    Z = N("Z", "DW_TAG_variable", 0x114, X)
    imp2 = N("imp2", "DW_TAG_imported_unit", 0x120, P1)
    S = N("S", "DW_TAG_structure_type", 0x130, P1)
    imp3 = N("imp3", "DW_TAG_imported_unit", 0x134, S)
    P2 = N("P2", "DW_TAG_partial_unit", 0x200, None)
    Y = N("Y", "DW_TAG_variable", 0x210, P2)
    P3 = N("P3", "DW_TAG_partial_unit", 0x300, None)
    W = N("W", "DW_TAG_variable", 0x310, P3)
    nodes = {n.off: n for n in (R, imp1, S0, v0, P1, X, Z, imp2, S, imp3, P2, Y, P3, W)}
    NO_OFF = (1 << 64) - 1

    def die_of(n):
        d = Struct("Dwarf_Die", {})
        d.cu, d.node = Sym.of("cu"), n
        return d

    def fill(dst, n):
        dst.cu, dst.node = Sym.of("cu"), n
    hooks = {
        "dwfl_context::find_parent": lambda ev, o, a: (a[0].node.parent.off if a[0].node.parent is not None else NO_OFF),
        "dwarf_cu_getdwarf": lambda ev, o, a: Sym.of("dwarf"),
        "dwarf_offdie": lambda ev, o, a: (fill(a[2], nodes[int(a[1])]) or a[2]) if int(a[1]) in nodes else None,
        "dwarf_tag": lambda ev, o, a: a[0].node.tag,
        "throw_libdw": lambda ev, o, a: (_ for _ in ()).throw(Thrown("libdw error")),
    }
    ev = CxxEvaluator(hooks, {}, prog=prog)
    DWCTX = Sym.of("dwctx")

    def val(n, imp, d="cooked"):
        return ev.construct(ctor[0], Obj("value_die"), [DWCTX, imp, die_of(n), 0, dn[d]])

    def chain(v):
        out = []
        while v is not None:
            out.append(v.m_die.node.name)
            v = v.m_import
        return out
    I1 = val(imp1, None)
    I2 = val(imp2, I1)
    I3 = val(imp3, I1)
    # (value, expected parent node, expected import chain of the parent)
    cases = [
        ("a DIE of the unit itself", val(v0, None), S0, []),
        ("the unit DIE", val(R, None), None, None),
        ("a child of a partial unit imported at top level", val(X, I1), R, []),
        ("a grandchild inside an imported partial unit", val(Z, I1), X, ["imp1"]),
        ("a child of a partial unit imported from an imported partial unit", val(Y, I2), R, []),
        ("a child of a partial unit imported below a structure of an imported partial unit", val(W, I3), S, ["imp1"]),
        ("a structure of an imported partial unit", val(S, I1), R, []),
        ("a raw child of a partial unit", val(X, None, "raw"), P1, []),
        ("a raw DIE", val(Z, None, "raw"), X, []),
        ("a cooked child of a partial unit with unknown import history", val(X, None), P1, []),
    ]
    key = "I1b:fetch_parent_die"
    bad = None
    for what, v, want, wchain in cases:
        try:
            r = ev.call(f, None, [v])
        except OutOfBounds as x:
            raise Broken("fetch_parent_die cannot be evaluated: %s" % x)
        except Thrown as x:
            bad = bad or "the parent of %s raises an error (%s)" % (what, x)
            continue
        if want is None:
            if r is not None and bad is None:
                bad = "%s has the parent %s" % (what, r.m_die.node)
            continue
        if r is None:
            bad = bad or "%s has no parent; expected %s" % (what, want)
            continue
        got, gchain = r.m_die.node, chain(r.m_import)
        if (got is not want or gchain != wchain or r.m_dwctx is not DWCTX) and bad is None:
            bad = "the parent of %s (import chain %s) is %s with import chain %s; expected %s with import chain %s" % (
                what, chain(v.m_import), got, gchain, want, wchain)
    inst.append((key, {"cases": len(cases)}))
    if bad:
        findings.append({"key": key, "where": "libzwerg/" + f["l"],
                         "msg": bad + ": after crossing an imported_unit boundary the parent must carry the chain of the importing DIE (else child parent != the DIE, parent* never reaches root)", "detail": None})
    # `root` on the same forest: the unit DIE at the end of the import chain for a cooked DIE (the same DIE the parent chain ends in),
    # the DIE's own unit DIE for a raw one
    rf = [g for g in prog.funcs.values() if g["n"] == "op_root_die_operate" and g.get("body") is not None]
    if len(rf) != 1:
        raise Broken("anchor op_root_die_operate vanished")
    ev.hooks["dwpp_cudie"] = lambda ev_, o, a: die_of(a[0].node.root_node())
    N.root_node = lambda self: self if self.parent is None else self.parent.root_node()
    rcases = [("a DIE of the unit itself", val(v0, None), R), ("the unit DIE", val(R, None), R),
              ("a child of a partial unit imported at top level", val(X, I1), R), ("a grandchild inside an imported partial unit", val(Z, I1), R),
              ("a child of a partial unit imported from an imported partial unit", val(Y, I2), R),
              ("a child of a partial unit imported below a structure of an imported partial unit", val(W, I3), R),
              ("a raw DIE of a partial unit", val(Z, None, "raw"), P1), ("a cooked DIE of a partial unit with unknown import history", val(X, None), P1)]
    key2 = "I1b:root"
    bad2 = None
    for what, v, want in rcases:
        ptype = (rf[0]["params"][0].get("t") or "")
        try:
            r = ev.call(rf[0], None, [v])
        except OutOfBounds as x:
            raise Broken("op_root_die_operate cannot be evaluated: %s" % x)
        except Thrown as x:
            bad2 = bad2 or "`root` of %s raises an error (%s)" % (what, x)
            continue
        got = getattr(getattr(r, "m_die", None), "node", None)
        if (got is not want or chain(getattr(r, "m_import", None)) != []) and bad2 is None:
            bad2 = "`root` of %s (import chain %s) is %s; expected %s" % (what, chain(v.m_import), got, want)
    inst.append((key2, {"cases": len(rcases)}))
    if bad2:
        findings.append({"key": key2, "where": "libzwerg/" + rf[0]["l"],
                         "msg": bad2 + ": `root` must equal the end of the `parent` chain, which unwinds every import point", "detail": None})
    return inst, findings


# ---------------------------------------------------------------------------
# G2: find_attribute reaches an attribute through EITHER reference (abstract evaluation on small DIE graphs)

class _ADie:
    def __init__(self, name):
        self.name = name
        self.attrs = {}      # attribute code -> value (for references: another _ADie)
        self.addr = 7000 + len(name)

    def __repr__(self):
        return self.name


def g2(prog):
    from cxxobj import CxxEvaluator, VarPtr, Sym
    import itertools
    DWCTX = Sym.of("dwctx")
    inst, findings = [], []
    f = prog.func_opt("(anonymous namespace)::find_attribute")
    pred = prog.func_opt("(anonymous namespace)::attr_should_be_integrated")
    if f is None or pred is None:
        raise Broken("anchors find_attribute / attr_should_be_integrated vanished")
    ats = {}
    for e in prog.enums.values():
        if e["file"] == "/usr/include/dwarf.h":
            for c in e["consts"]:
                if c["n"] in ("DW_AT_specification", "DW_AT_abstract_origin", "DW_AT_name", "DW_AT_sibling", "DW_AT_declaration", "DW_AT_inline"):
                    ats[c["n"]] = c["v"]
    res_enum = None
    don_enum = None
    for e in prog.enums.values():
        names = [c["n"] for c in e["consts"]]
        if "found_integrated" in names:
            res_enum = {c["n"]: ("enum", c["n"], c["v"]) for c in e["consts"]}
        if e["q"] == "doneness":
            don_enum = {c["n"]: ("enum", c["n"], c["v"]) for c in e["consts"]}
    if len(ats) < 6 or res_enum is None or don_enum is None:
        raise Broken("enumerations needed by G2 not found")
    iv = lambda x: x[2] if isinstance(x, tuple) and x and x[0] == "enum" else x
    hooks = {
        "dwarf_hasattr": lambda ev, o, a: iv(a[1]) in a[0].attrs,
        "dwpp_attr": lambda ev, o, a: ("attr", a[0], iv(a[1])),
        "dwpp_formref_die": lambda ev, o, a: a[0][1].attrs[a[0][2]],
        "(anonymous namespace)::attr_should_be_integrated": lambda ev, o, a: ev.call(pred, None, a),
        "(anonymous namespace)::find_attribute": lambda ev, o, a: ev.call(f, None, a),
        "std::make_pair<*": lambda ev, o, a: (a[0], a[1]),
        "ctor:std::pair<*": lambda ev, o, a: (a[0], a[1]) if len(a) == 2 else (a[0] if a else None),
        "std::make_unique<value_die*": lambda ev, o, a: ("value_die", a[1]),
    }
    ev = CxxEvaluator(hooks, {}, prog=prog)
    SPEC, AO = ats["DW_AT_specification"], ats["DW_AT_abstract_origin"]
    queried = [ats["DW_AT_name"], ats["DW_AT_inline"], ats["DW_AT_sibling"], ats["DW_AT_declaration"]]
    excluded = {ats["DW_AT_sibling"], ats["DW_AT_declaration"]}

    def reachable(d, at, seen=()):
        if at in d.attrs:
            return "own"
        if at in excluded:
            return None
        for ref in (SPEC, AO):
            if ref in d.attrs and d.attrs[ref] not in seen:
                if reachable(d.attrs[ref], at, seen + (d,)):
                    return "integrated"
        return None
    n = 0
    bad = None
    bad2 = None
    # graphs: A with optional spec->S and ao->O; S and O optionally refer on to T; each of S, O, T may or may not carry the attribute
    for has_spec, has_ao, s_has, o_has, s_to_t, o_to_t, t_has, a_has in itertools.product((False, True), repeat=8):
        for at in queried:
            A, S, O, T = _ADie("A"), _ADie("S"), _ADie("O"), _ADie("T")
            if a_has:
                A.attrs[at] = 1
            if has_spec:
                A.attrs[SPEC] = S
            if has_ao:
                A.attrs[AO] = O
            if s_has:
                S.attrs[at] = 1
            if o_has:
                O.attrs[at] = 1
            if s_to_t:
                S.attrs[AO] = T
            if o_to_t:
                O.attrs[SPEC] = T
            if t_has:
                T.attrs[at] = 1
            for don in ("cooked", "raw"):
                cell = {}
                ret_at = VarPtr(lambda: cell.get("at"), lambda v: cell.__setitem__("at", v), "ret_at")
                r = ev.call(f, None, [A, at, don_enum[don], ret_at, DWCTX])
                n += 1
                got = r[0][1] if isinstance(r, tuple) and isinstance(r[0], tuple) else r
                # the DIE in which op_atval_die decodes the attribute: the accompanying value_die, or the original DIE
                vd = r[1] if isinstance(r, tuple) and len(r) == 2 else None
                if got in ("found", "found_integrated") and bad2 is None:
                    owner = cell.get("at")[1] if isinstance(cell.get("at"), tuple) else None
                    decode_in = vd[1] if isinstance(vd, tuple) and vd[0] == "value_die" else A
                    if owner is None:
                        bad2 = "the attribute found is not stored through ret_at"
                    elif decode_in is not owner:
                        bad2 = "the attribute is read from DIE %s but handed out together with DIE %s" % (owner, decode_in)
                    if bad2:
                        bad2 += " (on A{%s%s%s} S{%s%s} O{%s%s} T{%s})" % ("X " if a_has else "", "spec->S " if has_spec else "", "ao->O" if has_ao else "",
                                                                        "X " if s_has else "", "ao->T" if s_to_t else "", "X " if o_has else "", "spec->T" if o_to_t else "", "X" if t_has else "")
                exp = reachable(A, at)
                if don == "raw" and exp == "integrated":
                    exp = None
                want = {"own": "found", "integrated": "found_integrated", None: "not_found"}[exp]
                if got != want and bad is None:
                    desc = "A{%s%s%s} S{%s%s} O{%s%s} T{%s}" % ("X " if a_has else "", "spec->S " if has_spec else "", "ao->O" if has_ao else "",
                                                              "X " if s_has else "", "ao->T" if s_to_t else "", "X " if o_has else "", "spec->T" if o_to_t else "", "X" if t_has else "")
                    bad = "for attribute %s on %s (%s): find_attribute answers %s, the attribute is %s" % (
                        [k for k, v in ats.items() if v == at][0], desc, don, got, want)
    inst.append(("G2:find_attribute", {"die_graphs_x_attributes_x_modes": n}))
    if bad:
        findings.append({"key": "G2:find_attribute", "where": "libzwerg/builtin-dw.cc:%s" % f["l"].split(":")[-1],
                         "msg": "`?AT_x` / `@AT_x` no longer find exactly the attributes reachable through DW_AT_specification OR DW_AT_abstract_origin: %s" % bad,
                         "detail": None})
    inst.append(("G2:find_attribute:owner", {"checked": True}))
    if bad2:
        findings.append({"key": "G2:find_attribute:owner", "where": "libzwerg/builtin-dw.cc:%s" % f["l"].split(":")[-1],
                         "msg": "`@AT_x` decodes an integrated attribute in the wrong DIE: %s; its value (file names, ranges, references) is then resolved against "
                                "another unit than `attribute ?AT_x cooked value` uses" % bad2, "detail": None})
    return inst, findings


def i1c(prog):
    """the import chain and the iterator stack of a cooked traversal move in lockstep: entering an imported unit pushes one
    level on both, leaving it pops exactly one level of both"""
    inst, findings = [], []
    fs = [f for f in prog.funcs.values() if f["q"].startswith("(anonymous namespace)::drop_finished_imports<")]
    if not fs:
        raise Broken("anchor drop_finished_imports vanished")
    f = fs[0]
    imp = [p for p in f["params"] if "value_die" in p["t"]]
    stk = [p for p in f["params"] if "std::vector<" in p["t"]]
    if len(imp) != 1 or len(stk) != 1:
        raise Broken("drop_finished_imports no longer takes (stack, import)")
    pops = [c for c in calls(f["body"]) if c.get("fn") == "pop_back" and isinstance(unwrap(c.get("obj")), dict) and unwrap(c["obj"]).get("id") == stk[0]["id"]]
    assigns = []
    for x in walk(f["body"]):
        lhs = rhs = None
        if x.get("k") == "asg":
            lhs, rhs = x["lhs"], x["rhs"]
        elif x.get("k") == "call" and x.get("op") == "=" and len(x.get("a", [])) == 2:
            lhs, rhs = x["a"][0], x["a"][1]
        if lhs is not None and isinstance(unwrap(lhs), dict) and unwrap(lhs).get("id") == imp[0]["id"]:
            assigns.append((x, rhs))
    key = "I1c:drop_finished_imports"
    probs = []
    if len(pops) != 1:
        probs.append("pops %d levels of the iterator stack" % len(pops))
    if len(assigns) != 1:
        probs.append("assigns the import chain %d times" % len(assigns))
    else:
        r = unwrap(assigns[0][1])
        one_level = isinstance(r, dict) and r.get("k") == "call" and r.get("fn") == "get_import" and \
            isinstance(unwrap(r.get("obj")), dict) and unwrap(r["obj"]).get("id") == imp[0]["id"]
        if not one_level:
            probs.append("sets the import chain to `%s` instead of popping one level (import->get_import ())" % short(assigns[0][1])[:40])
    inst.append((key, {"iterator_pops": len(pops), "chain_updates": [short(a[1])[:40] for a in assigns]}))
    for p in probs:
        findings.append({"key": key, "where": f["l"],
                         "msg": "drop_finished_imports %s: after a nested imported unit ends, the DIEs that follow it in the enclosing partial unit lose (part of) their import chain, so their parent/root stop at the partial unit" % p,
                         "detail": None})
    # entering: import = make_shared<value_die>(dwctx, import, ...) together with stack.push_back
    gs = [g for g in prog.funcs.values() if g["q"].startswith("(anonymous namespace)::import_partial_units<")]
    if not gs:
        raise Broken("anchor import_partial_units vanished")
    g = gs[0]
    gimp = [p for p in g["params"] if "value_die" in p["t"]]
    ok = False
    for x in walk(g["body"]):
        rhs = None
        if x.get("k") == "call" and x.get("op") == "=" and len(x.get("a", [])) == 2 and isinstance(unwrap(x["a"][0]), dict) and unwrap(x["a"][0]).get("id") == gimp[0]["id"]:
            rhs = unwrap(x["a"][1])
        if x.get("k") == "asg" and isinstance(unwrap(x["lhs"]), dict) and unwrap(x["lhs"]).get("id") == gimp[0]["id"]:
            rhs = unwrap(x["rhs"])
        if isinstance(rhs, dict) and rhs.get("k") == "call" and rhs.get("f", "").startswith("std::make_shared<value_die") and len(rhs["a"]) == 5:
            prev = unwrap(rhs["a"][1])
            ok = isinstance(prev, dict) and prev.get("id") == gimp[0]["id"]
    inst.append(("I1c:import_partial_units", {"extends_chain_by_one_level": ok}))
    if not ok:
        findings.append({"key": "I1c:import_partial_units", "where": g["l"], "msg": "entering an imported unit no longer extends the import chain by one level on top of the previous chain", "detail": None})
    return inst, findings


# ---------------------------------------------------------------------------
# X3: location-list laws, by evaluating locexpr_producer::next, the elem/relem producer and the element/operation
# words from their source against an abstract libdw.  The code reaches the list only through dwarf_getlocations'
# return value (error / end / next offset) and copies what it returns, so lists of 0-3 entries with every kind of
# range (ordinary, empty start==end, "everywhere" 0..-1) and 0-3 operations per entry realise all its comparisons.

def x3(prog, tier="quick"):
    import itertools
    from cxxobj import CxxEvaluator, Struct, Obj, Vec, It, OutOfBounds, VarPtr
    from absint import Thrown
    inst, findings = [], []

    def one(q, n=None):
        fs = [f for f in prog.funcs.values() if f["q"] == q and f.get("body") is not None and (n is None or len(f["params"]) == n)]
        if len(fs) != 1:
            raise Broken("anchor %s vanished" % q)
        return fs[0]
    lp_ctor = one("(anonymous namespace)::locexpr_producer::locexpr_producer")
    lp_next = one("(anonymous namespace)::locexpr_producer::next")
    ep_next = one("(anonymous namespace)::elem_loclist_producer::next")
    w_elem, w_relem = one("op_elem_loclist_elem::operate"), one("op_relem_loclist_elem::operate")
    w_len, w_addr = one("op_length_loclist_elem::operate"), one("op_address_loclist_elem::operate")
    w_off, w_lab = one("op_offset_loclist_op::operate"), one("op_label_loclist_op::operate")
    p_elem, p_op = one("pred_op_loclist_elem::result"), one("pred_op_loclist_op::result")
    pe_ctor, po_ctor = one("pred_op_loclist_elem::pred_op_loclist_elem"), one("pred_op_loclist_op::pred_op_loclist_op")

    class Attr:
        """abstract Dwarf_Attribute: the location list it denotes"""
        def __init__(self, entries):
            self.entries = entries

        def copy_value(self):
            return self

        @property
        def addr(self):
            return id(self)

    def mkops(atoms, base):
        return Vec([Struct("Dwarf_Op", {"atom": a, "number": 0, "number2": 0, "offset": base + 3 * i}) for i, a in enumerate(atoms)], "Dwarf_Op[]")

    def getlocations(ev, o, a):
        attr, off, basep, startp, endp, exprp, lenp = a
        if not isinstance(attr, Attr):
            raise OutOfBounds("dwarf_getlocations on something that is not the producer's attribute")
        off = int(off)
        if off < 0 or off > len(attr.entries):
            raise OutOfBounds("dwarf_getlocations resumed at offset %d, which it never returned" % off)
        if off == len(attr.entries):
            return 0
        s, e_, ops = attr.entries[off]
        startp.store(s)
        endp.store(e_)
        exprp.store(It(ops, 0))
        lenp.store(len(ops.items))
        return off + 1

    def thrower(ev, o, a):
        raise Thrown("libdw error")
    hooks = {
        "dwarf_getlocations": getlocations,
        "throw_libdw": thrower,
        "dw_offset_dom": lambda ev, o, a: "offset-dom", "dw_locexpr_opcode_dom": lambda ev, o, a: "opcode-dom",
        "dw_address_dom": lambda ev, o, a: "address-dom",
        "ctor:pred_result": lambda ev, o, a: a[0],
        "ctor:coverage": lambda ev, o, a: Vec([], "coverage") if not a else a[0].copy_value(),
    }
    ev = CxxEvaluator(hooks, {"dec_constant_dom": "dec-dom"}, prog=prog, structs={"cov_range": ["start", "length"]},
                      defaults={"coverage": lambda: Vec([], "coverage")})
    key = "X3:locexpr_producer"
    ranges = [(0x10, 0x20), (0x30, 0x30), (0, (1 << 64) - 1)]
    lists = [()]
    for n in (1, 2, 3):
        lists += list(itertools.product(range(len(ranges)), repeat=n))
    n_eval = 0
    dwctx = Obj("dwfl_context")

    def fld(o, n):
        if not hasattr(o, n):
            raise Broken("interpreted object %r has no field %s" % (o, n))
        return getattr(o, n)

    def cst(v):
        """(number, domain) of an interpreted value_cst"""
        c = fld(v, "m_cst")
        val = fld(c, "m_value")
        return (fld(val, "m_u") if isinstance(val, Obj) else val), fld(c, "m_dom"), fld(v, "m_pos")

    def pr(r):
        if isinstance(r, bool):
            return "yes" if r else "no"
        return r[1] if isinstance(r, tuple) else r
    try:
        for combo in lists:
            entries = []
            for k, ri in enumerate(combo):
                atoms = [0x50 + k, 0x9f, 0x50 + k][:(k + ri) % 4] if tier == "quick" else [0x50 + k, 0x9f, 0x50 + k][:(k + ri) % 4]
                entries.append((ranges[ri][0], ranges[ri][1], mkops(atoms, 0x100 * k)))
            attr = Attr(entries)
            what = "a location list with the entries %s" % (["%#x..%#x (%d ops)" % (s, e_, len(o.items)) for s, e_, o in entries],)
            prod = ev.construct(lp_ctor, Obj("(anonymous namespace)::locexpr_producer"), [dwctx, attr])
            got = []
            for _ in range(len(entries) + 2):
                v = ev.call(lp_next, prod, [])
                n_eval += 1
                if v is None:
                    break
                got.append(v)
            seq = [(fld(g, "m_low"), fld(g, "m_high"), fld(g, "m_expr").vec if isinstance(fld(g, "m_expr"), It) else None, fld(g, "m_exprlen")) for g in got]
            want = [(s, e_, o, len(o.items)) for s, e_, o in entries]
            prob = None
            if [(a, b) for a, b, _, _ in seq] != [(a, b) for a, b, _, _ in want]:
                prob = "yields the ranges %s; stored are %s" % (["%#x..%#x" % (a, b) for a, b, _, _ in seq], ["%#x..%#x" % (a, b) for a, b, _, _ in want])
            elif any(x[2] is not y[2] or x[3] != y[3] for x, y in zip(seq, want)):
                prob = "pairs a range with the operations of another entry"
            elif [fld(g, "m_pos") for g in got] != list(range(len(got))):
                prob = "numbers the elements %s instead of 0, 1, 2, ..." % [fld(g, "m_pos") for g in got]
            if prob:
                findings.append({"key": key, "where": "libzwerg/" + lp_next["l"], "msg": "@AT_location on %s %s: the yielded elements must be the attribute's address ranges in stored order" % (what, prob), "detail": None})
                break
            # words on each element
            for g, (s, e_, ops) in zip(got, entries):
                n = len(ops.items)
                atoms = [o.atom for o in ops.items]
                r = ev.call(w_len, _op(ev, w_len), [g.copy_value()])
                if cst(r)[0] != n or cst(r)[2] != 0:
                    findings.append({"key": "X3:length", "where": "libzwerg/" + w_len["l"], "msg": "`length` of a location expression with %d operations yields %s" % (n, cst(r)[0]), "detail": None})
                r = ev.call(w_addr, _op(ev, w_addr), [g.copy_value()])
                runs = [(x.start, x.length) for x in fld(r, "cov").items] if hasattr(r, "cov") else None
                if runs is None:
                    cov = [v for v in vars(r).values() if isinstance(v, Vec)]
                    runs = [(x.start, x.length) for x in cov[0].items] if cov else None
                exp = [(s, (e_ - s) & ((1 << 64) - 1))] if e_ != s else []
                if runs != exp:
                    findings.append({"key": "X3:address", "where": "libzwerg/" + w_addr["l"], "msg": "`address` of the element %#x..%#x yields the runs %s" % (s, e_, runs), "detail": None})
                for wf, fwd, nm in ((w_elem, True, "elem"), (w_relem, False, "relem")):
                    p = ev.call(wf, _op(ev, wf), [g.copy_value()])
                    outs = []
                    for _ in range(n + 2):
                        v = ev.call(ep_next, p, [])
                        n_eval += 1
                        if v is None:
                            break
                        outs.append(v)
                    idxs = [fld(v, "m_dwop").pos if isinstance(fld(v, "m_dwop"), It) and fld(v, "m_dwop").vec is ops else None for v in outs]
                    exp_i = list(range(n)) if fwd else list(range(n))[::-1]
                    if idxs != exp_i:
                        findings.append({"key": "X3:" + nm, "where": "libzwerg/" + ep_next["l"], "msg": "`%s` on an expression with %d operations yields the operations %s (expected %s)" % (nm, n, idxs, exp_i), "detail": None})
                    elif fwd and [fld(v, "m_pos") for v in outs] != list(range(n)):
                        findings.append({"key": "X3:" + nm, "where": "libzwerg/" + ep_next["l"], "msg": "`elem` numbers the operations %s instead of 0, 1, 2, ..." % [fld(v, "m_pos") for v in outs], "detail": None})
                    if fwd:
                        for v, o in zip(outs, ops.items):
                            r = ev.call(w_off, _op(ev, w_off), [v.copy_value()])
                            if cst(r)[0] != o.offset or cst(r)[1] != "offset-dom":
                                findings.append({"key": "X3:offset", "where": "libzwerg/" + w_off["l"], "msg": "`offset` of an operation stored at %#x yields %s (%s)" % (o.offset, cst(r)[0], cst(r)[1]), "detail": None})
                            r = ev.call(w_lab, _op(ev, w_lab), [v.copy_value()])
                            if cst(r)[0] != o.atom or cst(r)[1] != "opcode-dom":
                                findings.append({"key": "X3:label", "where": "libzwerg/" + w_lab["l"], "msg": "`label` of an operation with opcode %#x yields %s (%s)" % (o.atom, cst(r)[0], cst(r)[1]), "detail": None})
                            for code in (o.atom, 0x9f, 0x11):
                                po = ev.construct(po_ctor, Obj("pred_op_loclist_op"), [code])
                                if pr(ev.call(p_op, po, [v])) != ("yes" if o.atom == code else "no"):
                                    findings.append({"key": "X3:?OP_x:op", "where": "libzwerg/" + p_op["l"], "msg": "?OP_%#x on an operation with opcode %#x answers wrongly" % (code, o.atom), "detail": None})
                for code in set(atoms) | {0x9f, 0x11, 0x50, 0x51, 0x52}:
                    pe = ev.construct(pe_ctor, Obj("pred_op_loclist_elem"), [code])
                    if pr(ev.call(p_elem, pe, [g])) != ("yes" if code in atoms else "no"):
                        findings.append({"key": "X3:?OP_x:elem", "where": "libzwerg/" + p_elem["l"], "msg": "?OP_%#x on an expression with the opcodes %s answers wrongly: it must hold iff some operation has that opcode" % (code, [hex(a) for a in atoms]), "detail": None})
            if findings:
                break
    except OutOfBounds as x:
        findings.append({"key": key, "where": "libzwerg/" + lp_next["l"], "msg": "location-list code: %s" % x, "detail": None})
    except Thrown as x:
        findings.append({"key": key, "where": "libzwerg/" + lp_next["l"], "msg": "location-list code raises an error (%s) on a well-formed list" % x, "detail": None})
    seen = set()
    findings = [f for f in findings if not (f["key"] in seen or seen.add(f["key"]))]
    for k in ("locexpr_producer", "length", "address", "elem", "relem", "offset", "label", "?OP_x:op", "?OP_x:elem"):
        inst.append(("X3:" + k, {"lists": len(lists), "next_calls": n_eval}))
    return inst, findings


# ---------------------------------------------------------------------------
# G3: the `attribute` word on abstract DIE graphs (attribute_producer interpreted from source)

def g3(prog, tier="quick"):
    """attribute_producer (constructor, next_die, schedule, seen, next) interpreted on the DIE graphs of G2 with an abstract attribute
    iterator: a raw DIE yields exactly its own attributes in stored order; a cooked DIE yields its own attributes first and then each
    attribute reachable through DW_AT_specification / DW_AT_abstract_origin whose name it has not yielded yet, never DW_AT_sibling or
    DW_AT_declaration of another DIE; results are numbered from 0 and every value_attr is wrapped together with the DIE the attribute
    was read from (its `value` is decoded in that DIE's unit)."""
    import itertools
    from cxxobj import CxxEvaluator, Struct, Obj, Sym, OutOfBounds
    from absint import Thrown
    inst, findings = [], []
    cls = "(anonymous namespace)::attribute_producer"
    ctor = [f for f in prog.funcs.values() if f.get("cls") == cls and f["n"] == "attribute_producer" and f.get("body") is not None]
    nxt = [f for f in prog.funcs.values() if f.get("cls") == cls and f["n"] == "next" and f.get("body") is not None]
    if len(ctor) != 1 or len(nxt) != 1:
        raise Broken("anchor attribute_producer (constructor / next) vanished")
    ats = {}
    for e in prog.enums.values():
        if e["file"] == "/usr/include/dwarf.h":
            for c in e["consts"]:
                if c["n"] in ("DW_AT_specification", "DW_AT_abstract_origin", "DW_AT_name", "DW_AT_sibling", "DW_AT_declaration", "DW_AT_inline"):
                    ats[c["n"]] = c["v"]
    don_enum = None
    for e in prog.enums.values():
        if e["q"] == "doneness":
            don_enum = {c["n"]: ("enum", c["n"], c["v"]) for c in e["consts"]}
    if len(ats) < 6 or don_enum is None:
        raise Broken("enumerations needed by G3 not found")
    SPEC, AO = ats["DW_AT_specification"], ats["DW_AT_abstract_origin"]
    excluded = {ats["DW_AT_sibling"], ats["DW_AT_declaration"]}
    names = {v: k for k, v in ats.items()}

    def die_struct(d):
        return Struct("Dwarf_Die", {"die": d, "addr_": 0})

    class AIt:
        """abstract attr_iterator: position in the attribute list of a DIE"""
        def __init__(self, die, pos):
            self.die, self.pos = die, pos

        def at_end(self):
            return self.die is None or self.pos >= len(self.die.attrs)

        def copy_value(self):
            return AIt(self.die, self.pos)

        def assign_from(self, o):
            self.die, self.pos = o.die, o.pos

        def cur(self):
            if self.at_end():
                raise OutOfBounds("dereference of an attribute iterator at its end")
            code = list(self.die.attrs)[self.pos]
            v = self.die.attrs[code]
            return Struct("Dwarf_Attribute", {"code": code, "form": 1, "valp": (self.die.name, code), "cu": self.die.name, "owner": self.die, "ref": v if isinstance(v, _ADie) else None})

    def it_inc(ev, o, a):
        if a:                     # postfix
            old = o.copy_value()
            o.pos += 1
            return old
        o.pos += 1
        return o

    def formref(ev, o, a):
        at, mem = a
        if not isinstance(at, Struct) or at.ref is None:
            return None
        mem.die = at.ref
        return mem

    def thrower(ev, o, a):
        raise Thrown("libdw error")
    hooks = {
        "ctor:attr_iterator": lambda ev, o, a: (a[0].copy_value() if isinstance(a[0], AIt) else AIt(a[0].die, 0)) if a else AIt(None, 0),
        "attr_iterator::end": lambda ev, o, a: AIt(None, 0),
        "attr_iterator::operator==": lambda ev, o, a: (o.at_end() and a[0].at_end()) or (o.die is a[0].die and o.pos == a[0].pos),
        "attr_iterator::operator!=": lambda ev, o, a: not ((o.at_end() and a[0].at_end()) or (o.die is a[0].die and o.pos == a[0].pos)),
        "attr_iterator::operator++": it_inc,
        "attr_iterator::operator*": lambda ev, o, a: o.cur(),
        "dwarf_formref_die": formref,
        "throw_libdw": thrower,
    }
    ev = CxxEvaluator(hooks, {}, prog=prog)
    filler = [ats["DW_AT_name"], ats["DW_AT_inline"], ats["DW_AT_sibling"], ats["DW_AT_declaration"]]
    n = 0
    bad = None
    key = "G3:attribute_producer"

    def closure(d, seen=None):
        seen = seen if seen is not None else []
        if d in seen:
            return seen
        seen.append(d)
        for r in (SPEC, AO):
            if isinstance(d.attrs.get(r), _ADie):
                closure(d.attrs[r], seen)
        return seen
    combos = list(itertools.product((False, True), repeat=6))
    attr_sets = [(), (0,), (0, 2), (1, 3), (0, 1, 2, 3)]
    try:
        for has_spec, has_ao, s_to_t, o_to_t, spec_first, t_shared in combos:
            for a_set, s_set, o_set in itertools.product(attr_sets, repeat=3) if tier == "thorough" else itertools.product(attr_sets[:4], attr_sets[1:3], attr_sets[2:4]):
                A, S, O, T = _ADie("A"), _ADie("S"), _ADie("O"), _ADie("T")
                refs = [(SPEC, S, has_spec), (AO, O, has_ao)]
                if not spec_first:
                    refs.reverse()
                for i in a_set[:1]:
                    A.attrs[filler[i]] = 1
                for code, tgt, on in refs:
                    if on:
                        A.attrs[code] = tgt
                for i in a_set[1:]:
                    A.attrs[filler[i]] = 1
                for i in s_set:
                    S.attrs[filler[i]] = 1
                for i in o_set:
                    O.attrs[filler[i]] = 1
                if s_to_t:
                    S.attrs[AO] = T
                if o_to_t:
                    O.attrs[SPEC] = T if t_shared else S
                T.attrs[filler[0]] = 1
                T.attrs[filler[3]] = 1
                for don in ("cooked", "raw"):
                    vd = Obj("value_die")
                    vd.m_dwctx, vd.m_die, vd.m_import, vd.m_pos = Sym.of("dwctx"), die_struct(A), None, 0
                    vd.m_doneness = don_enum[don]
                    prod = ev.construct(ctor[0], Obj(cls), [vd])
                    got = []
                    for _ in range(40):
                        v = ev.call(nxt[0], prod, [])
                        n += 1
                        if v is None:
                            break
                        got.append(v)
                    else:
                        bad = "the producer does not terminate"
                    desc = "A{%s} S{%s} O{%s} T{%s} (%s)" % tuple(
                        [", ".join(names.get(c, hex(c)).replace("DW_AT_", "") + ("->" + v.name if isinstance(v, _ADie) else "") for c, v in d.attrs.items()) for d in (A, S, O, T)] + [don])
                    seq = []
                    for g in got:
                        at = getattr(g, "m_attr", None)
                        dv = getattr(g, "m_die", None)
                        dd = getattr(getattr(dv, "m_die", None), "die", None) if dv is not None else None
                        seq.append((at.code if at is not None else None, at.owner if at is not None else None, dd, getattr(g, "m_pos", None)))
                    own = list(A.attrs)
                    reach = closure(A)
                    if bad is None and [c for c, _, _, _ in seq[:len(own)]] != own:
                        bad = "the DIE's own attributes %s are not yielded first and in stored order (got %s)" % ([names.get(c, c) for c in own], [names.get(c, c) for c, _, _, _ in seq])
                    rest = seq[len(own):]
                    if bad is None and don == "raw" and rest:
                        bad = "a raw DIE yields attributes of other DIEs: %s" % [names.get(c, c) for c, _, _, _ in rest]
                    if bad is None and don == "cooked":
                        want = set()
                        for d in reach[1:]:
                            want |= {c for c in d.attrs if c not in excluded}
                        want -= set(own)
                        gotc = [c for c, _, _, _ in rest]
                        if len(gotc) != len(set(gotc)) or any(c in own for c in gotc):
                            bad = "an attribute name is yielded twice: %s" % [names.get(c, c) for c, _, _, _ in seq]
                        elif set(gotc) != want:
                            bad = "integrated attributes are %s, expected %s" % (sorted(names.get(c, c) for c in gotc), sorted(names.get(c, c) for c in want))
                    if bad is None:
                        for c, owner, wrapped, pos in seq:
                            if owner not in reach or c not in owner.attrs:
                                bad = "an attribute is yielded that no reachable DIE carries"
                            elif wrapped is not owner:
                                bad = ("attribute %s read from DIE %s is wrapped together with DIE %s: `value` would decode it in the wrong DIE's unit (file "
                                       "table, ranges base), so `attribute ?AT_x cooked value` differs from `@AT_x`" % (names.get(c, c), owner.name, getattr(wrapped, "name", wrapped)))
                        if bad is None and [p for _, _, _, p in seq] != list(range(len(seq))):
                            bad = "results are numbered %s instead of 0, 1, 2, ..." % [p for _, _, _, p in seq]
                    if bad:
                        bad = "`attribute` on %s: %s" % (desc, bad)
                        break
                if bad:
                    break
            if bad:
                break
    except OutOfBounds as x:
        bad = "attribute_producer: %s" % x
    except Thrown as x:
        bad = "attribute_producer raises an error (%s) on a well-formed DIE graph" % x
    inst.append((key, {"next_calls": n}))
    if bad:
        findings.append({"key": key, "where": "libzwerg/" + nxt[0]["l"], "msg": bad, "detail": None})
    return inst, findings


# ---------------------------------------------------------------------------
# X4: abbreviation words against an abstract abbreviation table

def x4(prog):
    """`abbrev entry`, `attribute`, `code`, `label`, `?haschildren`, `offset`, `form`, `?AT_x` on abbreviations, interpreted from
    source against an abstract libdw: a table is a list of abbreviations with byte lengths (reached only through dwarf_getabbrev's
    offset/length protocol and its end sentinel), an abbreviation a code, tag, children flag, offset and attribute list (reached
    through dwpp_abbrev_attrcnt / dwarf_getabbrevattr; as in libdw, attribute offsets are the abbreviation's offset plus the distance
    from its first attribute, and a reinterpretation of the abbreviation's storage reads its first private member, the offset).
    Tables of 0-3 abbreviations with 0-3 attributes realise every comparison."""
    import itertools
    from cxxobj import CxxEvaluator, Obj, Struct, Sym, OutOfBounds, VarPtr
    from absint import Thrown
    inst, findings = [], []

    def one(q):
        fs = [f for f in prog.funcs.values() if f["q"] == q and f.get("body") is not None]
        if len(fs) != 1:
            raise Broken("anchor %s vanished" % q)
        return fs[0]
    pe_ctor = one("(anonymous namespace)::producer_entry_abbrev_unit::producer_entry_abbrev_unit")
    pe_next = one("(anonymous namespace)::producer_entry_abbrev_unit::next")
    pa_ctor = one("(anonymous namespace)::producer_attribute_abbrev::producer_attribute_abbrev")
    pa_next = one("(anonymous namespace)::producer_attribute_abbrev::next")
    w_code, w_label, w_off = one("op_code_abbrev::operate"), one("op_label_abbrev::operate"), one("op_offset_abbrev::operate")
    w_kids = one("pred_haschildrenp_abbrev::result")
    wa_off, wa_label, wa_form = one("op_offset_abbrev_attr::operate"), one("op_label_abbrev_attr::operate"), one("op_form_abbrev_attr::operate")
    p_at, p_at_ctor = one("pred_atname_abbrev::result"), one("pred_atname_abbrev::pred_atname_abbrev")

    class Abbrev:
        def __init__(self, code, tag, kids, off, attrs):
            self.code, self.tag, self.kids, self.off, self.attrs = code, tag, kids, off, attrs
            self.length = 3 + 2 * len(attrs) + 2
            self.addr = 0x9000 + code * 0x100

        def copy_value(self):
            return self

        def reinterpret_as(self, t):
            # libdw's private struct Dwarf_Abbrev starts with `Dwarf_Off offset`
            if (t or "").replace("Dwarf_Off", "unsigned long").strip() not in ("unsigned long &", "const unsigned long &"):
                raise Broken("an abbreviation is reinterpreted as %s: not the first member of libdw's Dwarf_Abbrev (unmodelled)" % t)
            return self.off

    class Table:
        def __init__(self, abbrevs):
            self.abbrevs = abbrevs
            self.addr = 0x8000

        def copy_value(self):
            return self

    def getabbrev(ev, o, a):
        cud, off, lenp = a
        t = cud.table if hasattr(cud, "table") else None
        if t is None:
            raise OutOfBounds("dwarf_getabbrev on a CU DIE that was never filled in by dwarf_cu_die")
        pos = 0
        for ab in t.abbrevs:
            if pos == off:
                if lenp is not None:
                    lenp.store(ab.length)
                return ab
            pos += ab.length
        if pos == off:
            return -1              # DWARF_END_ABBREV
        return None                # an offset that is not the start of an abbreviation: libdw reports an error

    def cu_die(ev, o, a):
        cu, mem = a[0], a[1]
        mem.table = cu.table
        return mem

    def getattr_(ev, o, a):
        ab, idx, namep, formp, offp = a
        idx = int(idx)
        if not (0 <= idx < len(ab.attrs)):
            return -1
        n, f_, of = ab.attrs[idx]
        for p_, v in ((namep, n), (formp, f_), (offp, of)):
            if p_ is not None:
                p_.store(v)
        return 0

    def thrower(ev, o, a):
        raise Thrown("libdw error")
    hooks = {
        "dwarf_cu_die": cu_die, "dwarf_getabbrev": getabbrev, "dwarf_getabbrevattr": getattr_,
        "dwpp_abbrev_attrcnt": lambda ev, o, a: len(a[0].attrs),
        "dwarf_getabbrevcode": lambda ev, o, a: a[0].code,
        "dwarf_getabbrevtag": lambda ev, o, a: a[0].tag,
        "dwarf_abbrevhaschildren": lambda ev, o, a: 1 if a[0].kids else 0,
        "throw_libdw": thrower,
        "dw_offset_dom": lambda ev, o, a: "offset-dom", "dw_tag_dom": lambda ev, o, a: "tag-dom", "dw_attr_dom": lambda ev, o, a: "attr-dom",
        "dw_form_dom": lambda ev, o, a: "form-dom", "dw_abbrevcode_dom": lambda ev, o, a: "code-dom",
        "ctor:pred_result": lambda ev, o, a: a[0],
    }
    ev = CxxEvaluator(hooks, {}, prog=prog)

    def cst(v):
        c = getattr(v, "m_cst", None)
        val = getattr(c, "m_value", None)
        return (getattr(val, "m_u", val), getattr(c, "m_dom", None), getattr(v, "m_pos", None))

    def pr(r):
        if isinstance(r, bool):
            return "yes" if r else "no"
        if isinstance(r, int):
            return "yes" if r else "no"
        return r[1] if isinstance(r, tuple) else r
    seen = set()

    def report(key, f, msg):
        if key not in seen:
            seen.add(key)
            findings.append({"key": key, "where": "libzwerg/" + f["l"], "msg": msg, "detail": None})
    n_eval = 0
    try:
        for nab in range(0, 4):
            for counts in itertools.product(range(0, 3), repeat=nab):
                abbrevs = []
                off = 0
                for k, na in enumerate(counts):
                    ab = Abbrev(k + 1, 0x11 + k, k % 2 == 0, off, [(0x03 + i + k, 0x08 + i, off + 2 * i) for i in range(na)])
                    abbrevs.append(ab)
                    off += ab.length
                table = Table(abbrevs)
                unit = Obj("value_abbrev_unit")
                cu = Obj("Dwarf_CU")
                cu.table = table
                unit.m_cu, unit.m_dwctx, unit.m_pos = cu, Sym.of("dwctx"), 0
                prod = ev.construct(pe_ctor, Obj("(anonymous namespace)::producer_entry_abbrev_unit"), [unit])
                got = []
                for _ in range(nab + 2):
                    v = ev.call(pe_next, prod, [])
                    n_eval += 1
                    if v is None:
                        break
                    got.append(v)
                what = "an abbreviation table of %d abbreviations with %s attributes" % (nab, list(counts))
                seq = [getattr(g, "m_abbrev", None) for g in got]
                if seq != abbrevs:
                    report("X4:abbrev-entry", pe_next, "`entry` on %s yields the abbreviations %s; the table holds the codes %s, each exactly once and in order" % (
                        what, [getattr(x, "code", x) for x in seq], [x.code for x in abbrevs]))
                    continue
                if [getattr(g, "m_pos", None) for g in got] != list(range(len(got))):
                    report("X4:abbrev-entry", pe_next, "`entry` on %s numbers its results %s" % (what, [getattr(g, "m_pos", None) for g in got]))
                for g, ab in zip(got, abbrevs):
                    for f_, exp, nm in ((w_code, (ab.code, "code-dom", 0), "code"), (w_label, (ab.tag, "tag-dom", 0), "label"), (w_off, (ab.off, "offset-dom", 0), "offset")):
                        r = ev.call(f_, _op(ev, f_), [g.copy_value()])
                        if cst(r) != exp:
                            report("X4:" + nm, f_, "`%s` of abbreviation %d yields %s (domain %s); stored is %s" % (nm, ab.code, cst(r)[0], cst(r)[1], exp[0]))
                    if pr(ev.call(w_kids, _op(ev, w_kids), [g])) != ("yes" if ab.kids else "no"):
                        report("X4:?haschildren", w_kids, "`?haschildren` answers wrongly for an abbreviation whose children flag is %s" % ab.kids)
                    ap = ev.construct(pa_ctor, Obj("(anonymous namespace)::producer_attribute_abbrev"), [g.copy_value()])
                    outs = []
                    for _ in range(len(ab.attrs) + 2):
                        v = ev.call(pa_next, ap, [])
                        n_eval += 1
                        if v is None:
                            break
                        outs.append(v)
                    trip = [(getattr(v, "name", None), getattr(v, "form", None), getattr(v, "offset", None)) for v in outs]
                    if trip != ab.attrs or [getattr(v, "m_pos", None) for v in outs] != list(range(len(outs))):
                        report("X4:attribute", pa_next, "`attribute` of an abbreviation with the (name, form, offset) list %s yields %s numbered %s" % (
                            ab.attrs, trip, [getattr(v, "m_pos", None) for v in outs]))
                    for v, (n_, f2, o2) in zip(outs, ab.attrs):
                        for fw, exp, nm in ((wa_label, (n_, "attr-dom", 0), "label"), (wa_form, (f2, "form-dom", 0), "form"), (wa_off, (o2, "offset-dom", 0), "offset")):
                            r = ev.call(fw, _op(ev, fw), [v.copy_value()])
                            if cst(r) != exp:
                                report("X4:attr-" + nm, fw, "`%s` of an abbreviation attribute yields %s (domain %s); stored is %s" % (nm, cst(r)[0], cst(r)[1], exp[0]))
                    for code in {a_[0] for a_ in ab.attrs} | {0x03, 0x49}:
                        pobj = ev.construct(p_at_ctor, Obj("pred_atname_abbrev"), [code])
                        if pr(ev.call(p_at, pobj, [g])) != ("yes" if any(a_[0] == code for a_ in ab.attrs) else "no"):
                            report("X4:?AT_x", p_at, "?AT_%#x on an abbreviation with the attributes %s answers wrongly" % (code, [hex(a_[0]) for a_ in ab.attrs]))
    except OutOfBounds as x:
        report("X4:abbrev-entry", pe_next, "abbreviation code: %s" % x)
    except Thrown as x:
        report("X4:abbrev-entry", pe_next, "abbreviation code raises an error (%s) on a well-formed table" % x)
    for k in ("abbrev-entry", "code", "label", "offset", "?haschildren", "attribute", "attr-label", "attr-form", "attr-offset", "?AT_x"):
        inst.append(("X4:" + k, {"evaluations": n_eval}))
    return inst, findings


_OPS = {}


def _op(ev, f):
    """the operator object a word's operate()/result() runs on: one per word and evaluator, reused for every input, as a compiled
    query reuses it for every stack (state kept in a data member would make later answers depend on earlier inputs)"""
    k = (id(ev), f["fid"])
    if k not in _OPS:
        _OPS[k] = ev.new_object(f.get("cls") or "op")
    return _OPS[k]


# ---------------------------------------------------------------------------
# F7: signedness of DW_AT_const_value follows the DIE's type chain

def f7(prog, tier="quick"):
    """handle_at_dependent_value (with handle_encoding*, is_block and its local lambdas) interpreted from source for DW_AT_const_value
    on abstract type graphs: a variable or enumerator whose DW_AT_type leads through 0-2 typedef / const / volatile DIEs to a base type
    of every encoding the decoder knows, a pointer, or an enumeration type (with its own encoding, with an underlying DW_AT_type, or with
    nothing but the forms of its enumerators).  The terminal decoders are summarised by what they stand for.  Expected per DWARF:
    signed encodings -> signed, unsigned/address/UTF -> unsigned, boolean -> boolean domain, pointer -> address domain, enumeration
    without encoding -> the underlying type's, else the common form of the enumerators (sdata -> signed, udata -> unsigned)."""
    import itertools
    from cxxobj import CxxEvaluator, Obj, Struct, Sym, StdStr, OutOfBounds, VarPtr, Ptr
    from absint import Thrown
    inst, findings = [], []
    f = prog.func_opt("(anonymous namespace)::handle_at_dependent_value")
    if f is None:
        raise Broken("anchor handle_at_dependent_value vanished")
    E, T, A, F = {}, {}, {}, {}
    for e in prog.enums.values():
        if e["file"] == "/usr/include/dwarf.h":
            for c in e["consts"]:
                for pre, d in (("DW_ATE_", E), ("DW_TAG_", T), ("DW_AT_", A), ("DW_FORM_", F)):
                    if c["n"].startswith(pre):
                        d[c["n"][len(pre):]] = c["v"]
    if not (E and T and A and F):
        raise Broken("dwarf.h enumerators not found")

    class Node:
        def __init__(self, tag, name=None):
            self.tag, self.attrs, self.children, self.name = T[tag], {}, [], name
            self.addr = id(self)

    def die_of(x):
        return x.die if isinstance(x, Struct) and hasattr(x, "die") else None

    def mkdie(n):
        return Struct("Dwarf_Die", {"die": n})

    def fill_attr(mem, node, code):
        form, val = node.attrs[code]
        for k, v in (("code", code), ("form", form), ("val", val), ("owner", node), ("valp", (id(node), code)), ("cu", 1)):
            setattr(mem, k, v)
        return mem

    def attr_integrate(ev, o, a):
        d, code, mem = die_of(a[0]), int(a[1][2] if isinstance(a[1], tuple) else a[1]), a[2]
        if code in d.attrs:
            return fill_attr(mem, d, code)
        return None

    def formref(ev, o, a):
        at, mem = a
        if not isinstance(getattr(at, "val", None), Node):
            return None
        mem.die = at.val
        return mem

    def formudata(ev, o, a):
        at, out = a
        if isinstance(at.val, Node):
            return -1
        out.store(at.val)
        return 0

    class ChildIt:
        def __init__(self, node, pos):
            self.node, self.pos = node, pos
            self.addr = id(self)

        def at_end(self):
            return self.node is None or self.pos >= len(self.node.children)

        def copy_value(self):
            return ChildIt(self.node, self.pos)

        def assign_from(self, o):
            self.node, self.pos = o.node, o.pos

    def ci_inc(ev, o, a):
        if a:
            old = o.copy_value()
            o.pos += 1
            return old
        o.pos += 1
        return o
    code_of = lambda x: int(x[2]) if isinstance(x, tuple) else int(x)
    warnings = []
    hooks = {
        "value_die::get_die": lambda ev, o, a: o.m_die,
        "value_die::get_parent": lambda ev, o, a: o.parent,
        "dwarf_whatattr": lambda ev, o, a: a[0].code,
        "dwarf_whatform": lambda ev, o, a: a[0].form,
        "dwarf_tag": lambda ev, o, a: die_of(a[0]).tag,
        "dwarf_hasattr_integrate": lambda ev, o, a: 1 if code_of(a[1]) in die_of(a[0]).attrs else 0,
        "dwarf_hasattr": lambda ev, o, a: 1 if code_of(a[1]) in die_of(a[0]).attrs else 0,
        "dwarf_attr_integrate": attr_integrate,
        "dwarf_attr": attr_integrate,
        "dwarf_formref_die": formref,
        "dwarf_formudata": formudata,
        "dwarf_diename": lambda ev, o, a: (Ptr([ord(c) for c in die_of(a[0]).name] + [0], 0) if die_of(a[0]).name else None),
        "dwarf_errno": lambda ev, o, a: 0,
        "dwarf_dieoffset": lambda ev, o, a: 0x42,
        "ctor:child_iterator": lambda ev, o, a: (a[0].copy_value() if isinstance(a[0], ChildIt) else ChildIt(die_of(a[0]), 0)) if a else ChildIt(None, 0),
        "child_iterator::end": lambda ev, o, a: ChildIt(None, 0),
        "child_iterator::operator!=": lambda ev, o, a: not (o.at_end() and a[0].at_end()),
        "child_iterator::operator==": lambda ev, o, a: o.at_end() and a[0].at_end(),
        "child_iterator::operator++": ci_inc,
        "child_iterator::operator*": lambda ev, o, a: mkdie(o.node.children[o.pos]),
        "(anonymous namespace)::atval_signed": lambda ev, o, a: ("signed", None),
        "(anonymous namespace)::atval_unsigned": lambda ev, o, a: ("unsigned", "dec"),
        "(anonymous namespace)::atval_unsigned_with_domain": lambda ev, o, a: ("unsigned", a[1]),
        "(anonymous namespace)::extract_unsigned": lambda ev, o, a: a[0].raw,
        "(anonymous namespace)::pass_single_value": lambda ev, o, a: ("unsigned", "dec") if a and isinstance(a[0], tuple) and a[0][0] == "vcst" else ("value", a[0] if a else None),
        "(anonymous namespace)::pass_block": lambda ev, o, a: ("block", None),
        "dwarf_formblock": lambda ev, o, a: -1,
        "throw_libdw": lambda ev, o, a: (_ for _ in ()).throw(Thrown("libdw error")),
        "dw_address_dom": lambda ev, o, a: "address",
        "dw_encoding_dom": lambda ev, o, a: Sym.of("encoding-dom"),
        "ctor:ios_flag_saver": lambda ev, o, a: None,
        "std::make_unique<value_cst*": lambda ev, o, a: ("vcst", a[0]),
        "value_cst::get_constant": lambda ev, o, a: o.cst,
        "constant::value": lambda ev, o, a: o,
        "mpz_class::is_unsigned": lambda ev, o, a: True,
        "mpz_class::uval": lambda ev, o, a: o.u,
    }

    class Raw:
        """what extract_unsigned yields: the datum read as unsigned"""
        def __init__(self, u):
            self.u, self.cst = u, self
            self.addr = id(self)

        def copy_value(self):
            return self
    ev = CxxEvaluator(hooks, {"bool_constant_dom": "bool", "dec_constant_dom": "dec", "hex_constant_dom": "hex", "std::cerr": None}, prog=prog)
    from cxxobj import OStream
    ev.globals["std::cerr"] = OStream()
    signed_enc = ("signed", "signed_char")
    unsigned_enc = ("unsigned", "unsigned_char", "address", "UTF")
    peel_tags = ("typedef", "const_type", "volatile_type")
    cases = []
    for npeel in (0, 1, 2):
        for enc in signed_enc + unsigned_enc + ("boolean",):
            cases.append(("base", npeel, enc))
        cases.append(("pointer", npeel, None))
    for npeel in (0, 1):
        for enc in ("signed", "unsigned"):
            cases.append(("enum-enc", npeel, enc))
            cases.append(("enum-typed", npeel, enc))
        for forms in (("sdata", "sdata"), ("udata", "udata"), ("udata",), ("sdata",), ("udata", "sdata"), ("sdata", "udata")):
            cases.append(("enum-forms", npeel, forms))
    n = 0
    key = "F7:const_value"
    bad = None

    def chain(target, npeel):
        cur = target
        for i in range(npeel):
            p = Node(peel_tags[i % len(peel_tags)])
            p.attrs[A["type"]] = (F["ref4"], cur)
            cur = p
        return cur
    try:
        for kind, npeel, what in cases:
            for via_enumerator in (False, True) if kind.startswith("enum") else (False,):
                if kind == "base":
                    tgt = Node("base_type", "t")
                    tgt.attrs[A["encoding"]] = (F["data1"], E[what])
                    exp = ("signed", None) if what in signed_enc else (("unsigned", "bool") if what == "boolean" else ("unsigned", "dec"))
                elif kind == "pointer":
                    tgt = Node("pointer_type")
                    exp = ("unsigned", "address")
                else:
                    tgt = Node("enumeration_type", "e")
                    if kind == "enum-enc":
                        tgt.attrs[A["encoding"]] = (F["data1"], E[what])
                        exp = ("signed", None) if what == "signed" else ("unsigned", "dec")
                    elif kind == "enum-typed":
                        under = Node("base_type", "u")
                        under.attrs[A["encoding"]] = (F["data1"], E[what])
                        tgt.attrs[A["type"]] = (F["ref4"], chain(under, 1))
                        exp = ("signed", None) if what == "signed" else ("unsigned", "dec")
                    else:
                        for fm in what:
                            en = Node("enumerator", "k")
                            en.attrs[A["const_value"]] = (F[fm], 1)
                            tgt.children.append(en)
                        exp = ("signed", None) if set(what) == {"sdata"} else ("unsigned", "dec")
                if via_enumerator:
                    if kind == "enum-forms":
                        continue          # an enumerator of an untyped enumeration is reported as "unexpected": not a documented case
                    if kind == "enum-enc":
                        continue          # the code requires DW_AT_type on the enumeration for data-form enumerators
                    holder = Node("enumerator", "k")
                    tgt.children.append(holder)
                    parent_die = tgt
                else:
                    holder = Node("variable", "v")
                    holder.attrs[A["type"]] = (F["ref4"], chain(tgt, npeel))
                    parent_die = None
                holder.attrs[A["const_value"]] = (F["data1"], 0xff)
                attr = Struct("Dwarf_Attribute", {})
                fill_attr(attr, holder, A["const_value"])
                attr.raw = Raw(0xff)
                vd = Obj("value_die")
                vd.m_die = mkdie(holder)
                if parent_die is not None:
                    pv = Obj("value_die")
                    pv.m_die = mkdie(parent_die)
                    vd.parent = pv
                r = ev.call(f, None, [attr, vd, Sym.of("dwctx")])
                n += 1
                got = r if isinstance(r, tuple) else ("?", r)
                got = (got[0], got[1] if not isinstance(got[1], Sym) else got[1].q)
                if got != exp and bad is None:
                    desc = "%s%s whose type is %s%s" % ("an enumerator of " if via_enumerator else "a variable ", "" if not via_enumerator else "an enumeration", (" reached through %d typedef/cv DIEs: " % npeel) if npeel else "",
                                                          {"base": "a base type with encoding DW_ATE_%s" % (what,), "pointer": "a pointer type", "enum-enc": "an enumeration with encoding DW_ATE_%s" % (what,),
                                                           "enum-typed": "an enumeration whose underlying type has encoding DW_ATE_%s" % (what,),
                                                           "enum-forms": "an enumeration without encoding whose enumerators use the forms %s" % (list(what),)}[kind])
                    bad = "DW_AT_const_value (data form) of %s is decoded as %s%s; expected %s%s" % (
                        desc, got[0], (" in the %s domain" % got[1]) if got[1] else "", exp[0], (" in the %s domain" % exp[1]) if exp[1] else "")
    except OutOfBounds as x:
        raise Broken("handle_at_dependent_value cannot be evaluated: %s" % x)
    except Thrown as x:
        bad = bad or "decoding DW_AT_const_value raises an error (%s) on a well-formed type chain" % x
    inst.append((key, {"type_graphs": n}))
    if n < 30:
        raise Broken("only %d type graphs evaluated (floor 30)" % n)
    if bad:
        findings.append({"key": key, "where": "libzwerg/" + f["l"], "msg": bad, "detail": None})
    # DW_AT_decl_file / DW_AT_call_file: the index stored in THE ATTRIBUTE, resolved in the file table of the unit of THE DIE it was
    # handed.  An inlined-subroutine DIE has both (call_file: where it was inlined; decl_file, possibly only through its abstract
    # origin: where the function was declared), the two units of the graph have different tables.
    class Files:
        def __init__(self, names):
            self.names = names
            self.addr = id(self)

    def diecu(ev, o, a):
        d = die_of(a[0])
        if d is None or getattr(d, "unit", None) is None:
            return None
        a[1].die = d.unit
        return a[1]

    def getsrcfiles(ev, o, a):
        u = die_of(a[0])
        if u is None or not hasattr(u, "files"):
            return -1
        a[1].store(u.files)
        if len(a) > 2 and a[2] is not None:
            a[2].store(len(u.files.names))
        return 0

    def cstr(t):
        return Ptr([ord(c) for c in t] + [0], 0)

    def filesrc(ev, o, a):
        fl, idx = a[0], int(a[1])
        if not isinstance(fl, Files) or not (0 <= idx < len(fl.names)):
            return None
        return cstr(fl.names[idx])

    def decl_file_of(ev, o, a):
        d = die_of(a[0])
        seen = 0
        while d is not None and seen < 4:
            if A["decl_file"] in d.attrs:
                idx = d.attrs[A["decl_file"]][1]
                return cstr(d.unit.files.names[idx]) if 0 <= idx < len(d.unit.files.names) else None
            nxt = d.attrs.get(A["abstract_origin"]) or d.attrs.get(A["specification"])
            d = nxt[1] if nxt else None
            seen += 1
        return None

    def text_of(x):
        if isinstance(x, Ptr):
            cells, out, i = x.cells(), "", x.off
            while i < len(cells) and cells[i] not in (0, None):
                out += chr(cells[i] & 0xff)
                i += 1
            return out
        if isinstance(x, StdStr):
            return x.b.decode("latin-1")
        return x
    ev.hooks.update({"dwarf_diecu": diecu, "dwarf_getsrcfiles": getsrcfiles, "dwarf_filesrc": filesrc, "dwarf_decl_file": decl_file_of,
                     "std::make_unique<value_str*": lambda ev_, o, a: ("vstr", text_of(a[0]), a[1] if len(a) > 1 else None)})
    key2 = "F7:file"
    bad2 = None
    n2 = 0
    try:
        u1, u2 = Node("compile_unit", "one.c"), Node("compile_unit", "two.c")
        u1.files, u2.files = Files(["<none>", "one.c", "one.h", "shared.h"]), Files(["<none>", "two.c", "shared.h", "two.h"])
        u1.unit, u2.unit = u1, u2
        origin = Node("subprogram", "callee")
        origin.unit = u1
        origin.attrs[A["decl_file"]] = (F["data1"], 2)
        for unit, decl, call in ((u1, None, 1), (u1, 3, 1), (u2, None, 1), (u2, 2, 3)):
            d = Node("inlined_subroutine")
            d.unit = unit
            d.attrs[A["abstract_origin"]] = (F["ref_addr"], origin)
            d.attrs[A["call_file"]] = (F["data1"], call)
            if decl is not None:
                d.attrs[A["decl_file"]] = (F["data1"], decl)
            for code in ([A["call_file"]] + ([A["decl_file"]] if decl is not None else [])):
                attr = Struct("Dwarf_Attribute", {})
                fill_attr(attr, d, code)
                vd = Obj("value_die")
                vd.m_die = mkdie(d)
                ev.steps = 0
                r = ev.call(f, None, [attr, vd, Sym.of("dwctx")])
                n2 += 1
                v = r[1] if isinstance(r, tuple) and r[0] == "value" else r
                got = v[1] if isinstance(v, tuple) and v and v[0] == "vstr" else repr(v)
                want = unit.files.names[d.attrs[code][1]]
                if got != want and bad2 is None:
                    nm = "DW_AT_call_file" if code == A["call_file"] else "DW_AT_decl_file"
                    bad2 = "%s = %d of an inlined-subroutine DIE in unit %s (files %s; its abstract origin is declared in %s of another unit) is decoded as %r; the attribute stores index %d of this unit's table: %r" % (
                        nm, d.attrs[code][1], unit.name, unit.files.names[1:], "one.h", got, d.attrs[code][1], want)
    except OutOfBounds as x:
        raise Broken("handle_at_dependent_value cannot be evaluated for DW_AT_decl_file: %s" % x)
    except Thrown as x:
        bad2 = bad2 or "decoding DW_AT_decl_file / DW_AT_call_file raises an error (%s) on a well-formed DIE" % x
    inst.append((key2, {"attributes": n2}))
    if bad2:
        findings.append({"key": key2, "where": "libzwerg/" + f["l"], "msg": bad2, "detail": None})
    # the location attributes of DWARF 2-5 (the attributes of class exprloc / loclist that describe where something lives) in a block or
    # a section-offset form: the value is a location list - one element per address range - not a byte sequence or a number
    LOCATION_ATTRS = ("location", "data_member_location", "data_location", "frame_base", "return_addr", "segment", "static_link", "use_location", "vtable_elem_location")
    ev.hooks["std::make_unique<(anonymous namespace)::locexpr_producer*"] = lambda ev_, o, a: ("locexpr",)
    ev.hooks["std::make_unique<locexpr_producer*"] = lambda ev_, o, a: ("locexpr",)
    key3 = "F7:location"
    bad3 = None
    n3 = 0
    for nm in LOCATION_ATTRS:
        if nm not in A:
            raise Broken("DW_AT_%s is not in the system dwarf.h" % nm)
        for fm in ("block1", "sec_offset"):
            d = Node("variable", "v")
            d.unit = None
            d.attrs[A[nm]] = (F[fm], 0)
            attr = Struct("Dwarf_Attribute", {})
            fill_attr(attr, d, A[nm])
            attr.raw = Raw(0)
            vd = Obj("value_die")
            vd.m_die = mkdie(d)
            try:
                ev.steps = 0
                r = ev.call(f, None, [attr, vd, Sym.of("dwctx")])
                got = r[0] if isinstance(r, tuple) and r else repr(r)
            except Thrown as x:
                got = "an error (%s)" % x
            except OutOfBounds as x:
                raise Broken("handle_at_dependent_value cannot be evaluated for DW_AT_%s: %s" % (nm, x))
            except (AttributeError, TypeError):
                # the summaries of the generic number / block path were handed this attribute: it fell out of the location cases
                got = "a plain number or a raw block (the generic path)"
            n3 += 1
            if got != "locexpr" and bad3 is None:
                bad3 = "DW_AT_%s in DW_FORM_%s is decoded as %s; it is a location attribute: its value is a list of location expressions per address range (`elem`, `address`, `?OP_x` apply to it)" % (nm, fm, got)
    inst.append((key3, {"attributes": n3}))
    if bad3:
        findings.append({"key": key3, "where": "libzwerg/" + f["l"], "msg": bad3, "detail": None})
    return inst, findings


# ---------------------------------------------------------------------------
# M2: `unit` on a Dwarf lists exactly the units it should

def m2(prog, tier="quick"):
    """dwarf_unit_producer::next with maybe_next_dwarf and next_acceptable_unit, interpreted from source on abstract Dwarf lists: a value
    may hold several Dwarfs (a file and its alt file, the members of an archive), each a sequence of compile (C) and partial (P) units.
    Raw mode lists every unit of every Dwarf in order; cooked mode lists exactly the non-partial ones; results are numbered from 0 and
    carry the unit's own Dwarf_CU and offset.  All sequences over {C, P} up to length 2 (3) in up to 2 (3) Dwarfs."""
    import itertools
    from cxxobj import CxxEvaluator, Obj, Struct, Vec, Sym, OutOfBounds
    from absint import Thrown
    inst, findings = [], []
    cls = "(anonymous namespace)::dwarf_unit_producer"
    ctor = [f for f in prog.funcs.values() if f.get("cls") == cls and f["n"] == "dwarf_unit_producer" and (f.get("body") is not None or f.get("inits"))]
    nxt = [f for f in prog.funcs.values() if f.get("cls") == cls and f["n"] == "next" and f.get("body") is not None]
    if len(ctor) != 1 or len(nxt) != 1:
        raise Broken("anchor dwarf_unit_producer (constructor / next) vanished")
    tags = {}
    for e in prog.enums.values():
        if e["file"] == "/usr/include/dwarf.h":
            for c in e["consts"]:
                if c["n"] in ("DW_TAG_partial_unit", "DW_TAG_compile_unit", "DW_TAG_type_unit", "DW_TAG_skeleton_unit"):
                    tags[c["n"]] = c["v"]
    don_enum = None
    for e in prog.enums.values():
        if e["q"] == "doneness":
            don_enum = {c["n"]: ("enum", c["n"], c["v"]) for c in e["consts"]}
    if len(tags) != 4 or don_enum is None:
        raise Broken("enumerations needed by M2 not found")

    class Unit:
        def __init__(self, dw, idx, kind):
            self.dw, self.idx, self.kind = dw, idx, kind
            self.tag = tags[{"P": "DW_TAG_partial_unit", "C": "DW_TAG_compile_unit", "T": "DW_TAG_type_unit", "S": "DW_TAG_skeleton_unit"}[kind]]
            self.off = 0x10 * idx + 0xb
            self.cuobj = Obj("Dwarf_CU")
            self.cuobj.unit = self
            self.addr = id(self)

        def __repr__(self):
            return "%s%d.%d" % (self.kind, self.dw.k, self.idx)

    class ADwarf:
        def __init__(self, k, kinds):
            self.k = k
            self.units = [Unit(self, i, c) for i, c in enumerate(kinds)]
            self.addr = 0x100 + k

        def copy_value(self):
            return self

    class CuIt:
        def __init__(self, dw, pos):
            self.dw, self.pos = dw, pos
            self.addr = id(self)

        def at_end(self):
            return self.dw is None or self.pos >= len(self.dw.units)

        def copy_value(self):
            return CuIt(self.dw, self.pos)

        def assign_from(self, o):
            self.dw, self.pos = o.dw, o.pos

        def eq(self, o):
            return (self.at_end() and o.at_end()) or (self.dw is o.dw and self.pos == o.pos)

        def cur(self):
            if self.at_end():
                raise OutOfBounds("dereference of a unit iterator at its end")
            return self.dw.units[self.pos]

    def inc(ev, o, a):
        if o.at_end():
            raise OutOfBounds("increment of a unit iterator at its end")
        old = o.copy_value()
        o.pos += 1
        return old if a else o

    def deref(ev, o, a):
        u = o.cur()
        d = Struct("Dwarf_Die", {})
        d.die, d.cu, d.tag = u, u.cuobj, u.tag
        return d
    hooks = {
        "all_dwarfs": lambda ev, o, a: Vec(list(a[0].dwarfs), "dwarfs"),
        "ctor:cu_iterator": lambda ev, o, a: (a[0].copy_value() if isinstance(a[0], CuIt) else CuIt(a[0], 0)) if a else CuIt(None, 0),
        "cu_iterator::end": lambda ev, o, a: CuIt(None, 0),
        "cu_iterator::operator==": lambda ev, o, a: o.eq(a[0]),
        "cu_iterator::operator!=": lambda ev, o, a: not o.eq(a[0]),
        "cu_iterator::operator++": inc,
        "cu_iterator::operator*": deref,
        "cu_iterator::offset": lambda ev, o, a: o.cur().off,
        "dwarf_tag": lambda ev, o, a: a[0].tag,
    }
    ev = CxxEvaluator(hooks, {}, prog=prog)
    maxlen, maxdw = (3, 3) if tier == "thorough" else (2, 2)
    seqs = [()]
    for n in range(1, maxlen + 1):
        seqs += list(itertools.product("CP", repeat=n))
    # units that are neither compile nor partial units (type units of -fdebug-types-section, split-DWARF skeletons) are units too
    seqs += [("T",), ("S",), ("T", "C"), ("C", "T", "P"), ("P", "S")]
    key = "M2:dwarf_unit_producer"
    bad = None
    n_eval = 0
    try:
        for ndw in range(1, maxdw + 1):
            for combo in itertools.product(seqs, repeat=ndw):
                for don in ("cooked", "raw"):
                    dwctx = Obj("dwfl_context")
                    dwctx.dwarfs = [ADwarf(k, kinds) for k, kinds in enumerate(combo)]
                    prod = ev.construct(ctor[0], Obj(cls), [dwctx, don_enum[don]])
                    got = []
                    total = sum(len(c) for c in combo)
                    for _ in range(total + 2):
                        v = ev.call(nxt[0], prod, [])
                        n_eval += 1
                        if v is None:
                            break
                        got.append(v)
                    want = [u for d in dwctx.dwarfs for u in d.units if don == "raw" or u.kind != "P"]
                    seq = [getattr(getattr(g, "m_cu", None), "unit", None) for g in got]
                    desc = " | ".join("".join(c) or "-" for c in combo)
                    if seq != want and bad is None:
                        bad = "`unit` (%s) on a value holding the Dwarfs %s lists %s; expected %s%s" % (
                            don, desc, seq, want, ": a partial unit is listed as a unit" if don == "cooked" and any(u is not None and u.kind == "P" for u in seq) else "")
                    elif bad is None and ([getattr(g, "m_pos", None) for g in got] != list(range(len(got))) or [getattr(g, "m_offset", None) for g in got] != [u.off for u in want]):
                        bad = "`unit` (%s) on %s numbers its results %s with offsets %s" % (don, desc, [getattr(g, "m_pos", None) for g in got], [getattr(g, "m_offset", None) for g in got])
    except OutOfBounds as x:
        bad = bad or "dwarf_unit_producer: %s" % x
    except Thrown as x:
        bad = bad or "dwarf_unit_producer raises an error (%s)" % x
    inst.append((key, {"next_calls": n_eval}))
    if bad:
        findings.append({"key": key, "where": "libzwerg/" + nxt[0]["l"], "msg": bad, "detail": None})
    return inst, findings


# ---------------------------------------------------------------------------
# I2 / I3: the root and parent tables of cache.cc, interpreted against an abstract libdw

def i2(prog):
    """root_cache::is_root and parent_cache::find (with populate_unit / recursively_populate_unit) interpreted from source on two
    abstract Dwarf files that share section offsets, with units whose root DIEs carry any tag (compile, partial, type, skeleton, an
    unknown one), queried in several orders (so the tables are filled by different first queries): `?root` holds exactly for the unit
    DIEs of the DIE's own file; the parent of every DIE is the stored parent, of a unit DIE `none`."""
    import itertools
    from cxxobj import CxxEvaluator, Obj, Struct, Sym, Vec, It, MapObj, OutOfBounds
    from absint import Thrown
    inst, findings = [], []
    isroot = prog.func_opt("root_cache::is_root")
    pfind = prog.func_opt("parent_cache::find")
    if isroot is None or pfind is None:
        raise Broken("anchors root_cache::is_root / parent_cache::find vanished")
    NO_OFF = (1 << 64) - 1

    class N:
        def __init__(self, dw, off, tag, parent=None):
            self.dw, self.off, self.tag, self.parent, self.kids = dw, off, tag, parent, []
            if parent is not None:
                parent.kids.append(self)

        def root(self):
            return self if self.parent is None else self.parent.root()

        def __repr__(self):
            return "%s@%#x" % (self.dw.name, self.off)

    class Dw:
        def __init__(self, name, addr):
            self.name, self.addr, self.units = name, addr, []

    def build(name, addr, tags):
        dw = Dw(name, addr)
        off = 0x0b
        for t in tags:
            r = N(dw, off, t)
            dw.units.append(r)
            a = N(dw, off + 0x10, 0x13, r)
            N(dw, off + 0x14, 0x0d, a)
            N(dw, off + 0x18, 0x0d, a)
            N(dw, off + 0x20, 0x34, r)
            off += 0x40
        return dw
    # compile_unit 0x11, partial_unit 0x3c, type_unit 0x41, skeleton_unit 0x4a, 0x4999 (vendor/unknown)
    D1 = build("file1", 0x1000, [0x11, 0x3c, 0x4a])
    D2 = build("file2", 0x2000, [0x41, 0x4999])
    # a unit with 70 lexical blocks nested in one another (generated code, deep template instantiations) and a DIE after them
    D3 = build("file3", 0x3000, [0x11])
    cur = D3.units[0]
    for i_ in range(70):
        cur = N(D3, 0x100 + 4 * i_, 0x0b, cur)
    N(D3, 0x100 + 4 * 70, 0x34, cur)
    N(D3, 0x100 + 4 * 72, 0x24, D3.units[0])
    import sys as _sys
    _old_limit = _sys.getrecursionlimit()
    _sys.setrecursionlimit(max(_old_limit, 20000))

    def all_nodes(dw):
        out = []

        def rec(n):
            out.append(n)
            for k in n.kids:
                rec(k)
        for u in dw.units:
            rec(u)
        return out

    def die_of(n):
        d = Struct("Dwarf_Die", {})
        d.node, d.cu = n, n.root()
        return d

    def fill(dst, n):
        dst.node, dst.cu = n, n.root()
        return dst

    def sibling(ev, o, a):
        n = a[0].node
        if n.parent is None:
            return 1
        sibs = n.parent.kids
        i = sibs.index(n)
        if i + 1 < len(sibs):
            fill(a[1], sibs[i + 1])
            return 0
        return 1

    def child(ev, o, a):
        n = a[0].node
        if n.kids:
            fill(a[1], n.kids[0])
            return True
        return False

    def cu_iter(ev, o, a):
        dw = a[0]
        if isinstance(dw, It):
            return dw.copy_value()
        return It(Vec([die_of(u) for u in dw.units], "units"), 0)

    def cu_end(ev, o, a):
        return ("cu-end",)

    def it_ne(ev, o, a):
        l, r = (o, a[0]) if o is not None and len(a) == 1 else (a[0], a[1])
        if isinstance(r, tuple) and r and r[0] == "cu-end":
            return l.pos < len(l.vec.items)
        raise Broken("cu_iterator compared with something that is not its end")
    hooks = {
        "dwarf_cu_getdwarf": lambda ev, o, a: a[0].dw,
        "dwarf_dieoffset": lambda ev, o, a: a[0].node.off,
        "dwarf_tag": lambda ev, o, a: a[0].node.tag,
        "dwarf_diecu": lambda ev, o, a: fill(a[1], a[0].node.root()),
        "dwarf_siblingof": sibling,
        "dwpp_child": child,
        "ctor:cu_iterator": cu_iter,
        "cu_iterator::end": cu_end,
        "cu_iterator::operator!=": it_ne,
        "cu_iterator::operator*": lambda ev, o, a: o.deref(),
        "cu_iterator::operator++": lambda ev, o, a: (setattr(o, "pos", o.pos + 1), o)[1],
        "throw_libdw": lambda ev, o, a: (_ for _ in ()).throw(Thrown("libdw error")),
    }
    ev = CxxEvaluator(hooks, {"parent_cache::no_off": NO_OFF}, prog=prog)
    nodes = all_nodes(D1) + all_nodes(D2) + all_nodes(D3)
    orders = [nodes, list(reversed(nodes)), nodes[7:] + nodes[:7], [n for n in nodes if n.parent is not None] + [n for n in nodes if n.parent is None]]
    bad_r = bad_p = None
    n_eval = 0
    try:
        for order in orders:
            rc, pc = Obj("root_cache"), Obj("parent_cache")
            rc.m_cache, pc.m_cache = MapObj(), MapObj()
            for rep_ in range(2):
                for n in order:
                    ev.steps = 0
                    r = ev.call(isroot, rc, [die_of(n)])
                    n_eval += 1
                    if bool(r) != (n.parent is None) and bad_r is None:
                        bad_r = "`?root` answers %s for the DIE %r (tag %#x), which is %sa unit DIE of %s" % (bool(r), n, n.tag, "" if n.parent is None else "not ", n.dw.name)
                    p = ev.call(pfind, pc, [die_of(n)])
                    n_eval += 1
                    want = NO_OFF if n.parent is None else n.parent.off
                    if p != want and bad_p is None:
                        bad_p = "the parent table gives %s for the DIE %r; stored parent is %s" % (hex(p) if isinstance(p, int) else p, n, "none" if n.parent is None else hex(want))
    except OutOfBounds as x:
        raise Broken("cache.cc cannot be evaluated: %s" % x)
    except Thrown as x:
        bad_r = bad_r or "the root / parent tables raise an error (%s) on a well-formed file" % x
    inst.append(("I2:root_cache::is_root", {"evaluations": n_eval}))
    inst.append(("I2:parent_cache::find", {"evaluations": n_eval}))
    if bad_r:
        findings.append({"key": "I2:root_cache::is_root", "where": "libzwerg/" + isroot["l"],
                         "msg": bad_r + ": `root` satisfies `?root`, and `unit root` equals `entry ?root`, only if every unit DIE - whatever its tag - and nothing else is a root", "detail": None})
    if bad_p:
        findings.append({"key": "I2:parent_cache::find", "where": "libzwerg/" + pfind["l"], "msg": bad_p + ": every DIE yielded by `child` of D must have D as `parent`", "detail": None})
    return inst, findings


def x5(prog):
    """`value` on a location operation yields the first operand's values, then the second's: op_value_loclist_op::operate and
    value_producer_cat (constructors and next) interpreted from source with the two operand decoders summarised as producers of 0-2
    tagged values each; all nine combinations, each drained to exhaustion and asked once more."""
    from cxxobj import CxxEvaluator, Obj, Sym, OutOfBounds
    from absint import Thrown
    inst, findings = [], []
    f = prog.func_opt("op_value_loclist_op::operate")
    nx = [g for g in prog.funcs.values() if g["q"].startswith("value_producer_cat<") and g["n"] == "next" and g.get("body") is not None]
    if f is None or not nx:
        raise Broken("anchors op_value_loclist_op::operate / value_producer_cat::next vanished")

    class P:
        def __init__(self, vals):
            self.vals = list(vals)
            self.addr = id(self)
    hooks = {"dwop_number": lambda ev, o, a: P(a[2]["one"]), "dwop_number2": lambda ev, o, a: P(a[2]["two"]),
             "method:next": lambda ev, o, a: (o.vals.pop(0) if o.vals else None) if isinstance(o, P) else (_ for _ in ()).throw(Broken("next() on an unmodelled producer"))}
    ev = CxxEvaluator(hooks, {}, prog=prog)
    key = "X5:value-of-operation"
    bad = None
    n = 0
    for n1 in range(3):
        for n2 in range(3):
            a = Obj("value_loclist_op")
            a.m_dwctx, a.m_attr = Sym.of("ctx"), Sym.of("attr")
            one, two = ["first#%d" % i for i in range(n1)], ["second#%d" % i for i in range(n2)]
            a.m_dwop = {"one": one, "two": two}
            try:
                r = ev.call(f, Obj("op_value_loclist_op"), [a])
                got = []
                for _ in range(n1 + n2 + 2):
                    v = ev.call(nx[0], r, [])
                    n += 1
                    if v is None:
                        break
                    got.append(v)
                again = ev.call(nx[0], r, [])
            except OutOfBounds as x:
                bad = bad or "`value` on an operation: %s" % x
                continue
            except Thrown as x:
                bad = bad or "`value` on an operation raises an error (%s)" % x
                continue
            if (got != one + two or again is not None) and bad is None:
                bad = "`value` on an operation whose first operand decodes to %s and second to %s yields %s%s; expected the first operand's values, then the second's" % (
                    one, two, got, "" if again is None else " and %r after exhaustion" % again)
    inst.append((key, {"next_calls": n}))
    if bad:
        findings.append({"key": key, "where": "libzwerg/" + f["l"], "msg": bad, "detail": None})
    return inst, findings


def x6(prog):
    """libdw finds the data that belongs to a location operation (the block of DW_OP_implicit_value, the DIE or attribute an operation
    refers to) by the ADDRESS of the Dwarf_Op inside the expression it decoded itself.  Every call of dwarf_getlocation_implicit_value,
    dwarf_getlocation_die and dwarf_getlocation_attr must therefore be handed a Dwarf_Op pointer that was received as a pointer
    (parameter or member), never the address of a Dwarf_Op object that lives in the calling function (a by-value parameter or a local
    copy)."""
    inst, findings = [], []
    KEYED = ("dwarf_getlocation_implicit_value", "dwarf_getlocation_die", "dwarf_getlocation_attr")
    n = 0
    for f in sorted(prog.funcs.values(), key=lambda f: f["fid"]):
        if f.get("body") is None or not prog.rel(f.get("file", "")).startswith("libzwerg/"):
            continue
        calls_ = [c for c in walk(f["body"]) if c.get("k") == "call" and c.get("fn") in KEYED and len(c.get("a", [])) >= 2]
        if not calls_:
            continue
        byval = {p["id"]: p["n"] for p in f.get("params", []) if (p.get("t") or "").replace("const ", "").strip() in ("Dwarf_Op", "Dwarf_Op &&")}
        for x in walk(f["body"]):
            if x.get("k") == "decl":
                for v in x["vars"]:
                    if (v.get("t") or "").replace("const ", "").strip() == "Dwarf_Op":
                        byval[v["id"]] = v["n"]
        for c in calls_:
            n += 1
            key = "X6:%s@%s" % (f["q"].split("<")[0], c["fn"])
            a = c["a"][1]
            u = a
            while isinstance(u, dict) and u.get("k") in ("cast", "paren") and isinstance(u.get("e"), dict):
                u = u["e"]
            bad = None
            if isinstance(u, dict) and u.get("k") == "un" and u.get("op") == "&":
                t = u.get("e")
                while isinstance(t, dict) and t.get("k") in ("cast", "paren") and isinstance(t.get("e"), dict):
                    t = t["e"]
                if isinstance(t, dict) and t.get("k") == "ref" and t.get("id") in byval:
                    bad = "passes the address of its own copy `%s` of the operation" % byval[t["id"]]
            inst.append((key, {"at": c.get("l")}))
            if bad and not any(fd["key"] == key for fd in findings):
                findings.append({"key": key, "where": "libzwerg/" + str(c.get("l") or f["l"]),
                                 "msg": "%s %s to %s: libdw looks the operation up by its address inside the expression it decoded, so the lookup fails "
                                        "(`no block data`) or finds nothing for a copy" % (f["q"].split("<")[0], bad, c["fn"]), "detail": None})
    if n < 3:
        raise Broken("fewer address-keyed libdw location lookups than confirmed by hand (3)")
    return inst, findings


def f8(prog):
    """a DW_AT_const_value (etc.) stored as a block of 1, 2, 4 or 8 bytes is decoded as the fixed-size data form of exactly that many
    bytes, read from the block's data; any other length is passed on as a block: handle_encoding_block interpreted from source with
    dwarf_formblock scripted and the data decoder summarised (it records the form and pointer it is given)."""
    from cxxobj import CxxEvaluator, Obj, Struct, Sym, OutOfBounds
    from absint import Thrown
    inst, findings = [], []
    f = prog.func_opt("(anonymous namespace)::handle_encoding_block")
    if f is None or f.get("body") is None:
        raise Broken("anchor handle_encoding_block vanished")
    forms = {c["n"]: c["v"] for e in prog.enums.values() if e["file"] == "/usr/include/dwarf.h" for c in e["consts"] if c["n"].startswith("DW_FORM_data")}
    want_form = {1: forms.get("DW_FORM_data1"), 2: forms.get("DW_FORM_data2"), 4: forms.get("DW_FORM_data4"), 8: forms.get("DW_FORM_data8")}
    if None in want_form.values():
        raise Broken("DW_FORM_dataN constants vanished from dwarf.h")
    seen = []
    cur = {}

    def formblock(ev, o, a):
        a[1].length, a[1].data = cur["len"], cur["data"]
        return 0
    hooks = {"dwarf_formblock": formblock,
             "(anonymous namespace)::handle_encoding_data": lambda ev, o, a: (seen.append((a[0].form[2] if isinstance(a[0].form, tuple) else a[0].form, a[0].valp, a[1])), Sym.of("decoded"))[1],
             "throw_libdw": lambda ev, o, a: (_ for _ in ()).throw(Thrown("libdw error"))}
    ev = CxxEvaluator(hooks, {}, prog=prog)
    key = "F8:handle_encoding_block"
    bad = None
    for ln in (0, 1, 2, 3, 4, 5, 8, 9, 16):
        for enc in (5, 7):
            cur["len"], cur["data"] = ln, Sym.of("block-data-%d" % ln)
            attr = Struct("Dwarf_Attribute", {})
            attr.code, attr.form, attr.valp, attr.cu = 0x1c, 0x0a, Sym.of("attr-valp"), Sym.of("cu")
            del seen[:]
            try:
                r = ev.call(f, None, [attr, enc])
            except (OutOfBounds, Thrown) as x:
                raise Broken("handle_encoding_block cannot be evaluated: %s" % x)
            if ln in want_form:
                ok = len(seen) == 1 and seen[0][0] == want_form[ln] and seen[0][1] is cur["data"] and seen[0][2] == enc and r is not None
                if not ok and bad is None:
                    got = ("decoded as form %#x from %s" % (seen[0][0], getattr(seen[0][1], "q", seen[0][1]))) if seen else "not decoded"
                    bad = "a block of %d byte(s) is %s; expected the %d-byte data form (%#x) read from the block's data" % (ln, got, ln, want_form[ln])
            else:
                if (seen or r is not None) and bad is None:
                    bad = "a block of %d bytes is decoded as an integer instead of being passed on as a block" % ln
    inst.append((key, {"block_lengths": 9}))
    if bad:
        findings.append({"key": key, "where": "libzwerg/" + f["l"], "msg": bad + ": the value comes out truncated or from the wrong bytes, without any diagnostic", "detail": None})
    return inst, findings


def m3(prog):
    """die_it_producer <child_iterator>::next - with import_partial_units, drop_finished_imports and get_it_range, i.e. the traversal
    behind `child` (and, instantiated for the other iterator, `entry`) - interpreted from source on an abstract forest with partial units
    imported first, in the middle, LAST among their siblings, nested, twice, and with an import that refers to a compile unit.  Cooked:
    the children come out in order with every DW_TAG_imported_unit replaced, recursively and in place, by the children of the unit it
    refers to; each DIE carries the chain of the import DIEs it was reached through (innermost first), each import DIE being the DIE
    that did the importing; results are numbered from 0.  Raw: the stored children, imports listed as themselves, no chain.  The
    iterator's operator* hands out a pointer into the iterator, which moves on when the iterator is bumped; reading through it after
    the iterator has reached its end is a memory error."""
    from cxxobj import CxxEvaluator, Obj, Struct, Sym, Vec, OutOfBounds
    from absint import Thrown
    inst, findings = [], []
    cls = [c for c in prog.records if c.startswith("(anonymous namespace)::die_it_producer<") and "child_iterator" in c]
    if len(cls) != 1:
        raise Broken("anchor die_it_producer <child_iterator> vanished (%d instantiations)" % len(cls))
    cls = cls[0]
    nxt = [f for f in prog.funcs.values() if f.get("cls") == cls and f["n"] == "next" and f.get("body") is not None]
    if len(nxt) != 1:
        raise Broken("anchor die_it_producer <child_iterator>::next vanished")
    dn = {c["n"]: ("enum", c["n"], c["v"]) for e in prog.enums.values() if e["q"] == "doneness" for c in e["consts"]}
    T, A = {}, {}
    for e in prog.enums.values():
        if e["file"] == "/usr/include/dwarf.h":
            for c in e["consts"]:
                if c["n"].startswith("DW_TAG_"):
                    T[c["n"][7:]] = c["v"]
                elif c["n"].startswith("DW_AT_"):
                    A[c["n"][6:]] = c["v"]
    if set(dn) < {"raw", "cooked"} or "imported_unit" not in T or "import" not in A:
        raise Broken("enum doneness / DW_TAG / DW_AT constants vanished")

    class N:
        def __init__(self, name, tag, parent=None, target=None):
            self.name, self.tag, self.children, self.target, self.parent = name, T[tag], [], target, parent
            self.addr = id(self)
            if parent is not None:
                parent.children.append(self)

        def __repr__(self):
            return self.name

    class CIt:
        """child_iterator: a position among the children of one DIE; at_end = the end() sentinel"""
        def __init__(self, node, pos):
            self.node, self.pos = node, pos
            self.addr = id(self)

        def at_end(self):
            return self.node is None or self.pos >= len(self.node.children)

        def copy_value(self):
            return CIt(self.node, self.pos)

        def assign_from(self, o):
            self.node, self.pos = o.node, o.pos

    class DiePtr:
        """the Dwarf_Die * operator* hands out: it points INTO the iterator"""
        is_pointer_model = True

        def __init__(self, it):
            self.it = it
            self.addr = id(it)

        def cur(self):
            if self.it.at_end():
                raise OutOfBounds("a Dwarf_Die is read through a pointer into an iterator that has since been moved to its end (the import DIE was the last child)")
            return self.it.node.children[self.it.pos]

        def load(self):
            return mkdie(self.cur())

        def copy_value(self):
            return self

    def mkdie(n):
        d = Struct("Dwarf_Die", {})
        d.cu, d.node = Sym.of("cu"), n
        return d

    def node_of(x):
        if isinstance(x, DiePtr):
            return x.cur()
        return getattr(x, "node", None)

    def inc(ev, o, a):
        if a:
            old = o.copy_value()
            o.pos += 1
            return old
        o.pos += 1
        return o

    def attr(ev, o, a):
        n, code, mem = node_of(a[0]), int(a[1][2] if isinstance(a[1], tuple) else a[1]), a[2]
        if code == A["import"] and n.target is not None:
            mem.target = n.target
            return mem
        return None

    def formref(ev, o, a):
        at, mem = a
        if getattr(at, "target", None) is None:
            return None
        mem.cu, mem.node = Sym.of("cu"), at.target
        return mem
    hooks = {
        "ctor:child_iterator": lambda ev, o, a: (a[0].copy_value() if isinstance(a[0], CIt) else CIt(node_of(a[0]), 0)) if a else CIt(None, 0),
        "child_iterator::end": lambda ev, o, a: CIt(None, 0),
        "child_iterator::operator!=": lambda ev, o, a: not ((o.at_end() and a[0].at_end()) or (o.node is a[0].node and o.pos == a[0].pos)),
        "child_iterator::operator==": lambda ev, o, a: (o.at_end() and a[0].at_end()) or (o.node is a[0].node and o.pos == a[0].pos),
        "child_iterator::operator++": inc,
        "child_iterator::operator*": lambda ev, o, a: DiePtr(o),
        "dwarf_tag": lambda ev, o, a: node_of(a[0]).tag,
        "dwarf_hasattr": lambda ev, o, a: 1 if (int(a[1][2] if isinstance(a[1], tuple) else a[1]) == A["import"] and node_of(a[0]).target is not None) else 0,
        "dwarf_attr": attr,
        "dwarf_formref_die": formref,
        "dwarf_cu_getdwarf": lambda ev, o, a: Sym.of("dwarf"),
        "throw_libdw": lambda ev, o, a: (_ for _ in ()).throw(Thrown("libdw error")),
    }
    ev = CxxEvaluator(hooks, {}, prog=prog)
    DWCTX = Sym.of("dwctx")
    #  CU R { a ; i1 -> P1 ; b { i4 -> P2 (last child) } ; i5 -> C2 (a compile unit) ; i6 -> P1 (again, and last) }
    #  P1 { x ; i2 -> P2 ; y { z } ; i3 -> P3 (last) }     P2 { p }      P3 { q ; r }      C2 { c }
    R = N("R", "compile_unit")
    P1, P2, P3, C2 = N("P1", "partial_unit"), N("P2", "partial_unit"), N("P3", "partial_unit"), N("C2", "compile_unit")
    N("p", "variable", P2)
    N("q", "variable", P3), N("r", "variable", P3)
    N("c", "variable", C2)
    N("x", "variable", P1)
    N("i2", "imported_unit", P1, P2)
    y = N("y", "structure_type", P1)
    N("z", "member", y)
    N("i3", "imported_unit", P1, P3)
    N("a", "variable", R)
    N("i1", "imported_unit", R, P1)
    b = N("b", "namespace", R)
    N("i4", "imported_unit", b, P2)
    N("i5", "imported_unit", R, C2)
    N("i6", "imported_unit", R, P1)
    E0 = N("E0", "compile_unit")          # a unit that consists of one import
    N("j", "imported_unit", E0, P3)
    lone = N("lone", "compile_unit")      # no children at all

    def expected(n, cooked, chain=()):
        out = []
        for c in n.children:
            if cooked and c.tag == T["imported_unit"] and c.target is not None:
                out += expected(c.target, True, (c.name,) + chain)
            else:
                out.append((c.name, list(chain) if cooked else []))
        return out

    def chain_of(v):
        out = []
        while v is not None:
            out.append(getattr(getattr(v.m_die, "node", None), "name", "?"))
            v = v.m_import
        return out
    ctor = [c for c in prog.funcs.values() if c.get("cls") == cls and c.get("isctor") and len(c["params"]) == 3]
    if len(ctor) != 1:
        raise Broken("anchor die_it_producer constructor vanished")
    n_run = 0
    for mode in ("cooked", "raw"):
        key = "M3:child:" + mode
        bad = None
        for start in (R, P1, b, y, E0, lone):
            try:
                ev.steps = 0
                p = ev.construct(ctor[0], Obj(cls), [DWCTX, mkdie(start), dn[mode]])
                got = []
                for _ in range(40):
                    v = ev.call(nxt[0], p, [])
                    if v is None:
                        break
                    got.append((getattr(getattr(v.m_die, "node", None), "name", "?"), chain_of(v.m_import), v.m_pos))
                else:
                    bad = bad or "`child` of %s in %s mode does not end" % (start, mode)
                    continue
                again = ev.call(nxt[0], p, [])
                n_run += 1
            except OutOfBounds as x:
                bad = bad or "`child` of %s in %s mode: %s (memory error)" % (start, mode, x)
                continue
            except Thrown as x:
                bad = bad or "`child` of %s in %s mode raises an error (%s)" % (start, mode, x)
                continue
            want = expected(start, mode == "cooked")
            if ([(g[0], g[1]) for g in got] != want or [g[2] for g in got] != list(range(len(got))) or again is not None) and bad is None:
                bad = "`child` of %s in %s mode yields %s numbered %s; expected %s numbered from 0 (name, import chain innermost first)%s" % (
                    start, mode, [(g[0], g[1]) for g in got], [g[2] for g in got], want, "" if again is None else "; and it yields again after it was exhausted")
        inst.append((key, {"start_DIEs": 6}))
        if bad:
            findings.append({"key": key, "where": "libzwerg/" + nxt[0]["l"], "msg": bad, "detail": None})
    if n_run < 8:
        raise Broken("only %d traversals evaluated (floor 8)" % n_run)
    return inst, findings


def f9(prog):
    """fix_dwarf_formsdata interpreted from source with typed integers: libdw hands back the datum of a fixed-width form zero-extended
    (the elfutils behaviour the function compensates) or already sign-extended (newer elfutils); in both cases the result must be the
    datum read as a two's-complement number of the form's own width - 1, 2, 4 or 8 bytes - at every boundary value."""
    from cxxobj import CxxEvaluator, Struct, VarPtr, OutOfBounds
    from absint import Thrown
    inst, findings = [], []
    f = prog.func_opt("(anonymous namespace)::fix_dwarf_formsdata")
    if f is None or f.get("body") is None:
        raise Broken("anchor fix_dwarf_formsdata vanished")
    forms = {}
    for e in prog.enums.values():
        if e["file"] == "/usr/include/dwarf.h":
            for c in e["consts"]:
                if c["n"] in ("DW_FORM_data1", "DW_FORM_data2", "DW_FORM_data4", "DW_FORM_data8", "DW_FORM_sdata"):
                    forms[c["n"]] = c["v"]
    if len(forms) != 5:
        raise Broken("DW_FORM constants vanished")
    cur = {}

    def formsdata(ev, o, a):
        a[1].store(cur["raw"])
        return 0
    ev = CxxEvaluator({"dwarf_formsdata": formsdata}, {}, prog=prog)
    key = "F9:fix_dwarf_formsdata"
    bad = None
    n = 0
    try:
        for name, bits in (("DW_FORM_data1", 8), ("DW_FORM_data2", 16), ("DW_FORM_data4", 32), ("DW_FORM_data8", 64), ("DW_FORM_sdata", 64)):
            full = (1 << bits) - 1
            for u in sorted({0, 1, 0x7f, 0x80, 0xff, 0x100, 0x3e8, 0x7fff, 0x8000, 0xfffe, 0xffff, 0x12345, 0x7fffffff, 0x80000000, 0xffffffff, full, full >> 1, (full >> 1) + 1}):
                if u > full:
                    continue
                want = u - (1 << bits) if u >> (bits - 1) else u
                for raw in {u, want}:                      # zero-extended by libdw, or already sign-extended
                    raw64 = raw if raw < (1 << 63) else raw - (1 << 64)
                    cur["raw"] = raw64
                    attr = Struct("Dwarf_Attribute", {"form": forms[name], "code": 0x1c, "valp": 1, "cu": None})
                    box = Struct("box", {"v": None})
                    ev.steps = 0
                    rc = ev.call(f, None, [attr, VarPtr(lambda: box.v, lambda v: setattr(box, "v", v), "sval")])
                    n += 1
                    got = box.v
                    if got is not None:
                        got = int(got)
                        if got >= 1 << 63:
                            got -= 1 << 64
                    if (rc != 0 or got != want) and bad is None:
                        bad = "a %s datum with the bytes %#x (libdw hands back %d) is read as %s; as a %d-bit two's-complement number it is %d" % (name, u, raw64, got, bits, want)
    except (OutOfBounds, Thrown) as x:
        raise Broken("fix_dwarf_formsdata cannot be evaluated: %s" % x)
    inst.append((key, {"evaluations": n}))
    if n < 40:
        raise Broken("only %d evaluations of fix_dwarf_formsdata (floor 40)" % n)
    if bad:
        findings.append({"key": key, "where": "libzwerg/" + f["l"], "msg": bad, "detail": None})
    return inst, findings
