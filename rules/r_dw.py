"""DWARF-side rules: I1 import-chain propagation (C05), G1 single integration predicate and V2 family
agreement (C06), F1/F3/E1 attribute decoding (C07), W2 ELF macro/domain pairing (C18)."""
from zw import walk, walk_nolambda, unwrap, short, Broken, calls
from cfg import CFG

ORIGIN_FUNCS = {"dwpp_cudie": "root of a unit", "dwpp_formref_die": "reference followed",
                "dwarf_formref_die": "reference followed", "dwarf_getlocation_die": "reference from a location operation",
                "dwarf_cu_die": "root of a unit"}
SAME_UNIT_FUNCS = {"dwarf_offdie": "DIE addressed by an offset computed from the current DIE (parent lookup)",
                   "dwarf_child": "child", "dwarf_siblingof": "sibling"}
I1_EXEMPT = {
    "op_cooked_die::operate": "`cooked` applied to a DIE re-labels it; the navigation laws of C05 relate DIEs reached by navigation words, and root/parent stay mutually consistent for an import-less cooked DIE",
}


def _die_provenance(prog, f, e, depth=0):
    """('origin'|'same-unit'|'unknown', why) for the Dwarf_Die expression e inside function f"""
    u = unwrap(e)
    if not isinstance(u, dict):
        return ("unknown", "not an expression")
    if u.get("k") == "un" and u.get("op") == "*":
        return _die_provenance(prog, f, u["e"], depth)
    if u.get("k") == "call":
        fn = u.get("fn")
        if fn in ORIGIN_FUNCS:
            return ("origin", ORIGIN_FUNCS[fn])
        if fn == "get_die" and u.get("cls") in ("value_die",):
            return ("same-unit", "re-wraps the DIE of an existing value_die (%s)" % short(u.get("obj")))
        if fn in ("operator*", "operator->") and u.get("cls") in ("all_dies_iterator", "child_iterator", "sibling_iterator"):
            return ("same-unit", "DIE reached by iterating children/DIEs of the unit (%s)" % u["cls"])
        return ("unknown", "call to %s" % (u.get("f") or fn))
    if u.get("k") == "ref" and u.get("d") in ("local", "param"):
        vid = u["id"]
        # declared with an initialiser?
        for x in walk(f.get("body")):
            if x.get("k") == "decl":
                for v in x["vars"]:
                    if v["id"] == vid and v.get("init") is not None:
                        i = unwrap(v["init"])
                        if isinstance(i, dict) and i.get("k") == "ctor" and not i["a"]:
                            continue
                        return _die_provenance(prog, f, v["init"], depth + 1)
        # filled through an out-parameter
        res = []
        for c in calls(f.get("body")):
            for idx, a in enumerate(c.get("a", [])):
                ua = unwrap(a)
                byaddr = isinstance(ua, dict) and ua.get("k") == "un" and ua.get("op") == "&" and \
                    isinstance(unwrap(ua["e"]), dict) and unwrap(ua["e"]).get("id") == vid
                byref = isinstance(ua, dict) and ua.get("k") == "ref" and ua.get("id") == vid
                if not (byaddr or byref):
                    continue
                fn = c.get("fn")
                if fn in ORIGIN_FUNCS:
                    res.append(("origin", ORIGIN_FUNCS[fn]))
                elif fn in SAME_UNIT_FUNCS:
                    res.append(("same-unit", SAME_UNIT_FUNCS[fn]))
                elif c.get("own") and byref and depth < 3:
                    callee = prog.funcs.get(c.get("fid"))
                    if callee and idx < len(callee["params"]) and "Dwarf_Die &" in callee["params"][idx]["t"] and \
                       "const" not in callee["params"][idx]["t"]:
                        pref = {"k": "ref", "d": "param", "id": callee["params"][idx]["id"], "n": callee["params"][idx]["n"]}
                        res.append(_die_provenance(prog, callee, pref, depth + 1))
        if u.get("d") == "param" and not res:
            return ("unknown", "parameter %s" % u["n"])
        kinds = {r[0] for r in res}
        if kinds == {"origin"}:
            return res[0]
        if "same-unit" in kinds:
            return [r for r in res if r[0] == "same-unit"][0]
        return ("unknown", "variable %s" % u["n"])
    if u.get("k") == "mem":
        return ("unknown", "member %s" % u["n"])
    return ("unknown", u.get("k"))


def i1(prog):
    inst, findings = [], []
    sites = []
    for f in prog.funcs.values():
        if f["q"].startswith("std::") or f.get("cls", "").startswith("value_die"):
            continue
        for x in walk(f.get("body")):
            args = None
            if x.get("k") == "ctor" and x.get("c") == "value_die" and not x.get("cm"):
                args = x["a"]
            elif x.get("k") == "call" and x.get("f", "").startswith(("std::make_unique<value_die", "std::make_shared<value_die")):
                args = x["a"]
                if len(args) == 1:
                    continue    # copy
            if args is None or len(args) not in (4, 5):
                continue
            sites.append((f, x, args))
    if len(sites) < 12:
        raise Broken("only %d value_die construction sites found (floor 12)" % len(sites))
    seen = set()
    for f, x, args in sites:
        base = f["q"].split("<")[0]
        key = "I1:%s@%s" % (base, x["l"])
        if key in seen:
            continue
        seen.add(key)
        if len(args) == 5:
            die_e, don_e, imp_e = args[2], args[4], args[1]
        else:
            die_e, don_e, imp_e = args[1], args[3], None
        du = unwrap(don_e)
        raw_literal = isinstance(du, dict) and du.get("d") == "enum" and du.get("n") == "raw"
        prov = _die_provenance(prog, f, die_e)
        info = {"args": len(args), "die": short(die_e)[:40], "provenance": prov[0], "why": prov[1], "doneness": short(don_e)}
        inst.append((key, info))
        if len(args) == 5:
            iu = unwrap(imp_e)
            if isinstance(iu, dict) and iu.get("k") == "null" and not raw_literal and prov[0] == "same-unit":
                findings.append({"key": key, "where": x["l"], "msg": "%s builds a DIE value from a same-unit move with a null import chain" % f["q"], "detail": info})
            continue
        if raw_literal or prov[0] == "origin":
            continue
        if base in I1_EXEMPT:
            info["exempt"] = I1_EXEMPT[base]
            continue
        if prov[0] == "unknown":
            raise Broken("cannot determine the provenance of the DIE passed to value_die at %s in %s (%s)" % (x["l"], f["q"], prov[1]))
        findings.append({"key": "I1:%s" % base, "where": x["l"],
                         "msg": "%s wraps a DIE obtained by moving inside the unit (%s) in a value_die WITHOUT the import chain of the DIE it came from: for a cooked DIE inside an imported partial unit, `parent`/`root` lose the importing unit" % (f["q"], prov[1]),
                         "detail": info})
    return inst, findings


# ---------------------------------------------------------------------------
# G1: one exclusion predicate for attribute integration

def g1(prog):
    from r_scope import switch_groups
    inst, findings = [], []
    pred = prog.func_opt("(anonymous namespace)::attr_should_be_integrated")
    if pred is None:
        raise Broken("anchor attr_should_be_integrated vanished")
    sw = [x for x in walk(pred["body"]) if x.get("k") == "switch"]
    if len(sw) != 1:
        raise Broken("attr_should_be_integrated is no longer one switch (unmodelled shape)")
    excluded = set()
    default_true = None
    for labels, stmts in switch_groups(sw[0]):
        rets = [x for s in stmts for x in walk(s) if x.get("k") == "return"]
        val = unwrap(rets[0]["e"]).get("v") if rets and isinstance(unwrap(rets[0]["e"]), dict) else None
        for l in labels:
            if l == "default":
                default_true = val
            elif val is False:
                excluded.add(unwrap(l).get("n") or unwrap(l).get("q"))
    key = "G1:attr_should_be_integrated"
    inst.append((key, {"excluded": sorted(excluded), "default_integrates": default_true}))
    if excluded != {"DW_AT_sibling", "DW_AT_declaration"} or default_true is not True:
        findings.append({"key": key, "where": pred["l"],
                         "msg": "the integration predicate excludes %s (documented: DW_AT_sibling and DW_AT_declaration only) / default integrates=%s" % (sorted(excluded), default_true),
                         "detail": None})
    users = []
    for f in prog.funcs.values():
        if not prog.rel(f["file"]).startswith("libzwerg/") or "test-" in f["file"]:
            continue
        if f is pred:
            continue
        from cfg import contains_assert
        refs = []
        body = f.get("body")
        if body is None:
            continue

        def rec(n):
            if isinstance(n, list):
                for x in n:
                    rec(x)
                return
            if not isinstance(n, dict):
                return
            if n.get("k") in ("cond", "call") and contains_assert(n):
                return
            if n.get("k") == "ref" and n.get("d") == "enum" and n.get("n") in ("DW_AT_specification", "DW_AT_abstract_origin"):
                if not any(m.startswith(("DWARF_ONE_KNOWN", "DWARF_ALL_KNOWN")) for m in (n.get("macs") or [])):
                    refs.append(n)       # (references expanded from the constant-name tables are not navigation)
            for v in n.values():
                if isinstance(v, (dict, list)):
                    rec(v)
        rec(body)
        if not refs:
            continue
        uses = any(c.get("fn") == "attr_should_be_integrated" for c in calls(body))
        key = "G1:" + f["q"]
        users.append(f["q"])
        inst.append((key, {"consults_predicate": uses}))
        if not uses:
            findings.append({"key": key, "where": f["l"],
                             "msg": "%s follows DW_AT_specification/DW_AT_abstract_origin but does not consult attr_should_be_integrated: `attribute` and `@AT_x`/`?AT_x` would integrate different attribute sets" % f["q"],
                             "detail": None})
    if len(users) < 2:
        raise Broken("fewer functions following specification/abstract_origin than confirmed by hand (2)")
    return inst, findings


# ---------------------------------------------------------------------------
# V2: family agreement (sugar words, label/form producers and named constants share code and domain)

FAMILY_SOURCES = {
    "dwarf_tag": "TAG", "dwarf_getabbrevtag": "TAG",
    "dwarf_whatattr": "AT", "dwarf_whatform": "FORM",
}
FAMILY_FIELDS = {("(anonymous)", "atom"): "OP", ("Dwarf_Op", "atom"): "OP", ("value_abbrev_attr", "name"): "AT", ("value_abbrev_attr", "form"): "FORM"}


def _value_family(f, e, depth=0):
    u = unwrap(e)
    if not isinstance(u, dict) or depth > 3:
        return None
    if u.get("k") == "cast":
        return _value_family(f, u.get("e"), depth + 1)
    if u.get("k") == "call" and u.get("fn") in FAMILY_SOURCES:
        return FAMILY_SOURCES[u["fn"]]
    if u.get("k") == "mem" and (u.get("c"), u["n"]) in FAMILY_FIELDS:
        return FAMILY_FIELDS[(u.get("c"), u["n"])]
    if u.get("k") == "ref" and u.get("d") == "local":
        for x in walk(f.get("body")):
            if x.get("k") == "decl":
                for v in x["vars"]:
                    if v["id"] == u["id"] and v.get("init") is not None:
                        return _value_family(f, v["init"], depth + 1)
    return None


def v2(prog):
    from r_tables import expand_calls, dom_of
    inst, findings = [], []
    # (1) the domain registered for each family's named constants, from the add_dw_* lambdas
    voc = [f for f in prog.funcs.values() if f["n"] == "dwgrep_vocabulary_dw" or f["q"].endswith("dwgrep_vocabulary_dw")]
    if len(voc) != 1:
        raise Broken("anchor dwgrep_vocabulary_dw vanished")
    voc = voc[0]
    fam_dom = {}
    fam_lambda = {}
    for x in walk(voc["body"]):
        if x.get("k") == "decl":
            for v in x["vars"]:
                i = unwrap(v.get("init"))
                if isinstance(i, dict) and i.get("k") == "lambda" and v["n"].startswith("add_dw_"):
                    fam = {"add_dw_at": "AT", "add_dw_tag": "TAG", "add_dw_form": "FORM", "add_dw_op": "OP"}.get(v["n"])
                    if fam:
                        fam_lambda[fam] = (v, i)
    if set(fam_lambda) != {"AT", "TAG", "FORM", "OP"}:
        raise Broken("registration lambdas add_dw_at/tag/form/op not all found (unmodelled shape): %s" % sorted(fam_lambda))
    for fam, (v, lam) in sorted(fam_lambda.items()):
        code = lam["params"][0]
        doms = set()
        problems = []
        for c in calls(lam["body"], lambdas=False):
            if c.get("fn") == "add_builtin_constant":
                k = unwrap(c["a"][1])
                a0 = unwrap(k["a"][0])
                d = dom_of(k["a"][1])
                doms.add(d[0] if d else None)
                if not (isinstance(a0, dict) and a0.get("k") == "ref" and a0.get("id") == code["id"]):
                    problems.append("named constant of family %s is not built from the lambda's `%s` parameter at %s" % (fam, code["n"], c["l"]))
            if c.get("fn") in ("add_pred_overload", "add_op_overload"):
                for a in c["a"]:
                    ua = unwrap(a)
                    if not (isinstance(ua, dict) and ua.get("k") == "ref" and ua.get("id") == code["id"]):
                        problems.append("%s<%s> in family %s is not built from `%s` at %s" % (c["fn"], (c.get("targs") or ["?"])[0], fam, code["n"], c["l"]))
        if len(doms) != 1:
            raise Broken("family %s registers constants in %d domains" % (fam, len(doms)))
        fam_dom[fam] = doms.pop()
        inst.append(("V2:lambda:" + fam, {"domain": fam_dom[fam], "code_param": code["n"]}))
        for p in problems:
            findings.append({"key": "V2:lambda:" + fam, "where": v["l"], "msg": p, "detail": None})
        # predicate classes on constants registered in this lambda: their m_const domain
        for c in calls(lam["body"], lambdas=False):
            if c.get("fn") == "add_pred_overload" and c.get("targs"):
                cls = c["targs"][0]
                for g in prog.funcs.values():
                    if g.get("cls") == cls and g.get("isctor"):
                        for i in g.get("inits", []):
                            if i.get("field") == "m_const":
                                for y in walk(i["init"]):
                                    d = dom_of(y) if y.get("k") == "un" else None
                                    if d:
                                        key = "V2:%s::m_const" % cls
                                        inst.append((key, {"domain": d[0], "family": fam}))
                                        if d[0] != fam_dom[fam]:
                                            findings.append({"key": key, "where": g["l"],
                                                             "msg": "%s (registered as ?%s_x on constants) compares in domain %s but the family's named constants live in %s: `DW_%s_x ?%s_x` would never hold" % (cls, fam, d[0], fam_dom[fam], fam, fam),
                                                             "detail": None})
    # (2) every producer that builds a constant from a family's libdw source uses that family's domain
    n = 0
    for f in prog.funcs.values():
        if not prog.rel(f["file"]).startswith("libzwerg/builtin-dw"):
            continue
        for x in walk(f.get("body")):
            if x.get("k") in ("ctor", "ilist") and (x.get("c") == "constant" or x.get("t") == "constant") and len(x.get("a", [])) >= 2 and not x.get("cm"):
                fam = _value_family(f, x["a"][0])
                d = dom_of(x["a"][1])
                if fam is None or d is None:
                    continue
                n += 1
                key = "V2:%s@%s" % (f["q"], x.get("l", "?"))
                inst.append((key, {"family": fam, "domain": d[0]}))
                if d[0] != fam_dom[fam]:
                    findings.append({"key": "V2:%s" % f["q"], "where": x.get("l") or f["l"],
                                     "msg": "%s yields a %s code in domain %s, but ?%s_x / DW_%s_x use %s: `label == DW_%s_x` would be false for every value" % (f["q"], fam, d[0], fam, fam, fam_dom[fam], fam),
                                     "detail": None})
    if n < 6:
        raise Broken("only %d family-valued constant producers found (floor 6)" % n)
    return inst, findings
