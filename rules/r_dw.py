"""DWARF-side rules: I1 import-chain propagation (C05), G1 single integration predicate and V2 family
agreement (C06), F1/F3/E1 attribute decoding (C07), W2 ELF macro/domain pairing (C18)."""
from zw import walk, walk_nolambda, unwrap, short, Broken, calls
from cfg import CFG

ORIGIN_FUNCS = {"dwpp_cudie": "root of a unit", "dwpp_formref_die": "reference followed",
                "dwarf_formref_die": "reference followed", "dwarf_getlocation_die": "reference from a location operation",
                "dwarf_cu_die": "root of a unit"}
SAME_UNIT_FUNCS = {"dwarf_offdie": "DIE addressed by an offset computed from the current DIE (parent lookup)",
                   "dwarf_child": "child", "dwarf_siblingof": "sibling"}
I1_EXEMPT = {
    "op_cooked_die::operate": "`cooked` applied to a DIE re-labels it; the navigation laws of C05 relate DIEs reached by navigation words, and root/parent stay mutually consistent for an import-less cooked DIE",
}


def _die_provenance(prog, f, e, depth=0):
    """('origin'|'same-unit'|'unknown', why) for the Dwarf_Die expression e inside function f"""
    u = unwrap(e)
    if not isinstance(u, dict):
        return ("unknown", "not an expression")
    if u.get("k") == "un" and u.get("op") == "*":
        return _die_provenance(prog, f, u["e"], depth)
    if u.get("k") == "call":
        fn = u.get("fn")
        if fn in ORIGIN_FUNCS:
            return ("origin", ORIGIN_FUNCS[fn])
        if fn == "get_die" and u.get("cls") in ("value_die",):
            return ("same-unit", "re-wraps the DIE of an existing value_die (%s)" % short(u.get("obj")))
        if fn in ("operator*", "operator->") and u.get("cls") in ("all_dies_iterator", "child_iterator", "sibling_iterator"):
            return ("same-unit", "DIE reached by iterating children/DIEs of the unit (%s)" % u["cls"])
        return ("unknown", "call to %s" % (u.get("f") or fn))
    if u.get("k") == "ref" and u.get("d") in ("local", "param"):
        vid = u["id"]
        # declared with an initialiser?
        for x in walk(f.get("body")):
            if x.get("k") == "decl":
                for v in x["vars"]:
                    if v["id"] == vid and v.get("init") is not None:
                        i = unwrap(v["init"])
                        if isinstance(i, dict) and i.get("k") == "ctor" and not i["a"]:
                            continue
                        return _die_provenance(prog, f, v["init"], depth + 1)
        # filled through an out-parameter
        res = []
        for c in calls(f.get("body")):
            for idx, a in enumerate(c.get("a", [])):
                ua = unwrap(a)
                byaddr = isinstance(ua, dict) and ua.get("k") == "un" and ua.get("op") == "&" and \
                    isinstance(unwrap(ua["e"]), dict) and unwrap(ua["e"]).get("id") == vid
                byref = isinstance(ua, dict) and ua.get("k") == "ref" and ua.get("id") == vid
                if not (byaddr or byref):
                    continue
                fn = c.get("fn")
                if fn in ORIGIN_FUNCS:
                    res.append(("origin", ORIGIN_FUNCS[fn]))
                elif fn in SAME_UNIT_FUNCS:
                    res.append(("same-unit", SAME_UNIT_FUNCS[fn]))
                elif c.get("own") and byref and depth < 3:
                    callee = prog.funcs.get(c.get("fid"))
                    if callee and idx < len(callee["params"]) and "Dwarf_Die &" in callee["params"][idx]["t"] and \
                       "const" not in callee["params"][idx]["t"]:
                        pref = {"k": "ref", "d": "param", "id": callee["params"][idx]["id"], "n": callee["params"][idx]["n"]}
                        res.append(_die_provenance(prog, callee, pref, depth + 1))
        if u.get("d") == "param" and not res:
            return ("unknown", "parameter %s" % u["n"])
        kinds = {r[0] for r in res}
        if kinds == {"origin"}:
            return res[0]
        if "same-unit" in kinds:
            return [r for r in res if r[0] == "same-unit"][0]
        return ("unknown", "variable %s" % u["n"])
    if u.get("k") == "mem":
        return ("unknown", "member %s" % u["n"])
    return ("unknown", u.get("k"))


def i1(prog):
    inst, findings = [], []
    sites = []
    for f in prog.funcs.values():
        if f["q"].startswith("std::") or f.get("cls", "").startswith("value_die"):
            continue
        for x in walk(f.get("body")):
            args = None
            if x.get("k") == "ctor" and x.get("c") == "value_die" and not x.get("cm"):
                args = x["a"]
            elif x.get("k") == "call" and x.get("f", "").startswith(("std::make_unique<value_die", "std::make_shared<value_die")):
                args = x["a"]
                if len(args) == 1:
                    continue    # copy
            if args is None or len(args) not in (4, 5):
                continue
            sites.append((f, x, args))
    if len(sites) < 12:
        raise Broken("only %d value_die construction sites found (floor 12)" % len(sites))
    seen = set()
    for f, x, args in sites:
        base = f["q"].split("<")[0]
        key = "I1:%s@%s" % (base, x["l"])
        if key in seen:
            continue
        seen.add(key)
        if len(args) == 5:
            die_e, don_e, imp_e = args[2], args[4], args[1]
        else:
            die_e, don_e, imp_e = args[1], args[3], None
        du = unwrap(don_e)
        raw_literal = isinstance(du, dict) and du.get("d") == "enum" and du.get("n") == "raw"
        prov = _die_provenance(prog, f, die_e)
        info = {"args": len(args), "die": short(die_e)[:40], "provenance": prov[0], "why": prov[1], "doneness": short(don_e)}
        inst.append((key, info))
        if len(args) == 5:
            iu = unwrap(imp_e)
            if isinstance(iu, dict) and iu.get("k") == "null" and not raw_literal and prov[0] == "same-unit":
                findings.append({"key": key, "where": x["l"], "msg": "%s builds a DIE value from a same-unit move with a null import chain" % f["q"], "detail": info})
            continue
        if raw_literal or prov[0] == "origin":
            continue
        if base in I1_EXEMPT:
            info["exempt"] = I1_EXEMPT[base]
            continue
        if prov[0] == "unknown":
            raise Broken("cannot determine the provenance of the DIE passed to value_die at %s in %s (%s)" % (x["l"], f["q"], prov[1]))
        findings.append({"key": "I1:%s" % base, "where": x["l"],
                         "msg": "%s wraps a DIE obtained by moving inside the unit (%s) in a value_die WITHOUT the import chain of the DIE it came from: for a cooked DIE inside an imported partial unit, `parent`/`root` lose the importing unit" % (f["q"], prov[1]),
                         "detail": info})
    return inst, findings
