"""Stream-protocol rules shared by C01 and C10 (DESIGN.md section 5):
R1 no exhaustion latch, R5/T1 accumulator reset, T2 work-list guard."""
import os
from zw import (walk, walk_nolambda, unwrap, short, is_null_stack_expr, Broken,
                field_chain)
from inline import Inliner

OP_NEXT = "op::next(scon &)const"
STR_NEXT = "stringer::next(scon &)const"

# classes that are *sources* of a chain: their `next` hands out what was fed.
ORIGINS = {"op_origin": "feed point of a sub-chain (set_next)",
           "stringer_origin": "feed point of a stringer chain (set_next)"}

# Upstream of a class = field m_upstream (own or inherited) unless listed here.
UPSTREAM_TABLE = {
    # class: (kind, name, reason)
    "op_merge": ("field-elem", "m_ops", "branch chains end in tines which pull op_merge's upstream"),
    "op_tine": ("call", "op_merge::get_upstream", "tines pull the merge's upstream on behalf of all branches"),
}
DEFAULT_UPSTREAM = "m_upstream"

# Null returns that are not latches although they are decided from state: (function, configuration condition, value) -> reason
R1_EXEMPT_PATHS = {
    # (function, configuration field): paths that are only feasible when the field is non-zero
    ("op_tine::next", "m_branch_id"):
        "a tine that is not the first branch never pulls: when all shared copies are consumed it reports the current input as "
        "done, the merge wraps around to the first branch and that one pulls (rule R6); nothing is remembered",
}


def _path_needs_nonzero(fq, assign, cond_asts):
    """does some configuration condition taken on this path hold only when an exempt field is non-zero"""
    from r_cli import eval_with
    for (fn, fld), _ in R1_EXEMPT_PATHS.items():
        if fn != fq:
            continue
        for key, val in assign:
            ast = cond_asts.get(key)
            if ast is None or not any(y.get("k") == "mem" and y.get("n") == fld for y in walk_nolambda(ast)):
                continue

            def subst(e, v):
                if isinstance(e, dict):
                    if e.get("k") == "mem" and e.get("n") == fld and "fid" not in e:
                        return {"k": "int", "v": v}
                    return {k: subst(x, v) for k, x in e.items()}
                if isinstance(e, list):
                    return [subst(x, v) for x in e]
                return e
            v0 = eval_with(subst(ast, 0), -1, 0)
            v1 = eval_with(subst(ast, 1), -1, 0)
            if v0 is not None and v1 is not None and bool(v0) != bool(val) and bool(v1) == bool(val):
                return True
    return False


def state_types(prog):
    st = set()
    for f in prog.funcs.values():
        for c in walk(f.get("body")):
            if c.get("k") == "call" and c.get("f", "").startswith("layout::reserve<") and c.get("targs"):
                st.add(c["targs"][0])
        for i in f.get("inits", []):
            for c in walk(i.get("init")):
                if c.get("k") == "call" and c.get("f", "").startswith("layout::reserve<") and c.get("targs"):
                    st.add(c["targs"][0])
    for q in prog.records:
        if q.endswith("::state") or q.endswith("::substate"):
            st.add(q)
    return st


def next_overrides(prog):
    return prog.overrides_of(OP_NEXT) + prog.overrides_of(STR_NEXT)


def base_class(q):
    return q


def is_next_call(c):
    return c.get("k") == "call" and c.get("fn") == "next" and \
        c.get("fid", "").endswith(("::next(scon &)const",))


def is_pull(prog, cls, c):
    """is call node c an upstream pull of class cls"""
    if not is_next_call(c):
        return False
    row = None
    for k in [cls] + prog.bases(cls):
        if k in UPSTREAM_TABLE:
            row = UPSTREAM_TABLE[k]
            break
    obj = unwrap(c.get("obj"))
    if row is None:
        return isinstance(obj, dict) and obj.get("k") == "mem" and obj["n"] == DEFAULT_UPSTREAM \
            and isinstance(unwrap(obj.get("b")), dict) and unwrap(obj["b"]).get("k") == "this"
    kind, name, _ = row
    if kind == "field-elem":
        ch = field_chain(obj)
        return ch is not None and ch[0] == "this" and ch[1][:1] == [name]
    if kind == "call":
        return isinstance(obj, dict) and obj.get("k") == "call" and obj.get("f") == name
    return False


def node_has_pull(prog, cls, n):
    if not isinstance(n.ast, dict):
        return False
    for c in walk_nolambda(n.ast):
        if is_pull(prog, cls, c):
            return True
    return False


def written_fields(prog, cls):
    """fields of cls assigned or incremented in a non-constructor method"""
    out = set()
    for f in prog.funcs.values():
        if f.get("cls") != cls or f.get("isctor"):
            continue
        for x in walk(f.get("body")):
            tgt = None
            if x.get("k") == "asg":
                tgt = x["lhs"]
            elif x.get("k") == "un" and x.get("op") in ("++", "--"):
                tgt = x["e"]
            if tgt is not None:
                ch = field_chain(tgt)
                if ch and ch[0] == "this" and ch[1]:
                    out.add(ch[1][0])
    return out


class AtomClass:
    def __init__(self, prog, cls, stypes):
        self.prog = prog
        self.cls = cls
        self.stypes = stypes
        self.opclasses = set([cls] + prog.bases(cls))
        self.written = set()
        for c in self.opclasses:
            self.written |= written_fields(prog, c)

    def reads_state(self, e):
        if not isinstance(e, dict):
            return False
        for x in walk_nolambda(e):
            if x.get("k") == "mem" and x.get("c") in self.stypes:
                return True
            if x.get("k") == "ref" and x.get("d") in ("local", "param"):
                t = x.get("t", "").replace("const ", "").rstrip("&* ").strip()
                if t in self.stypes:
                    # a bare reference to the state object (passed on to something we do not see)
                    return True
            if x.get("k") == "rfor-more":
                return self.reads_state(x.get("range"))
        return False

    def config_key(self, e):
        """a stable key if the atom reads only configuration of the op object, else None"""
        if not isinstance(e, dict):
            return None
        ok = [True]

        def rec(x):
            if not ok[0] or not isinstance(x, dict):
                return
            k = x.get("k")
            if k in ("int", "bool", "chr", "null", "this"):
                return
            if k == "mem":
                b = unwrap(x.get("b"))
                if isinstance(b, dict) and b.get("k") == "this" and x.get("c") in self.opclasses \
                   and x["n"] not in self.written and "fid" not in x:
                    return
                ok[0] = False
                return
            if k == "call":
                if x.get("fn") in ("size", "empty", "operator bool", "begin", "end", "cbegin", "cend") \
                   and not x.get("own"):
                    if x.get("obj") is not None:
                        rec(unwrap(x["obj"]))
                    for a in x.get("a", []):
                        rec(unwrap(a))
                    return
                if x.get("op") in ("==", "!=", "<", ">", "<=", ">=") and not x.get("own"):
                    for a in x.get("a", []):
                        rec(unwrap(a))
                    return
                ok[0] = False
                return
            if k in ("bin",):
                rec(unwrap(x["lhs"]))
                rec(unwrap(x["rhs"]))
                return
            if k == "un":
                rec(unwrap(x["e"]))
                return
            if k == "ctor" and x.get("cm") and len(x["a"]) == 1:
                rec(unwrap(x["a"][0]))
                return
            ok[0] = False
        rec(unwrap(e))
        return short(e) if ok[0] else None


def make_inliner(prog, cls, stypes):
    fam = set([cls] + prog.bases(cls))

    def want(call, caller):
        if not call.get("own") or call.get("virt"):
            return None
        if call.get("fn") in ("next", "state_con", "state_des", "name"):
            return None
        ccls = call.get("cls")
        if not ccls:
            return None
        if not (ccls in fam or (ccls in stypes and ccls.startswith(cls.split("<")[0]))):
            return None
        callee = prog.funcs.get(call.get("fid"))
        if callee is None or callee.get("body") is None:
            return None
        return callee
    return Inliner(prog, want)


def r1(prog):
    """returns (instances, findings, samples).  instance = one `next` override"""
    stypes = state_types(prog)
    inst, findings, samples = [], [], []
    for f in next_overrides(prog):
        cls = f["cls"]
        name = cls.split("::")[-1]
        if any((o in ORIGINS) for o in [cls] + prog.bases(cls)):
            inst.append((f["fid"], "origin (source, exempt): " + ORIGINS.get(cls, "derived origin")))
            continue
        inl = make_inliner(prog, cls, stypes)
        g = inl.build(f)
        ac = AtomClass(prog, cls, stypes)
        npulls = sum(1 for n in g.nodes if node_has_pull(prog, cls, n))
        null_rets = [n for n in g.nodes if n.kind == "ret" and is_null_stack_expr(n.ast)]
        # search: entry -> null return avoiding pull nodes
        cond_asts = {}
        start = (g.entry.id, frozenset(), False)
        seen = {start}
        stack = [(start, [])]
        bad = None
        config_only = 0
        while stack and bad is None:
            (nid, assign, sflag), path = stack.pop()
            n = g.nodes[nid]
            if nid != g.entry.id and node_has_pull(prog, cls, n):
                continue
            if n.kind == "ret":
                if is_null_stack_expr(n.ast):
                    if _path_needs_nonzero(f["q"], assign, cond_asts):
                        config_only += 1
                        continue
                    if sflag:
                        bad = path + [(n, None)]
                        break
                    config_only += 1
                continue
            ckey = None
            reads = False
            if n.kind in ("cond", "switch"):
                ckey = ac.config_key(n.ast)
                if ckey is not None:
                    cond_asts[ckey] = n.ast
                reads = ac.reads_state(n.ast) if ckey is None else False
            for t, lab in n.succs:
                a2, s2 = assign, sflag
                if n.kind == "cond" and lab in (True, False):
                    if ckey is not None:
                        d = dict(assign)
                        if ckey in d and d[ckey] != lab:
                            continue
                        d[ckey] = lab
                        a2 = frozenset(d.items())
                    elif reads:
                        s2 = True
                elif n.kind == "switch" and reads:
                    s2 = True
                elif isinstance(lab, tuple) and lab[0] == "ret":
                    # value-correlated return of an inlined helper; the decision was made inside
                    pass
                stt = (t, a2, s2)
                if stt not in seen:
                    seen.add(stt)
                    stack.append((stt, path + [(n, lab)]))
        summary = {"fn": f["fid"], "where": f["l"], "cfg_nodes": len(g.nodes), "pull_nodes": npulls,
                   "null_returns": len(null_rets), "helpers_inlined": sorted(set(c for _, c, _ in inl.inlined)),
                   "config_only_null_returns": config_only}
        inst.append((f["fid"], summary))
        if len(null_rets) and npulls == 0 and bad is None and config_only == 0:
            pass
        if bad is not None:
            steps = []
            for n, lab in bad:
                if n.kind in ("cond", "switch"):
                    steps.append("%s: %s -> %s" % (n.loc, short(n.ast)[:80], lab))
                elif n.kind == "ret":
                    steps.append("%s: return <no stack>" % n.loc)
            findings.append({"key": f["q"], "where": "%s:%s" % (prog.rel(f["file"]), f["l"].split(":")[-1]),
                             "msg": "`%s` can report exhaustion (return no stack) from its own state without pulling upstream: exhaustion latch; an op re-fed through its origin would drop the next input" % f["q"],
                             "detail": {"entry": f["fid"], "path": steps}})
        elif len(samples) < 6 and inl.inlined:
            samples.append(summary)
    return inst, findings, samples


# ---------------------------------------------------------------------------
# R5 / T1: per-input accumulators are reset between inputs

GROW = {"insert", "push_back", "emplace", "emplace_back", "push_front", "emplace_front", "push"}


def _state_field(e, stypes):
    """(class, field) if e denotes a field of a state struct"""
    e = unwrap(e)
    while isinstance(e, dict) and e.get("k") == "call" and e.get("op") == "[]":
        e = unwrap(e["a"][0])
    if isinstance(e, dict) and e.get("k") == "mem" and e.get("c") in stypes and "fid" not in e:
        return (e["c"], e["n"])
    return None


CONTAINERS = ("std::vector<", "std::set<", "std::map<", "std::deque<", "std::list<", "std::multiset<",
              "std::multimap<", "std::unordered_", "std::basic_string<")


def _is_container(e):
    e = unwrap(e)
    return isinstance(e, dict) and (e.get("t") or "").startswith(CONTAINERS)


def node_events(n, stypes):
    """accumulate / reset / emptiness events on state fields in a CFG node"""
    acc, rst = set(), set()
    if not isinstance(n.ast, dict):
        return acc, rst
    for x in walk_nolambda(n.ast):
        k = x.get("k")
        if k == "call":
            if x.get("ismethod") and x.get("obj") is not None:
                sf = _state_field(x["obj"], stypes)
                if sf:
                    if x.get("fn") in GROW and _is_container(x["obj"]):
                        acc.add(sf)
                    elif x.get("fn") in ("clear", "reset"):
                        rst.add(sf)
            if x.get("f", "").startswith("scon::reset<") and x.get("targs"):
                rst.add((x["targs"][0], "*"))
            # numbering: F++ handed on as an argument
            for a in x.get("a", []):
                for y in walk_nolambda(a):
                    if y.get("k") == "un" and y.get("op") == "++" and y.get("post"):
                        sf = _state_field(y["e"], stypes)
                        if sf:
                            acc.add(sf)
        elif k == "ctor":
            for a in x.get("a", []):
                for y in walk_nolambda(a):
                    if y.get("k") == "un" and y.get("op") == "++" and y.get("post"):
                        sf = _state_field(y["e"], stypes)
                        if sf:
                            acc.add(sf)
        elif k == "decl":
            # numbering: the old value of F++ kept in a local (`size_t const pos = st.m_pos++;`) and handed on later
            for v in x.get("vars", []):
                if v.get("init") is None:
                    continue
                for y in walk_nolambda(v["init"]):
                    if y.get("k") == "un" and y.get("op") == "++" and y.get("post"):
                        sf = _state_field(y["e"], stypes)
                        if sf:
                            acc.add(sf)
        elif k == "asg" and x.get("op") == "=":
            sf = _state_field(x["lhs"], stypes)
            if sf:
                rst.add(sf)
    return acc, rst


def _empty_test(n, stypes):
    """field tested by `F.empty()` in a cond node"""
    if n.kind != "cond" or not isinstance(n.ast, dict):
        return None
    e = unwrap(n.ast)
    if isinstance(e, dict) and e.get("k") == "call" and e.get("fn") == "empty" and e.get("obj") is not None:
        return _state_field(e["obj"], stypes)
    return None


def r5(prog):
    """instance = (next override, accumulator field)"""
    stypes = state_types(prog)
    inst, findings = [], []
    for f in next_overrides(prog):
        cls = f["cls"]
        if any((o in ORIGINS) for o in [cls] + prog.bases(cls)):
            continue
        inl = make_inliner(prog, cls, stypes)
        g = inl.build(f)
        ev = {n.id: node_events(n, stypes) for n in g.nodes}
        fields = set()
        for a, _ in ev.values():
            fields |= a
        if not fields:
            continue
        pulls = {n.id for n in g.nodes if node_has_pull(prog, cls, n)}
        # next() is called again after it returned: wrap around
        succs = {n.id: list(n.succs) for n in g.nodes}
        succs[g.exit.id] = succs[g.exit.id] + [(g.entry.id, "again")]
        # a null return ends the evaluation of this input: do not continue through it
        for n in g.nodes:
            if n.kind == "ret" and is_null_stack_expr(n.ast):
                succs[n.id] = []
        for fld in sorted(fields):
            def is_reset(nid):
                r = ev[nid][1]
                return fld in r or (fld[0], "*") in r

            def edge_blocked(nid, lab):
                n = g.nodes[nid]
                return _empty_test(n, stypes) == fld and lab is True
            accs = [nid for nid in ev if fld in ev[nid][0]]
            # phase 1: from an accumulate to a pull, phase 2: from that pull to an accumulate
            bad = None
            for a in accs:
                start = (a, 0)
                seen = {start}
                st = [(start, [a])]
                while st and bad is None:
                    (nid, ph), path = st.pop()
                    for t, lab in succs[nid]:
                        if edge_blocked(nid, lab):
                            continue
                        if is_reset(t):
                            continue
                        ph2 = ph
                        if t in pulls:
                            ph2 = 1
                        if ph2 == 1 and fld in ev[t][0] and t not in pulls:
                            bad = path + [t]
                            break
                        if ph2 == 1 and fld in ev[t][0] and t in pulls and ph == 1:
                            bad = path + [t]
                            break
                        s2 = (t, ph2)
                        if s2 not in seen:
                            seen.add(s2)
                            st.append((s2, path + [t]))
                if bad:
                    break
            key = "%s:%s" % (f["q"], fld[1])
            info = {"fn": f["fid"], "field": "%s::%s" % fld, "accumulate_sites": sorted(set(g.nodes[a].loc for a in accs)),
                    "pull_nodes": len(pulls)}
            inst.append((key, info))
            if bad:
                locs = [g.nodes[i].loc for i in bad if g.nodes[i].loc]
                findings.append({"key": key, "where": "%s:%s" % (prog.rel(f["file"]), f["l"].split(":")[-1]),
                                 "msg": "state field %s::%s keeps accumulating across an upstream pull without being reset: results for a new input depend on earlier inputs" % fld,
                                 "detail": {"entry": f["fid"], "path": [l for i, l in enumerate(locs) if i == 0 or l != locs[i - 1]][:40]}})
    return inst, findings


# ---------------------------------------------------------------------------
# T2: work-list push is control dependent on successful insertion into the seen-set

def t2(prog):
    """In op_tr_closure: m_stks.push_back only under `m_seen.insert(..).second`"""
    stypes = state_types(prog)
    inst, findings = [], []
    if "op_tr_closure::state" not in prog.records:
        raise Broken("anchor op_tr_closure::state vanished")
    rec = prog.records["op_tr_closure::state"]
    fields = {f["n"]: f["t"] for f in rec["fields"]}
    seen_f = [n for n, t in fields.items() if t.startswith("std::set<")]
    work_f = [n for n, t in fields.items() if t.startswith("std::vector<")]
    if len(seen_f) != 1 or len(work_f) != 1:
        raise Broken("op_tr_closure::state no longer has exactly one set (seen) and one vector (work-list) field")
    seen_f, work_f = seen_f[0], work_f[0]
    from cfg import CFG
    for f in prog.funcs.values():
        c = f.get("cls", "")
        if not (c == "op_tr_closure" or c == "op_tr_closure::state"):
            continue
        pushes = []
        for x in walk(f.get("body")):
            if x.get("k") == "call" and x.get("fn") in GROW and x.get("obj") is not None:
                sf = _state_field(x["obj"], stypes)
                if sf == ("op_tr_closure::state", work_f):
                    pushes.append(x)
        if not pushes:
            continue
        g = CFG(f)
        for px in pushes:
            pn = [n for n in g.nodes if isinstance(n.ast, dict) and any(y is px for y in walk_nolambda(n.ast))]
            if not pn:
                raise Broken("push site not found in CFG of %s" % f["q"])
            pn = pn[0]

            def is_seen_insert(b):
                b = unwrap(b)
                return isinstance(b, dict) and b.get("k") == "call" and b.get("fn") == "insert" and \
                    _state_field(b.get("obj"), stypes) == ("op_tr_closure::state", seen_f)
            # locals holding the insertion result (the pair) or its `.second`, never reassigned afterwards
            assigned = {unwrap(y["lhs"]).get("id") for y in walk_nolambda(f["body"]) if y.get("k") == "asg" and isinstance(unwrap(y["lhs"]), dict)}
            pair_ids, flag_ids = set(), set()
            for y in walk_nolambda(f["body"]):
                if y.get("k") != "decl":
                    continue
                for v in y["vars"]:
                    i = unwrap(v.get("init")) if v.get("init") is not None else None
                    while isinstance(i, dict) and i.get("k") == "ctor" and len(i.get("a", [])) == 1:
                        i = unwrap(i["a"][0])
                    if v["id"] in assigned or not isinstance(i, dict):
                        continue
                    if is_seen_insert(i):
                        pair_ids.add(v["id"])
                    elif i.get("k") == "mem" and i["n"] == "second" and is_seen_insert(i["b"]):
                        flag_ids.add(v["id"])

            def guard_edge(n, lab):
                if n.kind != "cond" or lab is not True:
                    return False
                e = unwrap(n.ast)
                if not isinstance(e, dict):
                    return False
                # m_seen.insert(x).second, directly or through a local that holds the result
                if e.get("k") == "mem" and e["n"] == "second":
                    b = unwrap(e["b"])
                    if is_seen_insert(b):
                        return True
                    return isinstance(b, dict) and b.get("k") == "ref" and b.get("id") in pair_ids
                return e.get("k") == "ref" and e.get("id") in flag_ids
            reach = g.reachable(edge_ok=lambda n, t, lab: not guard_edge(n, lab))
            key = "%s@%s" % (f["q"], "push")
            inst.append((key, {"fn": f["fid"], "push": px.get("l"), "guard": "%s.insert(..).second" % seen_f}))
            if pn.id in reach:
                findings.append({"key": key, "where": "%s:%s" % (prog.rel(f["file"]), px.get("l", "").split(":")[-1]),
                                 "msg": "work-list push in %s is reachable without a successful insertion into the seen-set: a body that loops back never terminates / stacks are yielded twice" % f["q"],
                                 "detail": {"push": px.get("l")}})
    return inst, findings


# ---------------------------------------------------------------------------
# R4: origin / chain / layout pairing

def r4(prog):
    """origin/chain/layout pairing: build.cc by abstract evaluation (rules/r_build.py), the overload_instance constructor by shape"""
    import r_build
    inst, findings = r_build.r4(prog)
    targets = []
    for f in prog.funcs.values():
        if f["n"] in ("overload_instance",) and prog.rel(f["file"]).startswith("libzwerg/") \
           and f.get("body"):
            if any(True for x in walk(f["body"]) if x.get("k") == "call" and x.get("f", "").startswith(("std::make_shared<op_origin", "std::make_shared<stringer_origin"))):
                targets.append(f)
    if not targets:
        raise Broken("no function creating op_origin found (anchor build_exec vanished)")
    for f in targets:
        # all variable declarations whose init is make_shared<op_origin>(L)
        decls = []
        for x in walk(f["body"]):
            if x.get("k") == "decl":
                for v in x["vars"]:
                    i = unwrap(v.get("init"))
                    if isinstance(i, dict) and i.get("k") == "call" and i.get("f", "").startswith(("std::make_shared<op_origin", "std::make_shared<stringer_origin")):
                        decls.append((v, i))
        allcalls = [x for x in walk(f["body"]) if x.get("k") in ("call", "ctor")]
        for v, mk in decls:
            key = "%s:%s@%s" % (f["q"], v["n"], v["l"])
            kind = "stringer" if "stringer_origin" in mk["f"] else "op"
            L = unwrap(mk["a"][0]) if mk["a"] else None
            Lid = L.get("id") if isinstance(L, dict) and L.get("k") == "ref" else None
            if Lid is None:
                raise Broken("origin at %s is not built on a named layout" % v["l"])

            def is_var(a, vid):
                a = unwrap(a)
                return isinstance(a, dict) and a.get("k") == "ref" and a.get("id") == vid
            problems = []
            if kind == "op":
                builds = [c for c in allcalls if c.get("k") == "call" and c.get("fn") == "build_exec"
                          and any(is_var(a, v["id"]) for a in c["a"])]
                if len(builds) != 1:
                    problems.append("origin `%s` feeds %d build_exec calls (expected exactly 1)" % (v["n"], len(builds)))
                else:
                    b = builds[0]
                    lay = [a for a in b["a"] if isinstance(unwrap(a), dict) and unwrap(a).get("k") == "ref"
                           and unwrap(a).get("t", "").replace("&", "").strip() == "layout"]
                    if len(lay) != 1:
                        raise Broken("cannot identify the layout argument of build_exec at %s" % b.get("l"))
                    if unwrap(lay[0]).get("id") != Lid:
                        problems.append("origin `%s` reserves its slot in layout `%s` but its chain is laid out in `%s`"
                                        % (v["n"], L["n"], unwrap(lay[0])["n"]))
                    # result variable
                    resvar = None
                    for x in walk(f["body"]):
                        if x.get("k") == "decl":
                            for w in x["vars"]:
                                if w.get("init") is not None and any(y is b for y in walk(w["init"])):
                                    resvar = w
                    if resvar is None:
                        raise Broken("result of build_exec at %s is not bound to a variable" % b.get("l"))
                    users = [c for c in allcalls if c is not b and c is not mk
                             and any(is_var(a, v["id"]) for a in c["a"])
                             and any(is_var(a, resvar["id"]) for a in c["a"])]
                    if len(users) < 1:
                        problems.append("origin `%s` and its chain `%s` are never handed to the same constructor" % (v["n"], resvar["n"]))
                    # the chain must not be combined with a different origin
                    for c in allcalls:
                        if c is b or c is mk:
                            continue
                        if any(is_var(a, resvar["id"]) for a in c["a"]):
                            others = [unwrap(a) for a in c["a"] if isinstance(unwrap(a), dict) and unwrap(a).get("k") == "ref"
                                      and "op_origin" in unwrap(a).get("t", "")]
                            # position pairing: the origin argument immediately preceding the chain
                            args = [unwrap(a) for a in c["a"]]
                            for i, a in enumerate(args):
                                if isinstance(a, dict) and a.get("k") == "ref" and a.get("id") == resvar["id"] and i > 0:
                                    p = args[i - 1]
                                    if isinstance(p, dict) and p.get("k") == "ref" and "op_origin" in p.get("t", "") \
                                       and p.get("id") != v["id"]:
                                        problems.append("chain `%s` (fed by `%s`) is paired with origin `%s` at %s"
                                                        % (resvar["n"], v["n"], p["n"], c.get("l")))
            else:
                # stringer origin: seeds the stringer chain and is handed to op_format with the same layout
                users = [c for c in allcalls if c is not mk and any(is_var(a, v["id"]) for a in c["a"])
                         and c.get("f", "").startswith("std::make_shared<op_format")]
                if len(users) != 1:
                    problems.append("stringer origin `%s` is handed to %d op_format constructions (expected 1)" % (v["n"], len(users)))
                else:
                    lay = [a for a in users[0]["a"] if isinstance(unwrap(a), dict) and unwrap(a).get("k") == "ref"
                           and unwrap(a).get("t", "").replace("&", "").strip() == "layout"]
                    if not lay or unwrap(lay[0]).get("id") != Lid:
                        problems.append("stringer origin `%s` and op_format use different layouts" % v["n"])
            inst.append((key, {"origin": v["n"], "layout": L["n"], "kind": kind}))
            for p in problems:
                findings.append({"key": "%s:%s" % (f["q"], v["n"]), "where": "%s:%s" % (prog.rel(f["file"]), v["l"].split(":")[-1]),
                                 "msg": p, "detail": None})
    return inst, findings


# ---------------------------------------------------------------------------
# R6: an ALT-list fed a new input starts with its first branch (left-to-right order)

def r6(prog):
    """The tines of a merge share one upstream; whichever tine finds all copies consumed pulls the next input and is the first
    to yield for it.  For the documented left-to-right order of alternatives that tine must be the one of the first branch:
    every path to the upstream pull in op_tine::next passes a test that this tine is branch 0, or the merge's branch cursor is
    reset to 0 together with the pull."""
    from cfg import CFG
    inst, findings = [], []
    f = prog.func_opt("op_tine::next")
    if f is None:
        raise Broken("anchor op_tine::next vanished")
    g = CFG(f)
    pulls = [n for n in g.nodes if node_has_pull(prog, "op_tine", n)]
    if len(pulls) != 1:
        raise Broken("op_tine::next no longer has exactly one upstream pull (unmodelled shape)")
    p = pulls[0]
    # branch-id field: the unsigned field of op_tine that is not the merge reference
    rec = prog.records.get("op_tine")
    ids = [fl["n"] for fl in rec["fields"] if fl["t"] in ("unsigned long", "unsigned int", "const unsigned long", "const unsigned int")]
    if len(ids) != 1:
        raise Broken("cannot identify op_tine's branch id field")
    bid = ids[0]

    def first_branch_edge(n, lab):
        """is this the edge a tine takes exactly when it is branch 0 (condition evaluated with the branch id = 0 vs != 0)"""
        if n.kind != "cond" or not isinstance(n.ast, dict):
            return False
        from r_cli import eval_with

        class _Sub(dict):
            pass
        # evaluate the condition with the branch id replaced by 0 and by 1: it must separate the two
        def subst(e, val):
            if isinstance(e, dict):
                if e.get("k") == "mem" and e.get("n") == bid and "fid" not in e:
                    return {"k": "int", "v": val}
                return {k: subst(v, val) for k, v in e.items()}
            if isinstance(e, list):
                return [subst(x, val) for x in e]
            return e
        if not any(y.get("k") == "mem" and y.get("n") == bid for y in walk_nolambda(n.ast)):
            return False
        v0 = eval_with(subst(n.ast, 0), -1, 0)
        v1 = eval_with(subst(n.ast, 1), -1, 0)
        v2 = eval_with(subst(n.ast, 2), -1, 0)
        if v0 is None or v1 is None or v2 is None:
            return False
        if bool(v0) != bool(v1) and bool(v1) == bool(v2):
            return lab is bool(v0)
        return False
    reach = g.reachable(edge_ok=lambda n, t, lab: not first_branch_edge(n, lab))
    guarded = p.id not in reach
    # alternative: the pull's success branch resets the merge's cursor
    mrec = prog.records.get("op_merge::state")
    cursor = [fl["n"] for fl in mrec["fields"] if fl["t"] in ("unsigned long", "unsigned int")] if mrec else []
    resets = False
    for n in g.nodes:
        if isinstance(n.ast, dict):
            for y in walk_nolambda(n.ast):
                if y.get("k") == "asg" and isinstance(unwrap(y["lhs"]), dict) and unwrap(y["lhs"]).get("k") == "mem" and \
                   unwrap(y["lhs"])["n"] in cursor and isinstance(unwrap(y["rhs"]), dict) and unwrap(y["rhs"]).get("v") == 0:
                    resets = True
    key = "R6:op_tine::next"
    inst.append((key, {"pull_only_in_first_branch": guarded, "cursor_reset_with_pull": resets, "branch_id_field": bid}))
    if not guarded and not resets:
        findings.append({"key": key, "where": "libzwerg/op.cc:%s" % (p.loc or f["l"]).split(":")[-1],
                         "msg": "any tine may pull the next input for the whole ALT-list, and the tine that does yields first: after the first input the alternatives come out rotated (`[(1,2) (3,4)]` gives [3, 4, 4, 3]) instead of left to right for every input",
                         "detail": None})
    return inst, findings


# ---------------------------------------------------------------------------
# R7: "no stack" is reported only when upstream reported it

def r7(prog):
    """After a SUCCESSFUL upstream pull an op must yield or pull again: it may return `no stack` only along the edge where the
    pull itself returned none.  (A consumer treats the first `no stack` as end of input, so anything else drops the remaining
    inputs and leaves a half-drained upstream behind for the next feed.)"""
    from cfg import CFG
    from inline import strip_boolconv
    inst, findings = [], []
    for f in next_overrides(prog):
        cls = f["cls"]
        if any((o in ORIGINS) for o in [cls] + prog.bases(cls)):
            continue
        g = CFG(f)
        pulls = [n for n in g.nodes if node_has_pull(prog, cls, n)]
        if not pulls:
            continue
        key = "R7:" + f["q"]
        modelled = 0
        bad = None
        for p in pulls:
            handle = None
            a = p.ast
            if a.get("k") == "decl" and len(a["vars"]) == 1:
                handle = ("var", a["vars"][0]["id"])
            elif a.get("k") == "asg":
                ch = field_chain(a["lhs"])
                handle = ("chain", ch) if ch else None
            elif a.get("k") == "call" and a.get("op") == "=" and len(a.get("a", [])) == 2:
                ch = field_chain(a["a"][0])
                handle = ("chain", ch) if ch else None

            def tests_handle(e):
                e, neg = strip_boolconv(e)
                u = unwrap(e)
                if not isinstance(u, dict):
                    return None
                if handle and handle[0] == "var":
                    if u.get("k") == "ref" and u.get("id") == handle[1]:
                        return neg
                    if u.get("k") == "mem" and u["n"] == "first" and isinstance(unwrap(u["b"]), dict) and unwrap(u["b"]).get("id") == handle[1]:
                        return neg
                if handle and handle[0] == "chain" and field_chain(u) == handle[1]:
                    return neg
                if handle is None and p.kind == "cond" and any(is_pull(prog, cls, c) for c in walk_nolambda(u)):
                    return neg
                return None
            # the test is the pull node itself (pull inside a condition) or the first condition on the handle after it
            success = []
            if p.kind == "cond":
                neg = tests_handle(p.ast)
                if neg is not None:
                    success = [t for t, lab in p.succs if lab is (not neg)]
            else:
                seen = {p.id}
                st = [p.id]
                while st:
                    nid = st.pop()
                    for t, lab in g.nodes[nid].succs:
                        n2 = g.nodes[t]
                        if t in seen or node_has_pull(prog, cls, n2):
                            continue
                        seen.add(t)
                        if n2.kind == "cond" and isinstance(n2.ast, dict):
                            neg = tests_handle(n2.ast)
                            if neg is not None:
                                success += [t2 for t2, lab2 in n2.succs if lab2 is (not neg)]
                                continue
                        st.append(t)
            if not success:
                continue
            modelled += 1
            for s in success:
                reach = g.reachable(start=s, avoid=lambda n: node_has_pull(prog, cls, n))
                if node_has_pull(prog, cls, g.nodes[s]):
                    continue
                for i in reach:
                    n = g.nodes[i]
                    if n.kind == "ret" and is_null_stack_expr(n.ast):
                        bad = (p.loc, n.loc)
        inst.append((key, {"pulls": len(pulls), "pulls_with_modelled_test": modelled}))
        if bad:
            findings.append({"key": key, "where": bad[1],
                             "msg": "%s returns `no stack` at %s after its upstream pull at %s SUCCEEDED: consumers take that as end of input, so the remaining input stacks are dropped (and a half-drained upstream is left for the next feed)" % (f["q"], bad[1], bad[0]),
                             "detail": None})
    return inst, findings


# ---------------------------------------------------------------------------
# T4: the transitive closure operator on finite relations (source evaluation)

def t4(prog, tier="quick"):
    """op_tr_closure::next with next_from_upstream, next_from_op, send_to_op and state::yield_and_cache, interpreted from source.  The
    operator touches stacks only through ==/< (the seen-set), copies them and hands them to the body, so stacks are modelled as the
    nodes of a finite graph and the body E as its successor relation: every relation on 3 nodes with out-degree <= 2, every input
    sequence of length <= 2 (3), `*` and `+`.  Expected: inputs are served in order; `E*` yields the input first and then every other
    stack reachable from it exactly once; `E+` yields every stack reachable by one or more steps exactly once; nothing is carried
    over from one input to the next; the operator then reports exhaustion and stays exhausted."""
    import itertools
    from cxxobj import CxxEvaluator, Obj, OutOfBounds
    from absint import Thrown
    inst, findings = [], []

    def one(q):
        fs = [f for f in prog.funcs.values() if f["q"] == q and f.get("body") is not None]
        if len(fs) != 1:
            raise Broken("anchor %s vanished" % q)
        return fs[0]
    nxt = one("op_tr_closure::next")

    class Src:
        def __init__(self):
            self.queue = []
            self.addr = id(self)
    counter = [0]

    class St:
        """a stack object: `v` is its content (a node of the graph), `addr` its address.  Addresses are handed out in an order
        unrelated to the contents (descending within a scenario), so code that orders or compares the POINTERS instead of the
        stacks they point to behaves differently from code that compares contents."""
        def __init__(self, v):
            self.v = v
            counter[0] += 1
            self.addr = 10 ** 9 - counter[0] * 16 - (v * 7919) % 13

        def copy_value(self):
            return self           # a shared_ptr / moved unique_ptr keeps pointing at the same stack

        def __eq__(self, o):
            return isinstance(o, St) and self.v == o.v

        def __lt__(self, o):
            return self.v < o.v

        def __hash__(self):
            return hash(self.v)

        def __repr__(self):
            return str(self.v)

    def op_next(ev, o, a):
        if isinstance(o, Src):
            return o.queue.pop(0) if o.queue else None
        raise Broken("op::next on an object the closure model does not know")
    rel = {}

    def set_next(ev, o, a):
        stk = a[1]
        o.inner.queue = [St(x) for x in rel.get(stk.v, ())]
        return None
    states = {}
    hooks = {
        "op::next": op_next,
        "op_origin::set_next": set_next,
        "scon::get<*": lambda ev, o, a: states["st"],
        "std::make_unique<stack*": lambda ev, o, a: St(a[0].v),
        "std::make_shared<stack*": lambda ev, o, a: St(a[0].v),
        "ctor:stack": lambda ev, o, a: St(a[0].v),
        "stack::operator==": lambda ev, o, a: o.v == a[0].v,
        "stack::operator<": lambda ev, o, a: o.v < a[0].v,
        "method:get": lambda ev, o, a: o,
    }
    ev = CxxEvaluator(hooks, {}, prog=prog)
    nodes = (1, 2, 3)          # non-zero: a stack pointer is tested for null
    succs = [()] + [(x,) for x in nodes] + [(x, y) for x in nodes for y in nodes if x != y]
    if tier != "thorough":
        succs = [(), (1,), (2,), (2, 3), (3, 1)]
    inputs = [(x,) for x in nodes] + [(x, y) for x in nodes for y in nodes]
    if tier != "thorough":
        inputs = [(1,), (3,), (1, 2), (2, 1), (1, 1), (3, 2)]
    if tier == "thorough":
        inputs += [(1, 3, 1), (2, 2, 3), (3, 1, 2)]
    key = "T4:op_tr_closure"
    bad = None
    n_eval = 0

    def reach(s, plus):
        seen, todo = [], list(rel.get(s, ()))
        if not plus:
            seen = [s]
        while todo:
            x = todo.pop(0)
            if x in seen:
                continue
            seen.append(x)
            todo += list(rel.get(x, ()))
        return seen
    def scenario(plus, ins):
        nonlocal n_eval
        up, inner = Src(), Src()
        counter[0] = 0
        up.queue = [St(x) for x in ins]
        origin = Obj("op_origin")
        origin.inner = inner
        op = Obj("op_tr_closure")
        op.m_upstream, op.m_origin, op.m_op, op.m_is_plus, op.m_ll = up, origin, inner, plus, 0
        states["st"] = ev.new_object("op_tr_closure::state")
        ev.steps = 0
        got = []
        limit = sum(len(reach(s_, plus)) for s_ in ins) + 3
        for _ in range(limit):
            v = ev.call(nxt, op, [Obj("scon")])
            n_eval += 1
            if v is None:
                break
            got.append(v.v)
        again = ev.call(nxt, op, [Obj("scon")]) if len(got) < limit else "more"
        want_blocks = [reach(s_, plus) for s_ in ins]
        ok = len(got) == sum(len(b_) for b_ in want_blocks) and again is None
        pos = 0
        if ok:
            for s_, blk in zip(ins, want_blocks):
                seg = got[pos:pos + len(blk)]
                pos += len(blk)
                if sorted(seg) != sorted(blk) or (not plus and seg and seg[0] != s_):
                    ok = False
        if ok:
            return None
        shown = {k: list(v) for k, v in rel.items()} if len(rel) <= 4 else "a graph of %d stacks (%s ...)" % (len(rel), dict(list(rel.items())[:3]))
        return "`E%s` with E = %s fed the stacks %s yields %s%s; expected per input %s (each reachable stack exactly once%s)" % (
            "+" if plus else "*", shown, list(ins), got if len(got) <= 12 else "%d stacks %s..." % (len(got), got[:12]),
            " and more" if again == "more" else (" and then %r after reporting exhaustion" % again if again is not None else ""),
            want_blocks if sum(len(b_) for b_ in want_blocks) <= 12 else "%d stacks" % sum(len(b_) for b_ in want_blocks), "" if plus else ", the input itself first")
    try:
        for e0, e1, e2 in itertools.product(succs, repeat=3):
            rel.clear()
            rel.update({1: e0, 2: e1, 3: e2})
            for plus in (False, True):
                for ins in inputs:
                    bad = bad or scenario(plus, ins)
                if bad:
                    break
            if bad:
                break
        # larger graphs: more reachable stacks than any small-buffer or batch threshold of an implementation is likely to have, with
        # stacks reached again by a cycle and by diamonds (a stack already yielded must be recognised however the seen-set is kept)
        big = [{i: ((i % 24) + 1,) for i in range(1, 25)},
               {i: tuple(x for x in (i + 1, i + 2) if x <= 30) for i in range(1, 31)},
               {i: (((i * 7) % 40) + 1, ((i * 11) % 40) + 1) for i in range(1, 41)}]
        for g_ in big:
            rel.clear()
            rel.update(g_)
            for plus in (False, True):
                for ins in ((1,), (5, 2)):
                    bad = bad or scenario(plus, ins)
    except OutOfBounds as x:
        bad = bad or "op_tr_closure: %s" % x
    except Thrown as x:
        bad = bad or "op_tr_closure raises an error (%s)" % x
    inst.append((key, {"next_calls": n_eval}))
    if bad:
        findings.append({"key": key, "where": "libzwerg/" + nxt["l"], "msg": bad, "detail": None})
    return inst, findings


# --------------------------------------------------------------------------
# R8: state that outlives the call is not left moved-from

def _split_params(fid):
    """parameter type list from 'name(T1,T2,...)const'"""
    i = fid.find("(")
    # find the matching parenthesis of the LAST top-level parameter list
    depth = 0
    start = None
    for j, ch in enumerate(fid):
        if ch == "(" and depth == 0 and fid[j - 8:j] != "operator":
            start = j
        if ch in "(<[":
            depth += 1
        elif ch in ")>]":
            depth -= 1
            if depth == 0 and ch == ")" and start is not None:
                end = j
    if start is None:
        return []
    inner = fid[start + 1:end]
    out, depth, cur = [], 0, ""
    for ch in inner:
        if ch in "(<[":
            depth += 1
        elif ch in ")>]":
            depth -= 1
        if ch == "," and depth == 0:
            out.append(cur.strip())
            cur = ""
        else:
            cur += ch
    if cur.strip():
        out.append(cur.strip())
    return out


def r8(prog):
    """A value kept in the per-execution state area (reached through a reference obtained from scon::get) is read again by the next
    call of next().  If a function hands such a value to a parameter that may steal it (std::move into `T&&` or a by-value parameter) then on every path to the
    function's exit the field - or an object containing it - must be assigned, emplaced or reset again.  Smart pointers are exempt: their
    moved-from state is the defined `none` that the op's own state machine tests (R1/R7 decide that)."""
    from cfg import CFG
    inst, findings = [], []
    nscan = 0
    for f in sorted(prog.funcs.values(), key=lambda f: f["fid"]):
        body = f.get("body")
        if not body or "test" in os.path.basename(f.get("file", "")):
            continue
        stvars = {}
        for x in walk(body):
            if x.get("k") == "decl":
                for v in x["vars"]:
                    if v.get("t", "").endswith("&") and isinstance(v.get("init"), dict) and \
                       any(y.get("k") == "call" and (y.get("f") or "").startswith("scon::get<") for y in walk(v["init"])):
                        stvars[v["id"]] = v["n"]
        if not stvars:
            continue
        nscan += 1

        def rooted(e):
            fc = field_chain(e)
            if fc and fc[0].startswith("local:") and fc[0].split(":")[1].isdigit() and int(fc[0].split(":")[1]) in stvars and fc[1]:
                return int(fc[0].split(":")[1]), fc[1]
            return None

        def stealing_moves(ast):
            out = []
            for x in walk_nolambda(ast):
                if x.get("k") in ("call", "ctor"):
                    ptypes = _split_params(x.get("fid") or "")
                    args = list(x.get("a") or [])
                    off = 0
                    if x.get("k") == "call" and x.get("op") and x.get("ismethod") and len(ptypes) == len(args) - 1:
                        off = 1
                    for i, a in enumerate(args):
                        m = a
                        while isinstance(m, dict) and m.get("k") in ("cast", "paren", "mte") and isinstance(m.get("e"), dict):
                            m = m["e"]
                        if not (isinstance(m, dict) and m.get("k") == "call" and (m.get("f") or "").startswith("std::move<")):
                            continue
                        r = rooted(m["a"][0])
                        if r is None:
                            continue
                        t = (m["a"][0].get("t") or "")
                        if t.startswith(("std::unique_ptr<", "std::shared_ptr<")):
                            continue
                        pt = ptypes[i - off] if 0 <= i - off < len(ptypes) else "?"
                        if pt.endswith("&&") or (pt != "?" and not pt.endswith("&")) or pt == "?":
                            out.append((r, m, pt, x))
            return out

        def redefines(ast, root, chain):
            for x in walk_nolambda(ast):
                tgt = None
                if x.get("k") == "asg":
                    tgt = x.get("lhs")
                elif x.get("k") == "call" and x.get("op") == "=" and x.get("a"):
                    tgt = x["a"][0]
                elif x.get("k") == "call" and x.get("fn") in ("emplace", "reset", "clear", "assign", "swap", "operator=") and x.get("obj") is not None:
                    tgt = x["obj"]
                if tgt is None:
                    continue
                r = rooted(tgt)
                if r and r[0] == root and r[1] == chain[:len(r[1])]:
                    return True
            return False
        g = None
        for x in [body]:
            if not stealing_moves(x):
                break
        else:
            g = CFG(f)
        if g is None:
            continue
        for n in g.nodes:
            if not isinstance(n.ast, dict):
                continue
            for (root, chain), m, pt, callee in stealing_moves(n.ast):
                key = "R8:%s:%s" % (f["q"], ".".join(chain))
                inst.append((key, {"param": pt}))
                if redefines(n.ast, root, chain) and not n.kind == "ret":
                    continue
                seen, work, leak = set(), [t for t, _ in n.succs], False
                while work:
                    t = work.pop()
                    if t in seen:
                        continue
                    seen.add(t)
                    tn = g.nodes[t]
                    if t == g.exit.id:
                        leak = True
                        break
                    if isinstance(tn.ast, dict) and redefines(tn.ast, root, chain):
                        continue
                    work.extend(s for s, _ in tn.succs)
                if leak:
                    findings.append({"key": key, "where": "libzwerg/" + str(m.get("l") or n.loc),
                                     "msg": "%s hands `%s.%s` (kept in the execution's state area, read again by the next call) to a parameter `%s` of %s that may steal "
                                            "its contents, and returns without assigning it again: the next result for the same input is computed from a moved-from value"
                                            % (f["q"], stvars[root], ".".join(chain), pt, (callee.get("f") or callee.get("c") or "?")[:60]), "detail": None})
    inst.append(("R8:functions-with-state-references", {"scanned": nscan}))
    return inst, findings


# --------------------------------------------------------------------------
# E3: `A || B || C` by evaluation

def e3(prog):
    """op_or::next interpreted from source with an abstract upstream and 1-3 abstract branches: for every input stack, in input order,
    the results are ALL results of the first branch that yields anything for that stack, in the branch's order, and nothing else
    (later branches are not consulted for it; a branch that yields nothing for one stack is asked again for the next; nothing is
    carried over between stacks).  Branch behaviours range over yielding 0, 1 or 2 stacks per input."""
    import itertools
    from cxxobj import CxxEvaluator, Obj, Vec, OutOfBounds
    from absint import Thrown
    inst, findings = [], []
    fs = [f for f in prog.funcs.values() if f["q"] == "op_or::next" and f.get("body") is not None]
    if len(fs) != 1:
        raise Broken("anchor op_or::next vanished")
    nxt = fs[0]

    class Src:
        def __init__(self, name):
            self.queue, self.name = [], name
            self.addr = id(self)
    asked = []

    def op_next(ev, o, a):
        if isinstance(o, Src):
            if o.name != "up":
                asked.append(o.name)
            return o.queue.pop(0) if o.queue else None
        raise Broken("op::next on an object the model does not know")
    plan = {}

    def set_next(ev, o, a):
        stk = a[1]
        # a new input discards whatever the branch had not yet produced for the previous one? No: the real chain keeps it.  The
        # model keeps it too, so that results leaking into the next input are visible.
        o.inner.queue.extend(plan[(o.inner.name, stk)])
        return None
    states = {}
    hooks = {
        "op::next": op_next,
        "op_origin::set_next": set_next,
        "scon::get<*": lambda ev, o, a: states["st"],
        # reset destroys and reconstructs the state in place: references to it stay valid
        "scon::reset<*": lambda ev, o, a: (states["st"].__dict__.clear(), states["st"].__dict__.update(ev.new_object("op_or::state", [a[1]]).__dict__)) and None,
        "std::make_unique<stack*": lambda ev, o, a: a[0],
        "ctor:stack": lambda ev, o, a: a[0],
    }
    ev = CxxEvaluator(hooks, {}, prog=prog)
    key = "E3:op_or"
    bad = None
    n = 0
    behaviours = [(), (1,), (1, 2)]            # how many results (tagged) a branch yields for an input
    try:
        for nb in (1, 2, 3):
            for beh in itertools.product(itertools.product(behaviours, repeat=2), repeat=nb):
                # beh[b][i]: results of branch b for input i (two inputs)
                inputs = (10, 20)
                up = Src("up")
                up.queue = list(inputs)
                branches = []
                plan.clear()
                for b in range(nb):
                    origin, inner = Obj("op_origin"), Src("b%d" % b)
                    origin.inner = inner
                    branches.append((origin, inner))
                    for i, x in enumerate(inputs):
                        plan[(inner.name, x)] = [x * 100 + b * 10 + r for r in beh[b][i]]
                this = Obj("op_or")
                this.m_upstream, this.m_ll = up, 0
                this.m_branches = Vec(branches, "branches")
                states["st"] = ev.new_object("op_or::state", [this.m_branches])
                ev.steps = 0
                got = []
                limit = 4 * nb + 4
                for _ in range(limit):
                    v = ev.call(nxt, this, [Obj("scon")])
                    n += 1
                    if v is None:
                        break
                    got.append(v)
                want = []
                for i, x in enumerate(inputs):
                    for b in range(nb):
                        if beh[b][i]:
                            want += [x * 100 + b * 10 + r for r in beh[b][i]]
                            break
                if got != want and bad is None:
                    bad = "`||` of %d branch(es) that yield per input %s for the inputs %s yields %s; expected %s (all results of the first branch that yields anything, per input)" % (
                        nb, [[list(r) for r in bb] for bb in beh], list(inputs), got, want)
    except OutOfBounds as x:
        bad = bad or "op_or::next: %s" % x
    except Thrown as x:
        bad = bad or "op_or::next raises an error (%s)" % x
    inst.append((key, {"next_calls": n}))
    if bad:
        findings.append({"key": key, "where": "libzwerg/" + nxt["l"], "msg": bad, "detail": None})
    return inst, findings


# --------------------------------------------------------------------------
# E9: the op engine as a whole against the reference semantics

def _e9_terms(tier):
    P, D, F, T, N = ("push", "a"), ("drop",), ("fail",), ("twice", "t"), ("NOP",)
    leaves = [P, D, F, T, N, ("top?", "p")]
    core = [P, D, F, T]
    S = lambda x: ("SCOPE", x)
    unary = [lambda x: ("CAPTURE", S(x)), lambda x: ("SUBX", 1, S(x)), lambda x: ("SUBX", 0, S(x)), lambda x: ("?", x), lambda x: ("!", x)]
    binary = [lambda x, y: ("CAT", x, y), lambda x, y: ("ALT", x, y), lambda x, y: ("OR", x, y)]
    a1 = list(leaves)
    a1 += [u(x) for u in unary for x in leaves]
    a1 += [b(x, y) for b in binary for x in core + [N] for y in core + [("top?", "p")]]
    a1 += [("IFELSE", S(c), S(t), S(e)) for c in (P, F, ("top?", "p"), T) for t in (("push", "T"), F, T) for e in (("push", "E"), D)]
    # closures: bodies that converge
    bodies = [("inc", 2), ("ALT", ("inc", 2), ("fail",)), ("ALT", ("inc", 1), ("inc", 2)), ("CAT", ("drop",), ("push", "2")), ("fail",), ("NOP",),
              ("OR", ("inc", 1), ("CAT", ("drop",), ("push", "0"))), ("CAT", ("inc", 3), ("inc", 3))]
    clos = []
    for b in bodies:
        for k in ("CLOSE_STAR", "CLOSE_PLUS"):
            clos.append(("CAT", ("push", "0"), (k, S(b))))
            clos.append(("CAT", ("ALT", ("push", "0"), ("push", "1")), (k, S(b))))
            clos.append(("CAPTURE", S(("CAT", ("push", "0"), (k, S(b))))))
    # lexical names
    bind = [S(("CAT", ("push", "v"), ("BIND", "A"), ("READ", "A"), ("READ", "A"))),
            S(("CAT", T, ("BIND", "A"), ("ALT", ("READ", "A"), ("CAT", ("push", "w"), ("READ", "A"))))),
            S(("CAT", ("push", "v"), ("BIND", "A"), S(("CAT", ("push", "u"), ("BIND", "A"), ("READ", "A"))), ("READ", "A"))),
            S(("CAT", ("BIND", "V"), ("CAPTURE", S(("ALT", ("READ", "V"), ("READ", "V")))))),
            S(("CAT", ("BIND", "V"), ("?", ("CAT", ("READ", "V"), ("top?", "p"))), ("READ", "V"))),
            S(("CAT", ("BIND", "V"), ("OR", ("CAT", ("READ", "V"), ("top?", "q")), ("push", "other")))),
            S(("CAT", ("BIND", "V"), ("SUBX", 1, S(("CAT", ("READ", "V"), ("push", "k")))), ("READ", "V"))),
            S(("CAT", ("BIND", "V"), ("IFELSE", S(("CAT", ("READ", "V"), ("top?", "p"))), S(("READ", "V")), S(("push", "no"))))),
            S(("CAT", F, ("BIND", "A"), ("BIND", "A"))), ("READ", "nope"), S(("CAT", ("BIND", "A"), ("ALT", ("BIND", "A"), ("READ", "A")))),
            S(("CAT", ("push", "0"), ("BIND", "Z"), ("READ", "Z"), ("CLOSE_STAR", S(("CAT", ("inc", 2), ("READ", "Z"), ("drop",)))))),
            # builtin words live in the root scope and are shadowed by user bindings, also for blocks written below the binding
            ("READ", "bw"), S(("CAT", ("push", "7"), ("BIND", "bw"), ("READ", "bw"))), S(("CAT", ("push", "7"), ("BIND", "bw"), ("BLOCK", ("READ", "bw")), ("apply",))),
            S(("CAT", ("BLOCK", ("READ", "bw")), ("apply",))), S(("CAT", ("push", "7"), ("BIND", "bw"), ("BLOCK", ("BLOCK", ("CAT", ("READ", "bw"), ("READ", "bdrop")))), ("apply",), ("apply",))),
            S(("CAT", ("push", "7"), ("BIND", "bw"), ("?", ("CAT", ("READ", "bw"), ("top?", "7"))), ("BLOCK", ("?", ("CAT", ("READ", "bw"), ("top?", "7")))), ("apply",))),
            # blocks: lexical closures over the bindings visible where the block is written
            ("CAT", ("BLOCK", ("push", "in")), ("apply",)), ("BLOCK", ("push", "in")), ("CAT", ("push", "n"), ("apply",)),
            S(("CAT", ("push", "v"), ("BIND", "A"), ("BLOCK", ("READ", "A")), ("BIND", "F"), ("READ", "F"))),
            S(("CAT", T, ("BIND", "A"), ("BLOCK", ("CAT", ("READ", "A"), ("twice", "u"))), ("BIND", "F"), ("READ", "F"), ("READ", "F"))),
            S(("CAT", ("push", "v"), ("BIND", "A"), ("BLOCK", ("BLOCK", ("READ", "A"))), ("apply",), ("apply",))),
            S(("CAT", ("BIND", "A"), ("BLOCK", ("CAT", ("READ", "A"), ("?", ("CAT", ("READ", "A"), ("top?", "p"))))), ("apply",))),
            S(("CAT", ("push", "a"), ("BIND", "A"), ("push", "b"), ("BIND", "B"), ("BLOCK", ("CAT", ("READ", "B"), ("READ", "A"), ("READ", "B"))), ("apply",))),
            S(("CAT", ("push", "1"), ("BIND", "A"), ("push", "2"), ("BIND", "B"), ("BLOCK", ("CAT", ("?", ("CAT", ("READ", "A"), ("top?", "1"))), ("READ", "B"), ("READ", "A"))), ("apply",))),
            S(("CAT", ("push", "1"), ("BIND", "A"), ("push", "2"), ("BIND", "B"), ("BLOCK", ("CAT", ("!", ("CAT", ("READ", "A"), ("top?", "2"))), ("READ", "B"))), ("apply",))),
            S(("CAT", ("push", "o"), ("BIND", "A"), ("BLOCK", S(("CAT", ("push", "i"), ("BIND", "A"), ("BLOCK", ("READ", "A")), ("apply",)))), ("apply",))),
            S(("CAT", ("push", "o"), ("BIND", "A"), ("BLOCK", ("CAT", ("BLOCK", ("READ", "A")), ("apply",), ("READ", "A"))), ("BIND", "F"), S(("CAT", ("push", "z"), ("BIND", "A"), ("READ", "F"))))),
            S(("CAT", ("BLOCK", ("CAT", ("drop",), ("push", "r"))), ("BIND", "F"), ("push", "k"), ("SUBX", 1, S(("READ", "F"))))),
            S(("CAT", ("BLOCK", ("twice", "w")), ("BIND", "F"), ("CAPTURE", S(("READ", "F"))), ("OR", ("CAT", ("READ", "F"), ("top?", "w2")), ("push", "none")))),
            S(("CAT", ("BIND", "X"), ("BLOCK", ("CAT", ("READ", "X"), ("BLOCK", ("CAT", ("READ", "X"), ("READ", "X"))))), ("apply",), ("apply",)))]
    fmt = [("FORMAT", "abc"), ("FORMAT", "a", P, "b"), ("FORMAT", T, "-", ("twice", "u")), ("FORMAT", "<", N, ">", ("push", "k")), ("FORMAT", "x", F, "y"),
           ("FORMAT", ("CAT", D, ("push", "k")), "|", N), ("CAT", T, ("FORMAT", N), ("FORMAT", N, "!")), ("CAPTURE", S(("FORMAT", T, "+", ("twice", "u"), "+", ("twice", "w")))),
           ("FORMAT", ("twice", "u"), " and a long enough suffix that does not fit a small string buffer ", T),
           ("ALT", ("FORMAT", "l", N), ("FORMAT", N, "r")), ("OR", ("FORMAT", F), ("FORMAT", "second")), ("?", ("FORMAT", "q", F)), ("FORMAT", ("FORMAT", "in", N), "out"),
           S(("CAT", ("BIND", "V"), ("FORMAT", "[", ("READ", "V"), "|", ("CAT", ("READ", "V"), T), "]"))), ("CAT", ("push", "0"), ("CLOSE_STAR", S(("inc", 2))), ("FORMAT", "n=", N)),
           ("IFELSE", S(("FORMAT", F)), S(("push", "T")), S(("FORMAT", "else ", T)))]
    a1s = [x for i, x in enumerate(a1) if i % 3 == 0]
    a2 = [u(x) for u in unary for x in a1]
    a2 += [b(x, y) for b in binary for x in a1s for y in a1s]
    if tier != "thorough":
        # quick tier: every construct around every pair, every pair around every construct, and a sample of the rest
        sample = [x for i, x in enumerate(a2) if i % 61 == 0]
        a2 = [u(b(x, y)) for u in unary for b in binary for x in (P, D, T) for y in (P, D, T)]
        a2 += [b(u(x), y) for b in binary for u in unary for x in (P, F, T) for y in (P, D, ("top?", "p"))]
        a2 += [b(y, u(x)) for b in binary for u in unary for x in (P, F, T) for y in (P, T)]
        a2 += sample
    return a1 + clos + bind + fmt, a2


_E9 = {}


def e9(prog, tier="quick"):
    k_ = (id(prog), tier)
    if k_ not in _E9:
        _E9[k_] = _e9(prog, tier)
    return _E9[k_]


def _e9(prog, tier="quick"):
    """The whole op engine against an independent reference implementation of the documented meaning of the constructs: build_exec /
    build_pred and every op they construct (op.cc: their constructors, next, state_con/state_des; layout, bindings, up-references; the
    stack class) are interpreted from source on query trees; only builtin words and values are abstract.  Every tree of a family
    (all constructs applied to all leaves; all pairs under `,`-juxtaposition, `,` and `||`; assertions, captures, sub-expressions,
    if-else; closures over converging bodies; lexical names incl. shadowing, rebinding and unbound names; one further level of
    nesting, sampled in the quick tier) is run on the stack [x] and, as the right side of `(p, q)`, on two inputs; the yielded stacks
    must be exactly the reference's, in order, the engine must then report exhaustion, and every state slot it constructed must have
    been destroyed.  The state area is typed: a slot used before construction, after destruction or as another class is a finding."""
    import zwengine
    from cxxobj import OutOfBounds
    inst, findings = [], []
    E = zwengine.Engine(prog)
    fam1, fam2 = _e9_terms(tier)
    wrap = lambda t: ("CAT", ("ALT", ("push", "p"), ("push", "q")), t)
    n = 0
    bad = {}

    def check(t, group, both=True):
        nonlocal n
        for spec in ((t, wrap(t)) if both else (wrap(t),)):
            n += 1
            try:
                want = list(zwengine.reference(spec, ("x",)))
            except zwengine.RefError:
                want = ("error",)
            try:
                got = E.run(spec, ["x"])
            except OutOfBounds as x:
                got = ("memory", str(x))
            if isinstance(got, tuple) and got and got[0] == "error":
                got = ("error",)
            if got != want and group not in bad:
                bad[group] = "the query %s on the stack [x] yields %s; the documented meaning gives %s" % (
                    _e9_show(spec), got if not isinstance(got, list) else [list(g) for g in got], want if not isinstance(want, list) else [list(w) for w in want])
    for t in fam1:
        check(t, "E9:" + _e9_group(t))
    for t in fam2:
        check(t, "E9:nested", both=False)
    groups = sorted({"E9:" + _e9_group(t) for t in fam1} | {"E9:nested"})
    for g in groups:
        inst.append((g, {"queries_run": n}))
        if g in bad:
            findings.append({"key": g, "where": "libzwerg/op.cc / build.cc", "msg": bad[g], "detail": None})
    return inst, findings


def _e9_group(t):
    def ops(x, acc):
        if isinstance(x, tuple):
            if x and isinstance(x[0], str):
                acc.add(x[0])
            for y in x[1:]:
                ops(y, acc)
        return acc
    o = ops(t, set())
    if "FORMAT" in o:
        return "format"
    for k in ("BIND", "READ"):
        if k in o:
            return "names"
    for k in ("CLOSE_STAR", "CLOSE_PLUS"):
        if k in o:
            return "closure"
    t0 = t[0]
    return {"?": "assert", "!": "assert", "SUBX": "subx", "CAPTURE": "capture", "IFELSE": "ifelse", "CAT": "cat", "ALT": "alt", "OR": "or"}.get(t0, "leaf")


def _e9_show(t):
    op = t[0]
    if op == "push":
        return str(t[1])
    if op in ("drop", "fail"):
        return op
    if op == "NOP":
        return "()"
    if op == "twice":
        return "(%s1, %s2)" % (t[1], t[1])
    if op == "inc":
        return "inc<%d" % t[1]
    if op == "top?":
        return "?top=%s" % t[1]
    if op == "CAT":
        return " ".join(_e9_show(x) for x in t[1:])
    if op == "ALT":
        return "(" + ", ".join(_e9_show(x) for x in t[1:]) + ")"
    if op == "OR":
        return "(" + " || ".join(_e9_show(x) for x in t[1:]) + ")"
    if op == "CAPTURE":
        return "[" + _e9_show(t[1]) + "]"
    if op == "SUBX":
        return "subx<%d>(%s)" % (t[1], _e9_show(t[2]))
    if op in ("?", "!"):
        return "%s(%s)" % (op, _e9_show(t[1]))
    if op == "IFELSE":
        return "if %s then %s else %s" % tuple(_e9_show(x) for x in t[1:])
    if op == "SCOPE":
        return "{" + _e9_show(t[1]) + "}" if t[1][0] in ("CAT",) and any(isinstance(y, tuple) and y[0] == "BIND" for y in t[1][1:]) else _e9_show(t[1])
    if op == "BIND":
        return "->" + t[1] + ";"
    if op == "READ":
        return t[1]
    if op == "CLOSE_STAR":
        return "(" + _e9_show(t[1]) + ")*"
    if op == "CLOSE_PLUS":
        return "(" + _e9_show(t[1]) + ")+"
    if op == "FORMAT":
        return '"' + "".join(x if isinstance(x, str) else "%( " + _e9_show(x) + " %)" for x in t[1:]) + '"'
    if op == "BLOCK":
        return "{" + _e9_show(t[1]) + "}"
    if op == "apply":
        return "apply"
    return str(t)


def e10(prog, tier="quick"):
    """the compile-time simplification changes no result: tree::simplify interpreted from source on the tree of every query of a family
    (the E9 family plus shapes the simplifier rewrites: NOPs in every position of a juxtaposition, nested juxtapositions and nested
    `,`-lists, single-child juxtapositions of every construct, format strings that are one literal, binding blocks with an empty body
    `(|A|)` where the name is bound outside, read afterwards, or unbound), the simplified tree run by the interpreted engine, and the
    results compared with the reference semantics of the ORIGINAL query - the same comparison E9 makes for the unsimplified tree."""
    import zwengine
    from cxxobj import OutOfBounds
    from absint import Thrown
    inst, findings = [], []
    E = zwengine.Engine(prog)
    fam1, _ = _e9_terms("quick")
    P, D, F, T, N = ("push", "a"), ("drop",), ("fail",), ("twice", "t"), ("NOP",)
    S = lambda x: ("SCOPE", x)
    shapes = [("CAT", N, P, N), ("CAT", N, N), ("CAT", N), ("CAT", P), ("CAT", ("CAT", P, D), T), ("CAT", ("CAT", ("CAT", P, N), N), P), ("CAT", N, ("CAT", N, T), N),
              ("ALT", ("ALT", P, T), F), ("ALT", ("ALT", ("ALT", P, N), D), T), ("ALT", N, ("CAT", N)), ("CAT", ("ALT", P, N)), ("CAT", ("OR", F, N)),
              ("CAT", ("CAPTURE", S(T))), ("CAT", ("?", F)), ("CAT", ("SUBX", 1, S(P))), ("FORMAT", "lit"), ("CAT", ("FORMAT", "lit")), ("FORMAT", "a", N, "b"),
              ("CAPTURE", S(("CAT", N, T, N))), ("?", ("CAT", N, N)), ("IFELSE", S(("CAT", N)), S(("CAT", P, N)), S(N)), ("CLOSE_STAR", S(("CAT", N, ("inc", 2), N))),
              # binding blocks with an empty body
              S(("CAT", ("push", "1"), ("BIND", "A"), ("CAPTURE", S(("CAT", ("push", "2"), S(("CAT", ("BIND", "A"), N)), ("READ", "A")))))),
              S(("CAT", ("push", "1"), ("push", "2"), ("BIND", "A"), S(("CAT", ("BIND", "A"), N)), ("READ", "A"))),
              ("CAT", ("push", "1"), S(("CAT", ("BIND", "A"), N)), ("READ", "A")),
              S(("CAT", ("push", "1"), ("BIND", "A"), ("push", "9"), S(S(("CAT", ("BIND", "A"), N))), ("READ", "A"))),
              S(("CAT", ("push", "1"), ("push", "2"), S(("CAT", ("BIND", "A"), ("BIND", "B"), N)), ("push", "3"), ("BIND", "A"), ("READ", "A"))),
              S(("CAT", ("push", "1"), ("BIND", "A"), ("BLOCK", ("CAT", ("push", "5"), S(("CAT", ("BIND", "A"), N)), ("READ", "A"))), ("apply",)))]
    fam = shapes + (fam1 if tier == "thorough" else [x for i, x in enumerate(fam1) if i % 4 == 0])
    wrap = lambda t: ("CAT", ("ALT", ("push", "p"), ("push", "q")), t)
    bad = {}
    n = 0
    for idx, t in enumerate(fam):
        group = "E10:rewritten-shapes" if idx < len(shapes) else "E10:family"
        for spec in (t, wrap(t)):
            n += 1
            try:
                want = list(zwengine.reference(spec, ("x",)))
            except zwengine.RefError:
                want = ("error",)
            try:
                tree = E.simplified(spec)
                got = E.run(spec, ["x"], tree=tree)
            except OutOfBounds as x:
                got = ("memory", str(x))
            except Thrown as x:
                got = ("error",)
            if isinstance(got, tuple) and got and got[0] == "error":
                got = ("error",)
            if got != want and group not in bad:
                bad[group] = "after tree::simplify the query %s on the stack [x] yields %s; the query means %s" % (
                    _e9_show(spec), got if not isinstance(got, list) else [list(g) for g in got], want if not isinstance(want, list) else [list(w) for w in want])
    for g in ("E10:rewritten-shapes", "E10:family"):
        inst.append((g, {"queries_run": n}))
        if g in bad:
            findings.append({"key": g, "where": "libzwerg/tree.cc", "msg": bad[g], "detail": None})
    return inst, findings
