"""C12 purity of a compiled query: Q1 no hidden mutable state, Q3 caches insert-only, Q4 shared sequence storage, W1 const protocol."""
import r_pure
from common import apply, maybe_mutants


def run(prog, rep, tier):
    rep.clause = ("Q1: no `mutable` member / const_cast of this in any class derived from op/pred/stringer/builtin (257 classes), no library function "
                  "writes a namespace-scope or static-storage variable (one exemption row with reason), no function-local static whose initialiser "
                  "depends on a parameter; Q3: parent/root caches are only searched and inserted into; Q4: sequence storage obtained through "
                  "value_seq::get_seq() is mutated only via a by-value unique_ptr operand and the sharing constructor only takes such storage; Q4c: every "
                  "other initialisation of that storage field (copy constructor = clone) is a fresh allocation on every arm, never an alias; "
                  "W1: op::next/state_con/state_des, pred::result, stringer::next are const and zw_query holds no scon/stack.")
    rep.not_decided = ("equality of result sequences across interleaved, partially consumed or abandoned executions (a history property; the clauses "
                       "above are its structural preconditions).")
    apply(rep, "Q1", "no hidden mutable process-level state", r_pure.q1(prog), 4)
    apply(rep, "Q3", "caches are insert-only", r_pure.q3(prog), 1)
    apply(rep, "Q3b", "cache entries are inserted complete (nothing may throw after the insertion)", r_pure.q3b(prog), 2)
    apply(rep, "Q4", "shared sequence storage mutated only through an owned operand", r_pure.q4(prog), 3)
    apply(rep, "Q4c", "copies never alias storage that `add` mutates in place", r_pure.q4c(prog), 3)
    apply(rep, "W1", "const protocol (type-level)", r_pure.w1(prog), 8)
    import r_pure as _rp
    apply(rep, "Q5", "libdw's sticky error indicator is never used to decide without being cleared first (CFG must-pass-through)", _rp.q5(prog), 2)
    apply(rep, "Q6", "no member function that modifies an op-graph object is reachable from next / set_next / result / state_con / state_des", _rp.q6(prog), 1)
    maybe_mutants("C12", rep, tier)
