"""C14 errors through the API: B1 wrap discipline, B2 no unwinding from entry points without an error parameter,
Y1 scanner completeness, K3 CLI handlers."""
import r_api, r_lex, r_cli, effects
from common import apply, maybe_mutants, control


def run(prog, rep, tier):
    rep.clause = ("B1: each of the 25 exported functions with a zw_error** parameter returns a capture_errors(lambda, NULL/false, own out_err) wrap or "
                  "delegates to a function that does, nothing outside the wrap may throw (may-throw analysis), and no wrap returns its failure "
                  "sentinel as a success; capture_errors catches std::exception and (...) and stores the error through allocate_error; "
                  "B2: the 76 exported functions without an error parameter cannot unwind (least fixpoint of may-throw over all 2500 functions and "
                  "lambdas, virtual calls resolved to all overriders, function pointers to address-taken functions of the same signature); "
                  "B3: parse_subquery returns the tree only along the yyparse()==0 edge and every other outcome reaches a throw (CFG reachability, "
                  "if- and switch-forms); T1: no std::exception-derived object is constructed as a discarded expression statement (missing `throw`); "
                  "Y1: flex finds no matchable default rule and every start condition has an <<EOF>> rule; K3: CLI handlers exit 2.")
    rep.not_decided = ("hangs, reads beyond the given length inside the generated scanner, behaviour under allocation failure, exhaustion of the C stack by "
                       "deeply nested input (the recursion of build_exec / tree::simplify is bounded by the parser's stack limit; whether that many frames fit "
                       "is a quantity - `[|A| ` nested 4900 deep does overflow an 8 MB stack on the unchanged tree, DESIGN section 20), and that error "
                       "messages are non-empty (run-time properties).")
    rep.assumptions += effects.ASSUMPTIONS + ["exemption edges of the may-throw analysis: %s" % ", ".join("%s->%s" % k for k in effects.NOTHROW_EDGES)]
    apply(rep, "B1", "capture_errors wrap discipline", r_api.b1(prog), 25)
    apply(rep, "B2", "no unwinding out of entry points without error parameter", r_api.b2(prog), 60)
    apply(rep, "B3", "the parse tree is handed out only on yyparse success", r_api.b3(prog), 1)
    apply(rep, "T1", "no exception object is constructed and discarded", r_api.t1(prog), 1)
    import r_core
    apply(rep, "P2c", "stack accessors raise the underflow error exactly when they would reach below the bottom", r_core.p2c(prog), 5)
    apply(rep, "Y1", "scanner completeness", r_lex.y1(prog), 4)
    k8 = r_cli.k8(prog, tier)
    apply(rep, "K8", "the driver never reads out of bounds or lets an exception escape, whatever the arguments yield (main() interpreted on abstract command lines incl. arguments without values)",
          ([i for i in k8[0] if i[0] == "K8:status"], [f for f in k8[1] if f["key"] == "K8:status"]) if not getattr(k8, "broken", None) else k8, 1)
    apply(rep, "K3", "CLI maps every exception to exit status 2", r_cli.k3(prog), 10)
    apply(rep, "B5", "a null error pointer is passed only to callees that cannot report an error", r_api.b5(prog), 2)
    apply(rep, "B4", "every call-graph cycle through yyparse carries a depth bound (format-string splices re-enter the parser through the scanner)", r_api.b4(prog), 1)
    import r_pure
    q = r_pure.q1(prog)
    apply(rep, "Q1", "parsing keeps no process-level state: a query rejected once cannot influence a later parse (no static-storage variable written in library code)",
          ([i for i in q[0] if i[0].startswith(("Q1ii", "Q1iii"))], [f for f in q[1] if f["key"].startswith(("Q1ii", "Q1iii"))]), 2)
    import r_api as _ra
    apply(rep, "B6", "the error slot is output-only: *out_err is assigned, never read", _ra.b6(prog), 3)
    import r_front
    apply(rep, "E11", "queries with empty operands in every position (`1 ||`, `|| 1`, `,`, `()`, `[|| 1]`, `\"%( || %)\"`, ...) compile and mean what the documentation says; no action of the scanner or parser dereferences a null tree (front end interpreted from source)", r_front.e11(prog, tier, ("E11:empty",)), 1)
    import r_lex as _rl6
    apply(rep, "Y6", "each of the 256 bytes, alone and between two words, is tokenised or reported by the scanner without a memory error in any action (scanner simulated; sprintf into the catch-all rule's buffer bounds-checked)", _rl6.y6(prog), 1)
    apply(rep, "B7", "the result of a dynamic downcast is dereferenced only where it was tested for null (null-path reachability on the CFG; assert is not a test)", r_api.b7(prog), 0)
    control(rep, "B7", r_api.b7, ["B7:verif_control_b7::unchecked:d"])
    maybe_mutants("C14", rep, tier)
