"""Address-set rules (C16): H1 the range vector is mutated only inside coverage, H3 each word is registered with its documented
overload classes, H7 the set algebra of coverage and of every word by source evaluation on the endpoint-order domain."""
from zw import walk, walk_nolambda, unwrap, short, Broken, calls
from r_tables import expand_calls, strval

WORD_CLASSES = {
    "add": {"op_add_aset_cst", "op_add_aset_aset"}, "sub": {"op_sub_aset_cst", "op_sub_aset_aset"},
    "overlap": {"op_overlap_aset_aset"}, "?contains": {"pred_containsp_aset_cst", "pred_containsp_aset_aset"},
    "?overlaps": {"pred_overlapsp_aset_aset"}, "?empty": {"pred_emptyp_aset"},
    "low": {"op_low_aset"}, "high": {"op_high_aset"}, "length": {"op_length_aset"}, "range": {"op_range_aset"},
    "elem": {"op_elem_aset"}, "relem": {"op_relem_aset"},
}


def h3(prog):
    inst, findings = [], []
    # registration: word -> overload classes on address sets
    reg = {}
    for f in prog.funcs.values():
        body = f.get("body")
        if body is None or not f["n"].startswith("dwgrep_vocabulary"):
            continue
        for b in walk(body):
            if b.get("k") != "block":
                continue
            words = []
            classes = set()
            for st in b["s"]:
                if st.get("k") == "block":
                    continue        # nested registration groups are handled on their own
                for c in calls(st, lambdas=False):
                    if c.get("fn") in ("add_op_overload", "add_pred_overload") and c.get("targs"):
                        classes.add(c["targs"][0])
                    if c.get("f", "").startswith(("std::make_shared<overloaded_op_builtin", "std::make_shared<overloaded_pred_builtin")):
                        w = strval(c["a"][0])
                        if w:
                            words.append(w)
            if words and classes:
                for w in words:
                    reg.setdefault(w, set()).update(c for c in classes)
    for w, want in sorted(WORD_CLASSES.items()):
        got = {c for c in reg.get(w, set()) if "aset" in c}
        key = "H3:word:" + w
        inst.append((key, {"registered_aset_overloads": sorted(got)}))
        if got != want:
            findings.append({"key": key, "where": "libzwerg/builtin-dw-voc.cc",
                             "msg": "word `%s` is registered on address sets with %s, expected %s" % (w, sorted(got), sorted(want)), "detail": None})
    return inst, findings


def h1(prog):
    inst, findings = [], []
    n = 0
    for f in prog.funcs.values():
        if f.get("cls") == "coverage":
            continue
        body = f.get("body")
        if body is None:
            continue
        parent = {}

        def rec(node, par):
            if isinstance(node, list):
                for x in node:
                    rec(x, par)
                return
            if not isinstance(node, dict):
                return
            parent[id(node)] = par
            for v in node.values():
                if isinstance(v, (dict, list)):
                    rec(v, node)
        accesses = []
        for c in walk(body):
            if c.get("k") == "call" and c.get("fn") in ("at", "front", "back", "operator[]", "begin", "end", "data") and \
               "cov_range" in c.get("cls", "") and c.get("obj") is not None and "coverage" in (unwrap(c["obj"]) or {}).get("t", "coverage" if (unwrap(c["obj"]) or {}).get("fn") == "get_coverage" else ""):
                accesses.append(c)
        if not accesses:
            continue
        rec(body, None)
        for c in accesses:
            n += 1
            cur = c
            written = None
            for _ in range(6):
                par = parent.get(id(cur))
                if par is None:
                    break
                k = par.get("k")
                if k == "asg" and par.get("lhs") is cur:
                    written = "assigned"
                    break
                if k == "un" and par.get("op") in ("++", "--"):
                    written = "incremented"
                    break
                if k == "call" and par.get("op") in ("=", "+=", "-=", "++", "--") and par["a"] and par["a"][0] is cur:
                    written = "assigned"
                    break
                if k in ("mem", "cast", "ctor", "un"):
                    cur = par
                    continue
                if k == "decl" or ("init" in par and "id" in par):
                    t = par.get("t", "")
                    if t.endswith("&") and "const" not in t:
                        written = "bound to a non-const reference `%s`" % par.get("n")
                    break
                break
            key = "H1:%s@%s" % (f["q"], c["l"])
            inst.append((key, {"access": c["fn"], "written": written}))
            if written:
                findings.append({"key": "H1:%s" % f["q"], "where": c["l"],
                                 "msg": "%s writes a range of an address set in place through coverage::%s (%s): the sorted/disjoint/non-adjacent canonical form is only maintained inside coverage's own members" % (f["q"], c["fn"], written),
                                 "detail": None})
    if n < 8:
        raise Broken("only %d range accesses outside coverage found (floor 8)" % n)
    return inst, findings


# ---------------------------------------------------------------------------
# H7: the set algebra itself, by evaluating coverage.cc and the address-set words from their source on the
# endpoint-order domain.  coverage touches addresses only by comparing range endpoints and by forming
# start+length (an endpoint again) and differences of endpoints (a length again), so its behaviour on a set with k
# runs and one operand interval depends only on how the endpoints are ordered and which coincide.  Taking a list
# of breakpoints b0 < b1 < ... < bn, the sets that are unions of the elementary segments [bi, bi+1) and the
# intervals [bi, bj) realise every such order type for up to ceil(n/2) runs; two lists are used, a contiguous
# small one (where `elem` can enumerate) and one that spreads over the whole 64-bit range (gaps > 2^63).

def _canon(mask, U):
    runs = []
    n = len(U) - 1
    i = 0
    while i < n:
        if mask >> i & 1:
            j = i
            while j + 1 < n and mask >> (j + 1) & 1:
                j += 1
            runs.append((U[i], U[j + 1] - U[i]))
            i = j + 1
        else:
            i += 1
    return runs


def _segmask(i, j):
    return ((1 << j) - 1) & ~((1 << i) - 1)


def h7(prog, tier="quick"):
    from cxxobj import CxxEvaluator, Struct, Vec, OutOfBounds
    from absint import Thrown
    inst, findings = [], []
    need = ["coverage::add", "coverage::remove", "coverage::is_covered", "coverage::is_overlap", "coverage::intersect",
            "coverage::add_all", "coverage::remove_all"]
    fn = {}
    for q in need:
        f = prog.func_opt(q)
        if f is None or f.get("body") is None:
            raise Broken("anchor %s vanished" % q)
        fn[q.split("::")[1]] = f

    def mkcov(runs):
        return Vec([Struct("cov_range", {"start": s, "length": l}) for s, l in runs], "coverage")

    class Cst:
        """a constant of the address domain; constants of one domain order by value (decided by C09's O-rules), the mixed-domain
        case is interpreted from source further down"""
        def __init__(self, v, dom, pos=None):
            self.v, self.dom, self.pos = v, dom, pos

        def _chk(self, o):
            if not isinstance(o, Cst) or o.dom != self.dom:
                raise Broken("comparison of constants of different domains in the single-domain model")

        def cmp_with(self, op, o):
            self._chk(o)
            return {"<": self.v < o.v, ">": self.v > o.v, "<=": self.v <= o.v, ">=": self.v >= o.v, "==": self.v == o.v, "!=": self.v != o.v}[op]

    class VCst:
        def __init__(self, c, pos):
            self.c, self.pos = c, pos

    class VAset:
        def __init__(self, cov, pos):
            self.cov, self.pos = cov, pos

    class Obj:
        pass

    def make_unique(ev, o, a, e=None):
        raise Broken("make_unique of an unmodelled class")
    def pr(r):
        """normalise a pred_result: enumerator, or the bool it was converted from"""
        if isinstance(r, bool):
            return "yes" if r else "no"
        return r[1] if isinstance(r, tuple) else r

    def construct_producer(cls):
        def h(ev, o, a):
            ctors = [f for f in prog.funcs.values() if f.get("cls") == cls and f["n"] == cls.split("::")[-1] and len(f["params"]) == len(a) and f.get("body") is not None]
            if len(ctors) != 1:
                raise Broken("cannot resolve the constructor of %s" % cls)
            return ev.construct(ctors[0], Obj(), a)
        return h
    hooks = {
        "ctor:coverage": lambda ev, o, a: mkcov([]) if not a else a[0].copy_value(),
        "ctor:cov_range": lambda ev, o, a: a[0].copy_value() if a and isinstance(a[0], Struct) else Struct("cov_range", {"start": None, "length": None}),
        "ctor:value_aset": lambda ev, o, a: a[0] if isinstance(a[0], VAset) else VAset(a[0].copy_value(), a[1]),
        "ctor:value_cst": lambda ev, o, a: a[0] if isinstance(a[0], VCst) else VCst(a[0], a[1]),
        "ctor:constant": lambda ev, o, a: a[0] if isinstance(a[0], Cst) else Cst(a[0], a[1]),
        "ctor:pred_result": lambda ev, o, a: ("enum", "yes" if a[0] else "no", None) if isinstance(a[0], bool) else a[0],
        "std::make_unique<value_cst*": lambda ev, o, a: VCst(a[0], a[1]),
        "std::make_unique<value_aset*": lambda ev, o, a: VAset(a[0].copy_value(), a[1]),
        "std::make_unique<(anonymous namespace)::elem_aset_producer*": construct_producer("(anonymous namespace)::elem_aset_producer"),
        "std::make_unique<(anonymous namespace)::aset_range_producer*": construct_producer("(anonymous namespace)::aset_range_producer"),
        "value_aset::get_coverage": lambda ev, o, a: o.cov,
        "value_cst::get_constant": lambda ev, o, a: o.c,
        "dw_address_dom": lambda ev, o, a: "address",
        "(anonymous namespace)::addressify": lambda ev, o, a: a[0].v,
        "mpz_class::uval": lambda ev, o, a: o,
        "operator>": lambda ev, o, a: a[0] > a[1],
        "operator<": lambda ev, o, a: a[0] < a[1],
        "operator-": lambda ev, o, a: a[0] - a[1],
    }
    ev = CxxEvaluator(hooks, {"dec_constant_dom": "dec"}, prog=prog, structs={"cov_range": ["start", "length"]},
                      defaults={"coverage": lambda: mkcov([])})

    def denote(cov, U, what):
        """mask of a result; None + reason when it is not a canonical set over U"""
        idx = {b: i for i, b in enumerate(U)}
        mask = 0
        prev_end = None
        for r in cov.items:
            s, l = r.start, r.length
            if l is None or s is None or l == 0:
                return None, "%s contains an empty run [%#x, +%s)" % (what, s or 0, l)
            e = s + l
            if s not in idx or e not in idx:
                return None, "%s contains the run [%#x, %#x) whose ends are not ends of any operand" % (what, s, e)
            if prev_end is not None and s <= prev_end:
                return None, "%s is not in canonical form: run [%#x, %#x) follows a run ending at %#x (runs must be ascending, disjoint and non-adjacent, otherwise equal sets compare unequal and `range` splits a maximal run)" % (what, s, e, prev_end)
            prev_end = e
            mask |= _segmask(idx[s], idx[e])
        return mask, None

    def show(runs):
        return "{" + ", ".join("[%#x, %#x)" % (s, s + l) for s, l in runs) + "}"
    lists = [list(range(0, 6 if tier == "quick" else 7)),
             [1, 5, 6, (1 << 63) + 6, (1 << 63) + 10, (1 << 64) - 9, (1 << 64) - 1] if tier != "quick" else [1, 5, 6, (1 << 63) + 6, (1 << 63) + 10, (1 << 64) - 1]]
    n_eval = 0
    seen_keys = set()

    def report(key, where, msg):
        if key in seen_keys:
            return
        seen_keys.add(key)
        findings.append({"key": key, "where": where, "msg": msg, "detail": None})

    def run(f, this, args, key, what):
        nonlocal n_eval
        n_eval += 1
        try:
            return True, ev.call(f, this, args)
        except OutOfBounds as x:
            report(key, "libzwerg/" + f["l"], "%s: %s (memory error)" % (what, x))
        except Thrown as x:
            report(key, "libzwerg/" + f["l"], "%s throws (%s)" % (what, x))
        return False, None
    for U in lists:
        n = len(U) - 1
        for mask in range(1 << n):
            runs = _canon(mask, U)
            for i in range(n + 1):
                for j in range(i, n + 1):
                    s, l = U[i], U[j] - U[i]
                    seg = _segmask(i, j)
                    ctx = "%s with [%#x, %#x)" % (show(runs), s, s + l)
                    c = mkcov(runs)
                    ok, _ = run(fn["add"], c, [s, l], "H7:coverage::add", "coverage::add on " + ctx)
                    if ok:
                        m, why = denote(c, U, "the result of coverage::add on " + ctx)
                        if m is None:
                            report("H7:coverage::add", "libzwerg/" + fn["add"]["l"], why)
                        elif m != mask | seg:
                            report("H7:coverage::add", "libzwerg/" + fn["add"]["l"], "coverage::add on %s gives %s, the union is %s" % (ctx, show(_canon(m, U)), show(_canon(mask | seg, U))))
                    c = mkcov(runs)
                    ok, _ = run(fn["remove"], c, [s, l], "H7:coverage::remove", "coverage::remove on " + ctx)
                    if ok:
                        m, why = denote(c, U, "the result of coverage::remove on " + ctx)
                        if m is None:
                            report("H7:coverage::remove", "libzwerg/" + fn["remove"]["l"], why)
                        elif m != mask & ~seg:
                            report("H7:coverage::remove", "libzwerg/" + fn["remove"]["l"], "coverage::remove on %s gives %s, the difference is %s" % (ctx, show(_canon(m, U)), show(_canon(mask & ~seg, U))))
                    if j == i:
                        continue
                    c = mkcov(runs)
                    ok, r = run(fn["is_covered"], c, [s, l], "H7:coverage::is_covered", "coverage::is_covered on " + ctx)
                    if ok and bool(r) != (mask & seg == seg):
                        report("H7:coverage::is_covered", "libzwerg/" + fn["is_covered"]["l"], "coverage::is_covered on %s answers %s" % (ctx, r))
                    ok, r = run(fn["is_overlap"], c, [s, l], "H7:coverage::is_overlap", "coverage::is_overlap on " + ctx)
                    if ok and bool(r) != (mask & seg != 0):
                        report("H7:coverage::is_overlap", "libzwerg/" + fn["is_overlap"]["l"], "coverage::is_overlap on %s answers %s" % (ctx, r))
                    ok, r = run(fn["intersect"], c, [s, l], "H7:coverage::intersect", "coverage::intersect on " + ctx)
                    if ok:
                        m, why = denote(r, U, "the result of coverage::intersect on " + ctx)
                        if m is None:
                            report("H7:coverage::intersect", "libzwerg/" + fn["intersect"]["l"], why)
                        elif m != mask & seg:
                            report("H7:coverage::intersect", "libzwerg/" + fn["intersect"]["l"], "coverage::intersect on %s gives %s, the intersection is %s" % (ctx, show(_canon(m, U)), show(_canon(mask & seg, U))))
                        d0, _ = denote(c, U, "")
                        if d0 != mask:
                            report("H7:coverage::intersect", "libzwerg/" + fn["intersect"]["l"], "coverage::intersect modifies the set it is applied to")
    for k in ("add", "remove", "is_covered", "is_overlap", "intersect"):
        inst.append(("H7:coverage::" + k, {"evaluations": n_eval // 5}))

    # ---- the words, on pairs of sets over the first (contiguous) list
    def word(cls, meth="operate"):
        fs = [f for f in prog.funcs.values() if f.get("cls") == cls and f["n"] == meth and f.get("body") is not None]
        if len(fs) != 1:
            raise Broken("anchor %s::%s vanished" % (cls, meth))
        return fs[0]
    U = lists[0]
    n = len(U) - 1
    idx = {b: i for i, b in enumerate(U)}
    allm = list(range(1 << n))
    binops = [("op_add_aset_aset", "add", lambda a, b: a | b), ("op_sub_aset_aset", "sub", lambda a, b: a & ~b),
              ("op_overlap_aset_aset", "overlap", lambda a, b: a & b)]
    binpreds = [("pred_containsp_aset_aset", "?contains", lambda a, b: b & ~a == 0), ("pred_overlapsp_aset_aset", "?overlaps", lambda a, b: a & b != 0)]
    n_w = 0
    for cls, w, model in binops:
        f = word(cls)
        key = "H7:word:" + w
        for a in allm:
            for b in allm:
                va, vb = VAset(mkcov(_canon(a, U)), 0), VAset(mkcov(_canon(b, U)), 0)
                ok, r = run(f, _op(ev, f), [va, vb], key, "`%s` on %s and %s" % (w, show(_canon(a, U)), show(_canon(b, U))))
                n_w += 1
                if not ok:
                    continue
                m, why = denote(r.cov, U, "the result of `%s` on %s and %s" % (w, show(_canon(a, U)), show(_canon(b, U))))
                if m is None:
                    report(key, "libzwerg/" + f["l"], why)
                elif m != model(a, b):
                    report(key, "libzwerg/" + f["l"], "`%s` on %s and %s yields %s, expected %s" % (w, show(_canon(a, U)), show(_canon(b, U)), show(_canon(m, U)), show(_canon(model(a, b), U))))
                elif r.pos != 0:
                    report(key, "libzwerg/" + f["l"], "`%s` numbers its single result %s instead of 0" % (w, r.pos))
        inst.append((key, {"class": cls, "pairs": len(allm) ** 2}))
    for cls, w, model in binpreds:
        f = word(cls, "result")
        key = "H7:word:" + w
        for a in allm:
            for b in allm:
                va, vb = VAset(mkcov(_canon(a, U)), 0), VAset(mkcov(_canon(b, U)), 0)
                ok, r = run(f, _op(ev, f), [va, vb], key, "`%s` on %s and %s" % (w, show(_canon(a, U)), show(_canon(b, U))))
                n_w += 1
                if ok:
                    got = pr(r)
                    if got != ("yes" if model(a, b) else "no"):
                        report(key, "libzwerg/" + f["l"], "`%s` on %s and %s answers %s" % (w, show(_canon(a, U)), show(_canon(b, U)), got))
                    # a predicate's operands stay on the stack: they must still denote the same sets afterwards
                    for v, m0, nm in ((va, a, "lower"), (vb, b, "upper")):
                        m1, why = denote(v.cov, U, "the %s operand of `%s` afterwards" % (nm, w))
                        if m1 != m0:
                            report(key, "libzwerg/" + f["l"], "`%s` on %s and %s changes its %s operand, which stays on the stack, to %s" % (
                                w, show(_canon(a, U)), show(_canon(b, U)), nm, why or show(_canon(m1, U))))
        inst.append((key, {"class": cls, "pairs": len(allm) ** 2}))
    # unary words and words with a constant operand
    f_len, f_low, f_high = word("op_length_aset"), word("op_low_aset"), word("op_high_aset")
    f_empty = word("pred_emptyp_aset", "result")
    f_elem, f_relem, f_range = word("op_elem_aset"), word("op_relem_aset"), word("op_range_aset")
    f_addc, f_subc, f_contc = word("op_add_aset_cst"), word("op_sub_aset_cst"), word("pred_containsp_aset_cst", "result")
    f_mk = word("op_aset_cst_cst")
    nexts = {}
    for pc in ("(anonymous namespace)::elem_aset_producer", "(anonymous namespace)::aset_range_producer"):
        fs = [f for f in prog.funcs.values() if f.get("cls") == pc and f["n"] == "next" and f.get("body") is not None]
        if len(fs) != 1:
            raise Broken("anchor %s::next vanished" % pc)
        nexts[pc] = fs[0]

    def drain(prod, nx, key, what):
        out = []
        for _ in range(200):
            ok, v = run(nx, prod, [], key, what)
            if not ok:
                return None
            if v is None:
                return out
            out.append(v)
        report(key, "libzwerg/" + nx["l"], "%s does not terminate" % what)
        return None
    for a in allm:
        runs = _canon(a, U)
        members = [U[i] for i in range(n) if a >> i & 1]      # contiguous list: one address per segment
        sa = show(runs)
        mk = lambda: VAset(mkcov(runs), 0)
        ok, r = run(f_len, _op(ev, f_len), [mk()], "H7:word:length", "`length` on " + sa)
        if ok and (r.c.v != len(members) or r.pos != 0 or r.c.dom != "dec"):
            report("H7:word:length", "libzwerg/" + f_len["l"], "`length` on %s yields %s (domain %s, pos %s); the set has %d addresses" % (sa, r.c.v, r.c.dom, r.pos, len(members)))
        ok, r = run(f_low, _op(ev, f_low), [mk()], "H7:word:low", "`low` on " + sa)
        if ok and ((r is None) != (not members) or (r is not None and (r.c.v != members[0] or r.pos != 0))):
            report("H7:word:low", "libzwerg/" + f_low["l"], "`low` on %s yields %s" % (sa, None if r is None else hex(r.c.v)))
        ok, r = run(f_high, _op(ev, f_high), [mk()], "H7:word:high", "`high` on " + sa)
        if ok and ((r is None) != (not members) or (r is not None and (r.c.v != members[-1] + 1 or r.pos != 0))):
            report("H7:word:high", "libzwerg/" + f_high["l"], "`high` on %s yields %s" % (sa, None if r is None else hex(r.c.v)))
        vs = mk()
        ok, r = run(f_empty, _op(ev, f_empty), [vs], "H7:word:?empty", "`?empty` on " + sa)
        if ok and denote(vs.cov, U, "")[0] != a:
            report("H7:word:?empty", "libzwerg/" + f_empty["l"], "`?empty` on %s changes the set, which stays on the stack" % sa)
        if ok and pr(r) != ("yes" if not members else "no"):
            report("H7:word:?empty", "libzwerg/" + f_empty["l"], "`?empty` on %s answers %s" % (sa, r))
        for f_e, w, want in ((f_elem, "elem", members), (f_relem, "relem", members[::-1])):
            ok, p = run(f_e, _op(ev, f_e), [mk()], "H7:word:" + w, "`%s` on %s" % (w, sa))
            if not ok:
                continue
            vals = drain(p, nexts["(anonymous namespace)::elem_aset_producer"], "H7:word:" + w, "`%s` on %s" % (w, sa))
            if vals is None:
                continue
            got = [v.c.v for v in vals]
            if got != want or [v.pos for v in vals] != list(range(len(vals))):
                report("H7:word:" + w, "libzwerg/" + nexts["(anonymous namespace)::elem_aset_producer"]["l"],
                       "`%s` on %s yields %s numbered %s; expected %s numbered from 0" % (w, sa, [hex(x) for x in got], [v.pos for v in vals], [hex(x) for x in want]))
        ok, p = run(f_range, _op(ev, f_range), [mk()], "H7:word:range", "`range` on " + sa)
        if ok:
            vals = drain(p, nexts["(anonymous namespace)::aset_range_producer"], "H7:word:range", "`range` on " + sa)
            if vals is not None:
                got = [[(r.start, r.length) for r in v.cov.items] for v in vals]
                if got != [[r] for r in runs] or [v.pos for v in vals] != list(range(len(vals))):
                    report("H7:word:range", "libzwerg/" + nexts["(anonymous namespace)::aset_range_producer"]["l"],
                           "`range` on %s yields %s; expected its maximal runs in ascending order, numbered from 0" % (sa, got))
        for x in U[:-1]:
            bit = 1 << idx[x]
            cst = lambda: VCst(Cst(x, "address"), 0)
            ok, r = run(f_addc, _op(ev, f_addc), [mk(), cst()], "H7:word:add-cst", "`add` of %#x to %s" % (x, sa))
            if ok:
                m, why = denote(r.cov, U, "the result of `add` of %#x to %s" % (x, sa))
                if m is None or m != a | bit:
                    report("H7:word:add-cst", "libzwerg/" + f_addc["l"], why or "`add` of %#x to %s yields %s" % (x, sa, show(_canon(m, U))))
            ok, r = run(f_subc, _op(ev, f_subc), [mk(), cst()], "H7:word:sub-cst", "`sub` of %#x from %s" % (x, sa))
            if ok:
                m, why = denote(r.cov, U, "the result of `sub` of %#x from %s" % (x, sa))
                if m is None or m != a & ~bit:
                    report("H7:word:sub-cst", "libzwerg/" + f_subc["l"], why or "`sub` of %#x from %s yields %s" % (x, sa, show(_canon(m, U))))
            vs = mk()
            ok, r = run(f_contc, _op(ev, f_contc), [vs, cst()], "H7:word:?contains-cst", "`?contains` %#x on %s" % (x, sa))
            if ok and pr(r) != ("yes" if a & bit else "no"):
                report("H7:word:?contains-cst", "libzwerg/" + f_contc["l"], "`?contains` %#x on %s answers %s" % (x, sa, r))
            if ok and denote(vs.cov, U, "")[0] != a:
                report("H7:word:?contains-cst", "libzwerg/" + f_contc["l"], "`?contains` %#x on %s changes the set, which stays on the stack" % (x, sa))
    for x in U:
        for y in U:
            ok, r = run(f_mk, _op(ev, f_mk), [VCst(Cst(x, "address"), 0), VCst(Cst(y, "address"), 0)], "H7:word:aset", "`aset` of %#x and %#x" % (x, y))
            if ok:
                lo, hi = min(x, y), max(x, y)
                m, why = denote(r.cov, U, "`%#x %#x aset`" % (x, y))
                if m is None or m != _segmask(idx[lo], idx[hi]) or r.pos != 0:
                    report("H7:word:aset", "libzwerg/" + f_mk["l"], why or "`%#x %#x aset` yields %s instead of [%#x, %#x)" % (x, y, show(_canon(m, U)), lo, hi))
    for w in ("length", "low", "high", "?empty", "elem", "relem", "range", "add-cst", "sub-cst", "?contains-cst", "aset"):
        inst.append(("H7:word:" + w, {"sets": len(allm)}))
    # `aset` on constants of any domain and sign: op_aset_cst_cst::operate together with addressify and the comparison operators of
    # `constant` they use, interpreted from source on constants of plain, radix and named (non-arithmetic) domains, negative values
    # included, under both address orders of the domain objects: the set is [min, max) of the two values clamped at 0, whatever the
    # domains (a warning is printed for unsuitable constants, the operation still succeeds).
    import itertools
    import r_order
    from cxxobj import OStream
    dec = r_order.Dom("dec", True)
    hexd = r_order.Dom("hex", True)
    n1 = r_order.Dom("N1", False)
    n2 = r_order.Dom("N2", False)
    doms2 = [dec, hexd, n1, n2]
    hooks2 = dict(hooks)
    hooks2.pop("(anonymous namespace)::addressify", None)
    hooks2.update({
        "constant::dom": lambda ev_, o, a: o.dom,
        "constant::value": lambda ev_, o, a: o.value,
        "constant::brevity": lambda ev_, o, a: 0,
        "zw_cdom::safe_arith": lambda ev_, o, a: o.arith,
        "constant_dom::safe_arith": lambda ev_, o, a: o.arith,
        "zw_cdom::most_enclosing": lambda ev_, o, a: o.enclosing(a[0]),
        "constant_dom::most_enclosing": lambda ev_, o, a: o.enclosing(a[0]),
        "zw_cdom::show": lambda ev_, o, a: a[1].put(Ptr_str(o.name)) and None,
        "constant_dom::show": lambda ev_, o, a: a[1].put(Ptr_str(o.name)) and None,
        "ctor:std::less<*": lambda ev_, o, a: (lambda ev2_, args: (0 if args[0] is None else args[0].addr) < (0 if args[1] is None else args[1].addr)),
        "ctor:mpz_class": lambda ev_, o, a: a[0] if a else 0,
        "ctor:constant": lambda ev_, o, a: a[0] if len(a) == 1 else r_order.Const(a[1], a[0]),
        "operator<<": None,
    })
    hooks2.pop("operator<<", None)

    def rel(opname, pyop):
        def h(ev_, o, a):
            l, r = (o, a[0]) if o is not None and len(a) == 1 else (a[0], a[1])
            if isinstance(l, int) and isinstance(r, int):
                return pyop(l, r)
            f_ = prog.func_opt("constant::" + opname)
            if f_ is None or not isinstance(l, r_order.Const):
                raise Broken("%s on operands the address-set model does not know" % opname)
            return ev_.call(f_, l, [r])
        return h
    hooks2["operator>"] = rel("operator>", lambda x, y: x > y)
    hooks2["operator<"] = rel("operator<", lambda x, y: x < y)
    from cxxobj import StdStr

    def Ptr_str(txt):
        return StdStr(txt.encode())
    cerr = OStream()
    ev2 = CxxEvaluator(hooks2, {"dec_constant_dom": dec, "std::cerr": cerr}, prog=prog, structs={"cov_range": ["start", "length"]},
                       defaults={"coverage": lambda: mkcov([])})
    key = "H7:word:aset-any-constant"
    n_mk = 0
    bad_mk = None
    for da, db in itertools.product(doms2, repeat=2):
        for x, y in itertools.product((-2, 0, 1, 3, 5), repeat=2):
            for order in ((da, db), (db, da)):
                for i, d in enumerate(dict.fromkeys(list(order) + [dec, hexd, n1, n2])):
                    d.addr = 1000 + i
                ca, cb = r_order.Const(da, x), r_order.Const(db, y)
                for c_ in (ca, cb):
                    c_.m_dom, c_.m_value, c_.m_brv = c_.dom, c_.value, 0
                    c_._cls = "constant"          # its comparison operators are interpreted from constant.cc
                ev2.steps = 0
                try:
                    r = ev2.call(f_mk, _op(ev2, f_mk), [VCst(ca, 0), VCst(cb, 0)])
                except OutOfBounds as x_:
                    bad_mk = bad_mk or "`aset` of %r and %r: %s" % (ca, cb, x_)
                    continue
                except Thrown as x_:
                    bad_mk = bad_mk or "`aset` of %r and %r raises an error (%s)" % (ca, cb, x_)
                    continue
                n_mk += 1
                lo, hi = sorted((max(x, 0), max(y, 0)))
                got = [(r_.start, r_.length) for r_ in r.cov.items]
                want = [(lo, hi - lo)] if hi > lo else []
                if got != want and bad_mk is None:
                    bad_mk = "`%r %r aset` yields the runs %s; expected %s (the interval between the two values, in either order, negative values clamped to 0)" % (
                        ca, cb, [(hex(s_), l_) for s_, l_ in got], want)
    inst.append((key, {"evaluations": n_mk}))
    if bad_mk:
        report(key, "libzwerg/" + f_mk["l"], bad_mk)
    # equality: value_aset::cmp answers equal exactly for equal canonical forms
    fc = prog.func_opt("value_aset::cmp")
    if fc is None:
        raise Broken("anchor value_aset::cmp vanished")
    cmp_fns = {f["n"]: f for f in prog.funcs.values() if f["q"].startswith("compare<") or f["q"] == "compare"}
    hooks["zw_value::as<value_aset>"] = lambda ev, o, a: a[0] if isinstance(a[0], VAset) else None
    ev.hooks.update(hooks)

    class VA2(VAset):
        pass
    rel = {}
    for a in allm:
        for b in allm:
            va, vb = VAset(mkcov(_canon(a, U)), 0), VAset(mkcov(_canon(b, U)), 0)
            ok, r = run(fc, va, [vb], "H7:value_aset::cmp", "value_aset::cmp on %s and %s" % (show(_canon(a, U)), show(_canon(b, U))))
            if not ok:
                break
            rel[(a, b)] = r[1] if isinstance(r, tuple) else r
            if (rel[(a, b)] == "equal") != (a == b):
                report("H7:value_aset::cmp", "libzwerg/" + fc["l"], "value_aset::cmp answers `%s` for %s and %s: two address sets must compare equal exactly when they denote the same set" % (rel[(a, b)], show(_canon(a, U)), show(_canon(b, U))))
    for (a, b), r in rel.items():
        back = rel.get((b, a))
        if back is not None and {"less": "greater", "greater": "less", "equal": "equal"}.get(r) != back:
            report("H7:value_aset::cmp", "libzwerg/" + fc["l"], "value_aset::cmp is not antisymmetric on %s and %s (%s / %s)" % (show(_canon(a, U)), show(_canon(b, U)), r, back))
    if len(rel) == len(allm) ** 2:
        done = False
        for a in allm:
            for b in allm:
                if done or rel[(a, b)] != "less":
                    continue
                for c in allm:
                    if rel[(b, c)] == "less" and rel[(a, c)] != "less":
                        report("H7:value_aset::cmp", "libzwerg/" + fc["l"], "value_aset::cmp is not transitive: %s < %s < %s but the first compares `%s` with the last" % (
                            show(_canon(a, U)), show(_canon(b, U)), show(_canon(c, U)), rel[(a, c)]))
                        done = True
                        break
    inst.append(("H7:value_aset::cmp", {"pairs": len(rel)}))
    return inst, findings


_OPS = {}


def _op(ev, f):
    """one operator object per word and evaluator, reused for every input (as a compiled query reuses it for every stack)"""
    k = (id(ev), f["fid"])
    if k not in _OPS:
        _OPS[k] = ev.new_object(f.get("cls") or "op")
    return _OPS[k]
