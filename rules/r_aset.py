"""Address-set rules (C16): H1 the range vector is mutated only inside coverage, H3 each word calls the documented set operation."""
from zw import walk, walk_nolambda, unwrap, short, Broken, calls
from r_tables import expand_calls, strval

COV_OPS = {"add", "remove", "add_all", "remove_all", "intersect", "is_covered", "is_overlap", "empty", "find_ranges", "find_holes"}
# frozen from the docstrings of builtin-aset.cc / doc: class -> set operations it must (and may only) use
H3_TABLE = {
    "op_add_aset_cst": {"add"}, "op_add_aset_aset": {"add_all"},
    "op_sub_aset_cst": {"remove"}, "op_sub_aset_aset": {"remove_all"},
    "op_overlap_aset_aset": {"intersect", "add_all"},
    "pred_containsp_aset_cst": {"is_covered"}, "pred_containsp_aset_aset": {"is_covered"},
    "pred_overlapsp_aset_aset": {"is_overlap"}, "pred_emptyp_aset": {"empty"},
}
WORD_CLASSES = {
    "add": {"op_add_aset_cst", "op_add_aset_aset"}, "sub": {"op_sub_aset_cst", "op_sub_aset_aset"},
    "overlap": {"op_overlap_aset_aset"}, "?contains": {"pred_containsp_aset_cst", "pred_containsp_aset_aset"},
    "?overlaps": {"pred_overlapsp_aset_aset"}, "?empty": {"pred_emptyp_aset"},
    "low": {"op_low_aset"}, "high": {"op_high_aset"}, "length": {"op_length_aset"}, "range": {"op_range_aset"},
    "elem": {"op_elem_aset"}, "relem": {"op_relem_aset"},
}


def h3(prog):
    inst, findings = [], []
    for cls, want in sorted(H3_TABLE.items()):
        fs = [f for f in prog.funcs.values() if f.get("cls") == cls and f["n"] in ("operate", "result")]
        if len(fs) != 1:
            raise Broken("anchor %s::operate/result vanished" % cls)
        f = fs[0]
        used = {c["fn"] for c in calls(f["body"]) if c.get("cls") in ("coverage",) or
                (c.get("fn") in COV_OPS and c.get("obj") is not None and "coverage" in (unwrap(c["obj"]) or {}).get("t", "") )}
        used |= {c["fn"] for c in calls(f["body"]) if c.get("fn") == "empty" and "cov_range" in c.get("cls", "")}
        used &= COV_OPS
        key = "H3:" + cls
        inst.append((key, {"uses": sorted(used), "documented": sorted(want)}))
        if used != want:
            findings.append({"key": key, "where": f["l"],
                             "msg": "%s implements its word with coverage::{%s}; the documented set operation is {%s}" % (cls, ", ".join(sorted(used)), ", ".join(sorted(want))),
                             "detail": None})
    # registration: word -> overload classes on address sets
    reg = {}
    for f in prog.funcs.values():
        body = f.get("body")
        if body is None or not f["n"].startswith("dwgrep_vocabulary"):
            continue
        for b in walk(body):
            if b.get("k") != "block":
                continue
            words = []
            classes = set()
            for st in b["s"]:
                if st.get("k") == "block":
                    continue        # nested registration groups are handled on their own
                for c in calls(st, lambdas=False):
                    if c.get("fn") in ("add_op_overload", "add_pred_overload") and c.get("targs"):
                        classes.add(c["targs"][0])
                    if c.get("f", "").startswith(("std::make_shared<overloaded_op_builtin", "std::make_shared<overloaded_pred_builtin")):
                        w = strval(c["a"][0])
                        if w:
                            words.append(w)
            if words and classes:
                for w in words:
                    reg.setdefault(w, set()).update(c for c in classes)
    for w, want in sorted(WORD_CLASSES.items()):
        got = {c for c in reg.get(w, set()) if "aset" in c}
        key = "H3:word:" + w
        inst.append((key, {"registered_aset_overloads": sorted(got)}))
        if got != want:
            findings.append({"key": key, "where": "libzwerg/builtin-dw-voc.cc",
                             "msg": "word `%s` is registered on address sets with %s, expected %s" % (w, sorted(got), sorted(want)), "detail": None})
    return inst, findings


def h1(prog):
    inst, findings = [], []
    n = 0
    for f in prog.funcs.values():
        if f.get("cls") == "coverage":
            continue
        body = f.get("body")
        if body is None:
            continue
        parent = {}

        def rec(node, par):
            if isinstance(node, list):
                for x in node:
                    rec(x, par)
                return
            if not isinstance(node, dict):
                return
            parent[id(node)] = par
            for v in node.values():
                if isinstance(v, (dict, list)):
                    rec(v, node)
        accesses = []
        for c in walk(body):
            if c.get("k") == "call" and c.get("fn") in ("at", "front", "back", "operator[]", "begin", "end", "data") and \
               "cov_range" in c.get("cls", "") and c.get("obj") is not None and "coverage" in (unwrap(c["obj"]) or {}).get("t", "coverage" if (unwrap(c["obj"]) or {}).get("fn") == "get_coverage" else ""):
                accesses.append(c)
        if not accesses:
            continue
        rec(body, None)
        for c in accesses:
            n += 1
            cur = c
            written = None
            for _ in range(6):
                par = parent.get(id(cur))
                if par is None:
                    break
                k = par.get("k")
                if k == "asg" and par.get("lhs") is cur:
                    written = "assigned"
                    break
                if k == "un" and par.get("op") in ("++", "--"):
                    written = "incremented"
                    break
                if k == "call" and par.get("op") in ("=", "+=", "-=", "++", "--") and par["a"] and par["a"][0] is cur:
                    written = "assigned"
                    break
                if k in ("mem", "cast", "ctor", "un"):
                    cur = par
                    continue
                if k == "decl" or ("init" in par and "id" in par):
                    t = par.get("t", "")
                    if t.endswith("&") and "const" not in t:
                        written = "bound to a non-const reference `%s`" % par.get("n")
                    break
                break
            key = "H1:%s@%s" % (f["q"], c["l"])
            inst.append((key, {"access": c["fn"], "written": written}))
            if written:
                findings.append({"key": "H1:%s" % f["q"], "where": c["l"],
                                 "msg": "%s writes a range of an address set in place through coverage::%s (%s): the sorted/disjoint/non-adjacent canonical form is only maintained inside coverage's own members" % (f["q"], c["fn"], written),
                                 "detail": None})
    if n < 15:
        raise Broken("only %d range accesses outside coverage found (floor 15)" % n)
    return inst, findings


def h4(prog):
    """addresses are ordered by comparing them, never by the sign of their (wrapping) difference"""
    inst, findings = [], []
    n_cmp = 0
    for f in prog.funcs.values():
        rel = prog.rel(f["file"])
        if not rel.startswith(("libzwerg/coverage", "libzwerg/builtin-aset", "libzwerg/value-aset")):
            continue
        body = f.get("body")
        if body is None:
            continue
        # direct comparisons of unsigned addresses (instances)
        for x in walk(body):
            if x.get("k") == "bin" and x.get("op") in ("<", ">", "<=", ">="):
                n_cmp += 1
        # signed variables initialised from a difference of unsigned 64-bit values and then sign-tested
        signed_diff = {}
        for x in walk(body):
            if x.get("k") == "decl":
                for v in x["vars"]:
                    t = v.get("t", "")
                    if t in ("long", "const long", "long long", "int", "const int") and v.get("init") is not None:
                        for y in walk(v["init"]):
                            if y.get("k") == "bin" and y.get("op") == "-":
                                signed_diff[v["id"]] = (v, y)
        for x in walk(body):
            if x.get("k") == "bin" and x.get("op") in ("<", ">", "<=", ">="):
                l, r = unwrap(x["lhs"]), unwrap(x["rhs"])
                for a, b in ((l, r), (r, l)):
                    if isinstance(a, dict) and a.get("k") == "ref" and a.get("id") in signed_diff and isinstance(b, dict) and b.get("k") == "int" and b["v"] == 0:
                        v, y = signed_diff[a["id"]]
                        findings.append({"key": "H4:%s:%s" % (f["q"], v["n"]), "where": x.get("l") or f["l"],
                                         "msg": "%s orders two addresses by the sign of their difference (`%s = %s`): for addresses 2^63 or more apart the sign is wrong, so ranges are searched/merged on the wrong side" % (f["q"], v["n"], short(y)[:50]),
                                         "detail": None})
                # (int64_t)(a - b) < 0 written inline
                for a, b in ((x["lhs"], r), (x["rhs"], l)):
                    if isinstance(a, dict) and a.get("k") == "cast" and a.get("t") in ("int64_t", "long", "long long", "ssize_t", "ptrdiff_t", "int") and \
                       any(y.get("k") == "bin" and y.get("op") == "-" for y in walk(a)) and isinstance(b, dict) and b.get("k") == "int" and b["v"] == 0:
                        findings.append({"key": "H4:%s:cast" % f["q"], "where": x.get("l") or f["l"],
                                         "msg": "%s orders two addresses by the sign of a casted difference `%s`" % (f["q"], short(a)[:50]), "detail": None})
    inst.append(("H4:address-comparisons", {"relational_comparisons_in_address_set_code": n_cmp}))
    if n_cmp < 20:
        raise Broken("fewer address comparisons than confirmed by hand (20): %d" % n_cmp)
    return inst, findings


def h5(prog):
    """every piece coverage::intersect adds to its result is clipped by BOTH the stored range and the queried range:
    its length expression depends on the query's extent (derived from the `length` parameter) and on a stored range"""
    inst, findings = [], []
    f = prog.func_opt("coverage::intersect")
    if f is None:
        raise Broken("anchor coverage::intersect vanished")
    ps = {p["n"]: p["id"] for p in f["params"]}
    if "length" not in ps or "start" not in ps:
        raise Broken("coverage::intersect no longer takes (start, length)")
    tainted = {ps["length"]}
    decls = [v for x in walk(f["body"]) if x.get("k") == "decl" for v in x["vars"]]
    changed = True
    while changed:
        changed = False
        for v in decls:
            if v["id"] not in tainted and v.get("init") is not None and any(y.get("k") == "ref" and y.get("id") in tainted for y in walk(v["init"])):
                tainted.add(v["id"])
                changed = True
    adds = [c for c in calls(f["body"]) if c.get("fn") == "add" and c.get("cls") == "coverage" and len(c["a"]) == 2]
    if len(adds) < 2:
        raise Broken("coverage::intersect no longer builds its result with coverage::add (unmodelled shape)")
    for c in adds:
        L = c["a"][1]
        dep_query = any(y.get("k") == "ref" and y.get("id") in tainted for y in walk(L))
        dep_range = any(y.get("k") == "mem" and y["n"] in ("start", "length") for y in walk(L)) or \
            any(y.get("k") == "ref" and y.get("d") == "local" and y.get("id") not in tainted and y.get("id") not in ps.values() for y in walk(L))
        key = "H5:coverage::intersect@%s" % c["l"]
        inst.append((key, {"length": short(L)[:70], "clipped_by_query": dep_query, "clipped_by_range": dep_range}))
        if not dep_query:
            findings.append({"key": "H5:coverage::intersect:%s" % ("prev" if "j" in short(L) else c["l"]), "where": "libzwerg/" + c["l"],
                             "msg": "coverage::intersect adds `%s` addresses without clipping to the end of the queried range: the piece taken from a stored range that begins before the query extends past the query (`1 10 aset 2 3 aset overlap` yields [2, 10) instead of [2, 3))" % short(L)[:60],
                             "detail": None})
    return inst, findings


def h6(prog):
    """coverage::remove may stop after trimming the range that contains `start` only when the removed interval ENDS inside that
    range (the hole case); otherwise the following ranges must still be examined"""
    from cfg import CFG
    inst, findings = [], []
    f = prog.func_opt("coverage::remove")
    if f is None:
        raise Broken("anchor coverage::remove vanished")
    ps = {p["n"]: p["id"] for p in f["params"]}
    if "length" not in ps:
        raise Broken("coverage::remove no longer takes (start, length)")
    tainted = {ps["length"]}
    decls = [v for x in walk(f["body"]) if x.get("k") == "decl" for v in x["vars"]]
    changed = True
    while changed:
        changed = False
        for v in decls:
            if v["id"] not in tainted and v.get("init") is not None and any(y.get("k") == "ref" and y.get("id") in tainted for y in walk(v["init"])) \
               and v.get("t") in ("unsigned long", "const unsigned long"):
                tainted.add(v["id"])
                changed = True
    g = CFG(f)
    loops = [x for x in walk(f["body"]) if x.get("k") in ("while", "for")]
    if not loops:
        raise Broken("coverage::remove no longer walks the following ranges with a loop (unmodelled shape)")
    loop_ids = {id(y) for lp in loops for y in walk(lp)}
    loop_nodes = {n.id for n in g.nodes if isinstance(n.ast, dict) and (id(n.ast) in loop_ids or any(id(y) in loop_ids for y in walk_nolambda(n.ast)))}

    def ends_inside_edge(n, lab):
        """True edge of `a_end < r_end` / `r_end > a_end`: the removed interval ends inside the stored range"""
        if n.kind != "cond" or not isinstance(n.ast, dict):
            return False
        c = unwrap(n.ast)
        if c.get("k") != "bin" or c.get("op") not in ("<", ">", "<=", ">="):
            return False
        l, r = unwrap(c["lhs"]), unwrap(c["rhs"])
        lt = isinstance(l, dict) and l.get("k") == "ref" and l.get("id") in tainted
        rt = isinstance(r, dict) and r.get("k") == "ref" and r.get("id") in tainted
        if lt == rt:
            return False
        if (lt and c["op"] in ("<",)) or (rt and c["op"] in (">",)):
            return lab is True
        if (lt and c["op"] in (">=",)) or (rt and c["op"] in ("<=",)):
            return lab is False
        return False

    def guard_edge(n, lab):
        """the initial guard: empty set or zero length"""
        if n.kind != "cond" or not isinstance(n.ast, dict):
            return False
        c = unwrap(n.ast)
        if c.get("k") == "call" and c.get("fn") == "empty" and lab is True:
            return True
        if c.get("k") == "bin" and c.get("op") == "==" and any(isinstance(unwrap(z), dict) and unwrap(z).get("id") == ps["length"] for z in (c["lhs"], c["rhs"])) and lab is True:
            return True
        return False
    reach = g.reachable(avoid=lambda n: n.id in loop_nodes,
                        edge_ok=lambda n, t, lab: not ends_inside_edge(n, lab) and not guard_edge(n, lab))
    bad = [n for n in g.nodes if n.id in reach and n.kind == "ret" and n.id not in loop_nodes]
    inst.append(("H6:coverage::remove", {"early_returns_outside_hole_case": [n.loc for n in bad]}))
    if bad:
        findings.append({"key": "H6:coverage::remove", "where": "libzwerg/" + (bad[0].loc or f["l"]),
                         "msg": "coverage::remove returns at %s before looking at the following ranges although the removed interval need not end inside the first range: `sub` then leaves members of the subtrahend in later runs" % bad[0].loc,
                         "detail": None})
    return inst, findings
