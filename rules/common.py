import os


def apply(rep, rid, what, res, floor=0):
    """res = (instances[(key, info)], findings[...]) ; an instance whose key equals/prefixes a finding key is not discharged"""
    rep.rule(rid, what)
    inst, findings = res[0], res[1]
    bad = [f["key"] for f in findings]
    for key, info in inst:
        k0 = key.split("(")[0]
        if any(k0 == b or key == b or b.startswith(key + ":") for b in bad):
            continue
        rep.ok(rid, {"instance": key, "info": info})
    for f in findings:
        rep.fail(rid, f["key"], f["where"], f["msg"], f.get("detail"))
    if floor:
        rep.floor(rid, floor)


def maybe_mutants(prop, rep, tier):
    if tier == "thorough" and not os.environ.get("VERIF_NO_MUTANTS"):
        import mutants
        mutants.run_mutants(prop, rep)
