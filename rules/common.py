import os


def apply(rep, rid, what, res, floor=0):
    """res = (instances[(key, info)], findings[...]) ; an instance whose key equals/prefixes a finding key is not discharged"""
    rep.rule(rid, what)
    if getattr(res, "broken", None):
        rep.broken.append((rid, res.broken))
        return
    inst, findings = res[0], res[1]
    bad = [f["key"] for f in findings]
    for key, info in inst:
        k0 = key.split("(")[0]
        if any(k0 == b or key == b or b.startswith(key + ":") for b in bad):
            continue
        rep.ok(rid, {"instance": key, "info": info})
    for f in findings:
        rep.fail(rid, f["key"], f["where"], f["msg"], f.get("detail"))
    if floor:
        rep.floor(rid, floor)


def maybe_mutants(prop, rep, tier):
    if tier == "thorough" and not os.environ.get("VERIF_NO_MUTANTS"):
        import mutants
        mutants.run_mutants(prop, rep)

_ctl = [None]


def control_prog():
    import zw
    if _ctl[0] is None:
        _ctl[0] = zw.Program(controls=True)
    return _ctl[0]


def control(rep, rid, rulefn, expect):
    """positive control: the rule run on /verif/controls must report every key in `expect`"""
    from zw import Broken
    res = rulefn(control_prog())
    keys = [f["key"] for f in res[1]]
    missing = [e for e in expect if not any(e in k for k in keys)]
    if missing:
        raise Broken("positive control for rule %s not detected: %s (reported: %s)" % (rid, missing, keys))
    rep.notes.append("positive control for %s detected: %s" % (rid, ", ".join(expect)))
