"""E11: the whole pipeline from query text to results, interpreted, against the documented meaning of the notation.

A family of surface terms (my own abstract syntax of Zwerg: juxtaposition, `,`, `||`, infix assertions, suffixes `* + ?`, `w: E`,
if-then-else, parentheses with and without binding blocks, `?( )`/`!( )`, `[ ]`, `{ }`, `let`, integer and string literals with
`%s`/`%( %)`) is printed as query text with the fewest parentheses the documented precedence allows (doc/syntax.rst), and
translated - independently of the repository - into the core constructs whose reference semantics lib/zwengine.py implements.
The text then goes through the repository's front end without running any of it: scanner simulation (lib/flexsim.py), the LALR
automaton bison generated from parser.yy with every semantic action interpreted (lib/lalr.py), tree::simplify interpreted, build_exec
and the op engine interpreted (lib/zwengine.py).  The stacks that come out must be the reference's, in order.

What a violation means: a query text no longer means what the documentation says it means - a precedence or grouping changed, a
piece of sugar expands to something else, a binding block binds in another order or scope, a literal denotes another value."""
from zw import Broken

LEAVES = {
    "pa": ("push", "a"), "pb": ("push", "b"), "pc": ("push", "c"), "p1": ("push", "1"),
    "tw": ("twice", "t"), "fail": ("fail",), "inc2": ("inc", 2), "apply": ("apply",), "flip": ("flip",),
    "?a": ("top?", "a"), "?b": ("top?", "b"), "==": ("eq2?",), "!=": ("ne2?",),
}


# ---- printing with minimal parentheses: levels alt(0) < or(1) < infix(2) < cat(3) < statement(4)
def _level(t):
    k = t[0]
    if k == "alt":
        return 0
    if k == "or":
        return 1
    if k == "infix":
        return 2
    if k == "cat":
        return 3 if len(t[1]) != 1 else _level(t[1][0])
    return 4


def _ids(ids):
    return ("|" + " ".join(ids) + "| ") if ids else ""


def text(t, need=0):
    """query text of a surface term; `need` is the lowest level allowed at this position"""
    k = t[0]
    if k == "w":
        s = t[1]
    elif k == "int":
        s = t[1]
    elif k == "str":
        s = '"' + "".join(p if isinstance(p, str) else ("%s" if p == ("cat", []) else "%( " + text(p) + " %)") for p in t[1]) + '"'
    elif k == "cat":
        s = " ".join(text(x, 4) for x in t[1])
    elif k == "alt":
        s = ", ".join(text(x, 1) for x in t[1])
    elif k == "or":
        s = " || ".join(text(x, 2) for x in t[1])
    elif k == "infix":
        s = (text(t[1], 3) + " " + t[2] + " " + text(t[3], 3)).strip()
    elif k == "paren":
        s = "(" + _ids(t[1]) + text(t[2]) + ")"
    elif k in ("?(", "!("):
        s = k + _ids(t[1]) + text(t[2]) + ")"
    elif k == "cap":
        # `[]` is the empty-list literal; a capture of the empty program has to be written `[()]`
        s = "[" + _ids(t[1]) + (text(t[2]) or "()") + "]"
    elif k == "empty":
        s = "[]"
    elif k == "block":
        s = "{" + _ids(t[1]) + text(t[2]) + "}"
    elif k == "let":
        s = "let " + " ".join(t[1]) + " := " + text(t[2]) + ";"
    elif k in ("star", "plus", "opt"):
        s = text(t[1], 4) + {"star": "*", "plus": "+", "opt": "?"}[k]
    elif k == "if":
        s = "if " + text(t[1], 4) + " then " + text(t[2], 4) + " else " + text(t[3], 4)
    elif k == "colon":
        s = t[1] + ": " + text(t[2], 4)
    else:
        raise Broken("surface term %s" % k)
    if _level(t) < need:
        s = "(" + s + ")"
    return s


# ---- documented meaning
def _binds(ids):
    # the rightmost identifier takes the top of the stack
    return [("BIND", n) for n in reversed(ids)]


def _seq(items):
    items = [x for x in items]
    if not items:
        return ("NOP",)
    return ("CAT",) + tuple(items) if len(items) > 1 else items[0]


def meaning(t):
    k = t[0]
    S = lambda x: ("SCOPE", x)
    if k == "w":
        return ("READ", t[1])
    if k == "int":
        return ("push", str(int(t[1].replace("0o", "0o") if not (len(t[1].lstrip("-")) > 1 and t[1].lstrip("-")[0] == "0" and t[1].lstrip("-")[1].isdigit()) else
                                ("-" if t[1][0] == "-" else "") + "0o" + t[1].lstrip("-")[1:], 0)))
    if k == "str":
        return ("FORMAT",) + tuple(p if isinstance(p, str) else meaning(p) for p in t[1])
    if k == "cat":
        return _seq([meaning(x) for x in t[1]])
    if k == "alt":
        return ("ALT",) + tuple(meaning(x) for x in t[1])
    if k == "or":
        return ("OR",) + tuple(meaning(x) for x in t[1])
    if k == "infix":
        return ("?", ("CAT", ("SUBX", 1, S(meaning(t[1]))), ("BIND", ".tmp1"), ("SUBX", 1, S(meaning(t[3]))), ("BIND", ".tmp2"),
                      ("READ", ".tmp1"), ("READ", ".tmp2"), ("READ", t[2])))
    if k == "paren":
        return S(_seq(_binds(t[1]) + [meaning(t[2])])) if t[1] else meaning(t[2])
    if k in ("?(", "!("):
        return (k[0], _seq(_binds(t[1]) + [meaning(t[2])]))
    if k == "cap":
        c = ("CAPTURE", S(meaning(t[2])))
        return S(_seq(_binds(t[1]) + [c])) if t[1] else c
    if k == "empty":
        return ("CAPTURE", S(("fail",)))
    if k == "block":
        return ("BLOCK", _seq(_binds(t[1]) + [meaning(t[2])]))
    if k == "let":
        return _seq([("SUBX", len(t[1]), S(meaning(t[2])))] + _binds(t[1]))
    if k == "star":
        return ("CLOSE_STAR", S(meaning(t[1])))
    if k == "plus":
        return ("CLOSE_PLUS", S(meaning(t[1])))
    if k == "opt":
        return ("ALT", meaning(t[1]), ("NOP",))
    if k == "if":
        return ("IFELSE", S(meaning(t[1])), S(meaning(t[2])), S(meaning(t[3])))
    if k == "colon":
        return _seq([meaning(t[2]), ("READ", t[1])])
    raise Broken("surface term %s" % k)


# ---- the family
def W(n):
    return ("w", n)


def cat(*xs):
    return ("cat", list(xs))


def alt(*xs):
    return ("alt", list(xs))


def orl(*xs):
    return ("or", list(xs))


def family(tier):
    pa, pb, pc, tw, fail, drop, p1, qa, qb = W("pa"), W("pb"), W("pc"), W("tw"), W("fail"), W("bdrop"), W("p1"), W("?a"), W("?b")
    fam = {}

    def add(group, *ts):
        fam.setdefault(group, []).extend(ts)
    # precedence: every pair of binary notations over observable leaves, in both groupings
    binops = {
        "cat": lambda x, y: cat(x, y), "alt": lambda x, y: alt(x, y), "or": lambda x, y: orl(x, y),
        "eq": lambda x, y: ("infix", x, "==", y), "ne": lambda x, y: ("infix", x, "!=", y),
    }
    triples = [(pa, fail, tw), (tw, pa, fail), (fail, tw, pb), (pa, pa, pb), (tw, pb, pa), (pa, tw, drop)]
    if tier != "thorough":
        triples = triples[:3]
    for n1, f1 in binops.items():
        for n2, f2 in binops.items():
            for x, y, z in triples:
                add("E11:precedence", f1(x, f2(y, z)), f1(f2(x, y), z))
    # longer lists keep their order and are not regrouped
    add("E11:precedence", alt(pa, pb, pc), alt(pa, alt(pb, pc)), alt(alt(pa, pb), pc), orl(fail, fail, pa, pb), orl(orl(fail, pa), pb), cat(pa, pb, drop, tw),
        alt(cat(pa, pb), cat(pc), cat()), alt(cat(), pa), orl(cat(), pa), cat(alt(pa, pb), alt(tw, pc)))
    # suffixes and prefixes bind to one statement
    for suf in ("star", "plus", "opt"):
        add("E11:suffix", cat(pa, (suf, inc := W("inc2"))), cat(p1, (suf, W("inc2")), pb), (suf, ("paren", [], cat(p1, W("inc2")))), cat(p1, (suf, ("paren", [], alt(W("inc2"), fail)))),
            cat(p1, ("opt", (suf, W("inc2")))), cat(p1, (suf, ("opt", W("inc2")))), cat(p1, (suf, (suf, W("inc2")))), cat(p1, ("star", ("plus", W("inc2")))), cat(p1, ("plus", ("star", W("inc2")))),
            alt(cat(p1, (suf, W("inc2"))), pb), cat(p1, (suf, ("cap", [], W("inc2")))), cat(pa, (suf, ("?(", [], qa))), cat(p1, (suf, ("if", qa, pb, W("inc2")))))
    fl = W("flip")
    for suf in ("star", "plus"):
        # a body with a cycle: the input is reachable from itself, so `F+?` yields it twice and `F*` once
        add("E11:suffix", cat(pa, (suf, fl)), cat(pa, ("opt", (suf, fl))), cat(pa, (suf, ("opt", fl))), cat(pa, ("opt", ("paren", [], (suf, fl)))), cat(pa, ("star", (suf, fl))), cat(pa, ("plus", (suf, fl))),
            cat(alt(pa, pb, pc), (suf, fl)), cat(pa, (suf, ("paren", [], alt(fl, pc)))), cat(pa, ("cap", [], (suf, fl))), cat(pa, (suf, ("paren", [], cat(fl, fl)))))
    add("E11:suffix", cat(("colon", "pb", pa), pc), cat(pa, ("colon", "bdrop", tw)), ("colon", "pb", ("colon", "pc", pa)), ("colon", "pb", ("star", fail)), cat(("colon", "?a", alt(pa, pb))),
        ("colon", "pb", ("paren", [], cat(pa, pc))), alt(("colon", "pb", pa), pc))
    add("E11:ifelse", ("if", qa, pb, pc), cat(pa, ("if", qa, pb, pc)), cat(pa, ("if", qa, pb, pc), pa), cat(pb, ("if", qa, pb, pc), tw), ("if", ("?(", [], pa), tw, fail),
        cat(pa, ("if", qa, ("if", qb, pa, pb), pc)), cat(pb, ("if", qa, pa, ("if", qb, pc, tw))), cat(pa, ("if", ("paren", [], cat(drop, pb, qb)), ("paren", [], cat(pc, tw)), fail)),
        cat(pa, ("if", qa, ("star", fail), pb), pc), alt(("if", qa, pb, pc), pa), cat(pa, ("if", ("!(", [], qa), pb, ("opt", pc))), cat(pa, ("if", qa, ("cap", [], tw), ("empty",))))
    # grouping constructs around every kind of body
    bodies = [pa, cat(pa, pb), alt(pa, pb), orl(fail, pa), tw, fail, cat(), cat(drop), alt(tw, fail), ("infix", pa, "==", pa), ("infix", cat(), "==", pb)]
    for b in bodies:
        add("E11:grouping", cat(pa, ("paren", [], b)), cat(pa, ("?(", [], b), pc), cat(pa, ("!(", [], b), pc), cat(pa, ("cap", [], b)), cat(pa, ("block", [], b), W("apply")), cat(pa, ("opt", ("paren", [], b))))
    add("E11:grouping", ("empty",), cat(("empty",), ("empty",)), ("cap", [], ("empty",)), ("cap", [], ("cap", [], alt(pa, pb))), cat(("block", [], pa)), cat(pa, ("block", [], ("block", [], tw)), W("apply"), W("apply")))
    # names: binding blocks, let, scopes (doc/syntax.rst, "Name binding")
    A, B, X = W("A"), W("B"), W("X")
    add("E11:names",
        cat(("let", ["A"], pa), A), cat(("let", ["A"], alt(pa, pb)), A), cat(("let", ["A", "B"], alt(cat(pa, pb), cat(pc, pa))), A, B), cat(("let", ["A", "B"], cat(pa, pb)), B, A),
        cat(("let", ["A"], cat()), A), cat(("let", ["A"], tw), pb, A), cat(("let", ["A"], fail), pb), cat(pa, pb, ("paren", ["A", "B"], cat(A, B))), cat(pa, pb, ("paren", ["A", "B"], cat(B, A, A))),
        cat(pa, pb, ("paren", ["A"], cat())), cat(pa, pb, ("cap", ["A"], alt(A, A))), cat(pa, pb, ("cap", ["A", "B"], alt(A, B))), cat(pa, pb, ("?(", ["A"], cat(A, qb))), cat(pa, pb, ("!(", ["A"], cat(A, qb))),
        cat(pa, ("block", ["A"], cat(A, A)), W("apply")), cat(pa, pb, ("block", ["A", "B"], cat(B, A)), W("apply")), cat(("let", ["F"], ("block", [], cat(pa, tw))), W("F"), W("F")),
        cat(("?(", [], ("let", ["A"], pa)), A), cat(("paren", [], cat(("infix", cat(("let", ["A"], pa), pa), "==", pa))), A), cat(("paren", [], alt(("let", ["A"], pa), ("let", ["A"], pb))), A),
        cat(pa, ("paren", ["X"], ("let", ["A"], pb)), A), cat(("if", ("?(", [], cat()), ("let", ["A"], pa), ("let", ["A"], pb)), A), cat(("let", ["A"], ("if", ("?(", [], cat()), pa, pb)), A),
        cat(("paren", [], ("let", ["A"], pa)), A), cat(("let", ["A"], pa), ("let", ["A"], pa)), cat(("let", ["A"], pa), pb, ("cap", ["A"], A)), cat(("let", ["A"], pa), ("paren", [], cat(("let", ["B"], pb))), B, A),
        cat(("let", ["A"], pa), ("star", ("paren", [], cat(("let", ["B"], pb), fail))), A), cat(("let", ["A"], pa), ("cap", [], ("let", ["A"], pb)), A), cat(("let", ["A"], pa), orl(("let", ["A"], pb), pc), A),
        cat(("let", ["A"], pa), ("block", [], cat(("let", ["A"], pb), A)), W("apply"), A), cat(("let", ["bw"], pa), W("bw")), cat(W("bw")), cat(("let", ["A"], pa), ("opt", ("paren", [], ("let", ["B"], pb))), A),
        cat(("let", ["A"], p1), ("let", ["B"], cat(A, W("inc2"))), B, A), X,
        # every splice of a format string is a sub-expression of its own: a name bound in one is unknown to its siblings
        ("str", [cat(("let", ["A"], pa), A), " ", cat(("let", ["A"], pb), A)]), cat(("let", ["A"], pc), ("str", [A, "-", cat(("let", ["A"], pa), A), "-", A])),
        ("str", [A, " ", cat(("let", ["A"], pa), A)]),
        # a name bound inside a block shadows a builtin word of the same name for the blocks nested in it
        cat(pa, ("block", ["bw"], cat(("block", [], W("bw")), W("apply"))), W("apply")), cat(("block", [], cat(("let", ["bw"], pa), ("block", [], cat(("block", [], W("bw")), W("apply"))), W("apply"))), W("apply")),
        # the two operands of an infix assertion are independent sub-expressions: a name bound in one is not visible in the other
        cat(("let", ["A"], pa), ("paren", [], ("infix", cat(("let", ["A"], pb), A), "==", A))), cat(("let", ["A"], pa), ("paren", [], ("infix", cat(("let", ["A"], pb), A), "!=", A))),
        ("infix", ("paren", [], cat(("let", ["A"], pa), A)), "==", A), ("infix", cat(("let", ["A"], pa), A), "!=", cat(("let", ["A"], pb), A)), ("infix", A, "==", cat(("let", ["A"], pa), A)),
        cat(pa, ("infix", ("let", ["A"], cat()), "==", ("let", ["A"], cat()))))
    # empty operands in every position: the empty program is a program (it passes its input on)
    e = cat()
    add("E11:empty", e, orl(e, pa), orl(pa, e), orl(e, e), orl(pa, e, pb), alt(e, pa), alt(pa, e), alt(e, e), ("paren", [], e), cat(pa, ("paren", [], orl(pa, e)), pb), ("cap", [], orl(e, pa)),
        ("?(", [], e), ("!(", [], e), ("?(", [], orl(e, fail)), ("block", [], e), cat(pa, ("block", [], orl(e, pb)), W("apply")), ("if", ("paren", [], orl(pa, e)), ("paren", [], e), ("paren", [], alt(e, pb))),
        ("let", ["A"], e), cat(("let", ["A"], orl(e, pa)), A), ("str", [orl(pa, e)]), cat(pa, ("str", [orl(e, pb), "-", alt(e, e)])), ("infix", e, "==", e), cat(pa, ("infix", orl(e, pb), "==", e)),
        cat(pa, ("star", ("paren", [], orl(e, fail)))), cat(pa, ("opt", ("paren", [], e))), ("colon", "pa", ("paren", [], e)), cat(pa, pb, ("paren", ["A"], orl(e, A))))
    # literals
    add("E11:literals", ("int", "7"), cat(("int", "0"), ("int", "10"), ("int", "0x10"), ("int", "0X1f"), ("int", "0o17"), ("int", "017"), ("int", "0b101"), ("int", "0B11")), ("int", "-3"), ("int", "-0x10"),
        cat(("int", "1"), W("inc2")), cat(("int", "18446744073709551615")), cat(pa, ("int", "5"), ("int", "6"), drop),
        ("str", ["lit"]), ("str", []), ("str", ["a", cat(), "b"]), cat(pa, pb, ("str", [cat(), "-", cat()])), ("str", [pa, tw]), ("str", ["x", alt(pa, pb), "y", tw, "z"]), cat(("str", ["a"]), ("str", ["b"])),
        ("str", ["n", cat(("str", ["m", pa])), "o"]), cat(pa, ("str", [cat(drop, pb)])), cat(pa, ("str", [("let", ["A"], cat()), cat()])), cat(("let", ["A"], pa), ("str", [A, "&", A])),
        cat(pa, pb, ("cap", [], ("str", [cat(), cat()]))), ("infix", ("str", ["a"]), "==", ("str", ["a"])), cat(("let", ["s"], ("str", ["v"])), W("s")))
    return fam


_E11 = {}


def e11(prog, tier="quick", groups=None):
    """groups: only these groups of the family are run (a property that needs one clause does not pay for the others)"""
    k_ = (id(prog), tier, tuple(groups) if groups else None)
    if k_ not in _E11:
        _E11[k_] = _e11(prog, tier, groups)
    return _E11[k_]


def _e11(prog, tier="quick", groups=None):
    import zwengine, lalr
    from cxxobj import OutOfBounds
    from absint import Thrown
    inst, findings = [], []
    saved = dict(zwengine.Engine.BUILTIN_WORDS)
    zwengine.Engine.BUILTIN_WORDS.update(LEAVES)
    try:
        E = zwengine.Engine(prog)
        P = lalr.Parser(prog)
        simp = [f for f in prog.funcs.values() if f["q"] == "tree::simplify" and f.get("body") is not None]
        if len(simp) != 1:
            raise Broken("anchor tree::simplify vanished")
        fam = family(tier)
        if groups:
            fam = {g: v for g, v in fam.items() if g in groups}
            if not fam:
                raise Broken("no group of the E11 family is called %s" % (groups,))
        n = 0
        for group in sorted(fam):
            bad = None
            for t in fam[group]:
                q = text(t)
                spec = meaning(t)
                tree = None
                try:
                    tree = P.parse(q.encode("latin-1"))
                    E.ev.steps = 0
                    E.ev.call(simp[0], tree, [])
                    front = None
                except lalr.FrontEndCrash as x:
                    front = ("memory", str(x))
                except lalr.ParseError as x:
                    front = ("error",)
                except OutOfBounds as x:
                    front = ("memory", str(x))
                except Thrown:
                    front = ("error",)
                for initial in ((["x"], ["x", "y"]) if tier == "thorough" else (["x", "y"],)):
                    n += 1
                    try:
                        want = list(zwengine.reference(spec, tuple(initial)))
                    except zwengine.RefError:
                        want = ("error",)
                    try:
                        got = front if front is not None else E.run(None, initial, tree=tree)
                    except OutOfBounds as x:
                        got = ("memory", str(x))
                    except Thrown:
                        got = ("error",)
                    if isinstance(got, tuple) and got and got[0] == "error":
                        got = ("error",)
                    if got != want and bad is None:
                        bad = "the query `%s` on the stack %s yields %s; the documented meaning of the notation gives %s" % (
                            q, initial, got if not isinstance(got, list) else [list(g) for g in got], want if not isinstance(want, list) else [list(w) for w in want])
            inst.append((group, {"queries": len(fam[group])}))
            if bad:
                findings.append({"key": group, "where": "libzwerg/parser.yy / lexer.ll", "msg": bad, "detail": None})
    finally:
        zwengine.Engine.BUILTIN_WORDS.clear()
        zwengine.Engine.BUILTIN_WORDS.update(saved)
    return inst, findings


def part(res, groups):
    """the instances and findings of e11 that belong to `groups`"""
    if getattr(res, "broken", None):
        return res
    return [i for i in res[0] if i[0] in groups], [f for f in res[1] if f["key"] in groups]
