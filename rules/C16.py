"""C16 address sets (two clauses): H1 range vector mutated only inside coverage, H3 word -> documented set operation."""
import r_aset
from common import apply, maybe_mutants


def run(prog, rep, tier):
    rep.clause = ("H1: outside coverage's own member functions every access to the ranges of an address set (coverage::at etc., 16 sites) is a read: "
                  "never assigned, incremented or bound to a non-const reference, so the canonical form can only be broken inside coverage.cc; "
                  "H3: each address-set word is registered with exactly its overload classes and each class calls exactly the documented set "
                  "operation (add->add/add_all, sub->remove/remove_all, overlap->intersect+add_all, ?contains->is_covered, ?overlaps->is_overlap, "
                  "?empty->empty).")
    rep.not_decided = ("that coverage::add/remove/intersect keep the vector sorted, disjoint and non-adjacent, arithmetic near 2^64, and the values of "
                       "low/high/length/range (value reasoning inside coverage.cc).")
    apply(rep, "H1", "ranges are written only inside coverage", r_aset.h1(prog), 15)
    apply(rep, "H3", "words call the documented set operation", r_aset.h3(prog), 20)
    apply(rep, "H5", "every piece of an intersection is clipped by the stored range and by the queried range", r_aset.h5(prog), 2)
    apply(rep, "H6", "remove stops early only in the hole case", r_aset.h6(prog), 1)
    apply(rep, "H4", "addresses are ordered by comparison, never by the sign of a difference", r_aset.h4(prog), 1)
    maybe_mutants("C16", rep, tier)
