"""C16 address sets: H7 the set algebra of coverage.cc and of every address-set word, decided by evaluating their source on the
endpoint-order domain; H1 range vector mutated only inside coverage, H3 word -> documented set operation.
(The earlier shape rules H4-H6 for find/intersect/remove are retired: H7 decides the same functions semantically.)"""
import r_aset
from common import apply, maybe_mutants


def run(prog, rep, tier):
    rep.clause = ("H1: outside coverage's own member functions every access to the ranges of an address set (coverage::at etc., 16 sites) is a read: "
                  "never assigned, incremented or bound to a non-const reference, so the canonical form can only be broken inside coverage.cc; "
                  "H3: each address-set word (add, sub, overlap, ?contains, ?overlaps, ?empty, low, high, length, range, elem, relem) is registered "
                  "with exactly its documented overload classes.")
    rep.clause += (" H7: coverage::add/remove/is_covered/is_overlap/intersect and the words add, sub, overlap, ?contains, ?overlaps, ?empty, length, "
                   "low, high, range, elem, relem, aset and value_aset::cmp, interpreted from their source, agree with the mathematical set "
                   "model (union, difference, intersection, subset, cardinality, min, sup, maximal runs ascending, members ascending/descending, "
                   "numbering from 0, equality iff same set) and keep the canonical form, on every set and operand interval over two breakpoint "
                   "lists (contiguous small addresses; addresses spread over the 64-bit range with gaps above 2^63). coverage orders addresses "
                   "only through comparisons of run endpoints, so these lists realise every endpoint order type of sets with up to 3 runs and one "
                   "operand interval (binary words: pairs of sets over the contiguous list).")
    rep.not_decided = ("sets with more runs than the breakpoint lists realise (4+), the textual rendering of a set, and the conversion of constants "
                       "to addresses (addressify: warnings for negative / non-arithmetic constants).")
    apply(rep, "H7", "set algebra and canonical form of coverage and of every address-set word (source evaluation on the endpoint-order domain)", r_aset.h7(prog, tier), 20)
    apply(rep, "H1", "ranges are written only inside coverage", r_aset.h1(prog), 8)
    apply(rep, "H3", "words are registered with their documented overload classes", r_aset.h3(prog), 12)
    maybe_mutants("C16", rep, tier)
