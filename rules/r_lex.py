"""Scanner/grammar rules: Y1 scanner completeness (flex's own DFA analysis), Y4 %destructor for owning
semantic types, N1 format directives are their documented expansions, Z2 escape tables."""
import os, re, subprocess
from zw import Broken, REPO, walk, walk_nolambda, calls, unwrap, short


def lexer_path():
    return os.path.join(REPO, "libzwerg/lexer.ll")


def y1(prog):
    inst, findings = [], []
    lp = lexer_path()
    r = subprocess.run(["flex", "-s", "-t", "lexer.ll"], cwd=os.path.dirname(lp), stdout=subprocess.DEVNULL,
                       stderr=subprocess.PIPE)
    err = r.stderr.decode()
    if r.returncode != 0:
        raise Broken("flex failed on lexer.ll: %s" % err[-500:])
    inst.append(("Y1:default-rule", {"flex_-s_diagnostics": err.strip().splitlines()}))
    for line in err.splitlines():
        if "default rule can be matched" in line:
            m = re.match(r"[^:]*:(\d+):", line)
            findings.append({"key": "Y1:default-rule", "where": "libzwerg/lexer.ll:%s" % (m.group(1) if m else "?"),
                             "msg": "flex reports that the default rule can be matched: some input byte in some start condition matches no rule and is ECHOed to stdout instead of being scanned or rejected (%s)" % line.strip(),
                             "detail": None})
    # every exclusive start condition (and INITIAL) has an <<EOF>> rule
    txt = open(lp).read()
    parts = txt.split("\n%%")
    if len(parts) < 2:
        raise Broken("lexer.ll has no rules section")
    decls, rules = parts[0], parts[1]
    conds = re.findall(r"(?m)^%[xs]\s+(.+)$", decls)
    conds = [c for l in conds for c in l.split()]
    eofs = re.findall(r"(?m)^(?:<([A-Z_,*]+)>)?<<EOF>>", rules)
    have = set()
    for e in eofs:
        if e == "":
            have.add("INITIAL")
        elif e == "*":
            have |= set(conds) | {"INITIAL"}
        else:
            have |= set(e.split(","))
    for c in conds + ["INITIAL"]:
        key = "Y1:EOF:" + c
        inst.append((key, {"has_eof_rule": c in have}))
        if c not in have:
            findings.append({"key": key, "where": "libzwerg/lexer.ll", "msg": "start condition %s has no <<EOF>> rule: an unterminated construct would end the scan silently" % c, "detail": None})
    if len(conds) < 2:
        raise Broken("fewer start conditions than confirmed by hand (2)")
    return inst, findings


def n1(prog):
    """format directives are their documented %( ... %) expansions: for each `%X stands for %( BODY %)` row of doc/syntax.rst the
    simulated scanner (rule selection from lexer.ll's patterns, actions interpreted; parse_subquery summarised by the text it is
    given) builds the same tree for "pending%X" and for "pending%( BODY %)" - pending text flushed, then exactly one sub-query with
    the documented body - and the literal ends normally.  Independent of how the rules are written (one rule per directive, one
    rule with a switch, a helper)."""
    import flexsim
    inst, findings = [], []
    doc = open(os.path.join(REPO, "doc/syntax.rst")).read()
    rows = dict(re.findall(r"``(%[a-z])`` stands for ``%\((.*?)%\)``", doc))
    if len(rows) < 5:
        raise Broken("fewer documented format directives than confirmed by hand (5): %s" % sorted(rows))
    sc = _scanner(prog)

    def tree_of(text):
        try:
            toks, _ = sc.tokens(text)
        except flexsim.ScanError as x:
            return ("error", str(x))
        if [t[0] for t in toks] != ["TOK_LIT_STR", "TOK_EOF"]:
            return ("tokens", tuple(t[0] for t in toks))
        def norm(t):
            tt, s_, kids = t
            return (tt, b" ".join(s_.split()) if (s_ is not None and tt == "CAT") else s_, tuple(norm(k) for k in kids))
        return norm(toks[0][1])
    for d, body in sorted(rows.items()):
        key = "N1:" + d
        for pre, post in ((b"pending", b""), (b"", b"tail"), (b"a", b"%%")):
            got = tree_of(b'"' + pre + d.encode() + post + b'"')
            want = tree_of(b'"' + pre + b"%(" + body.encode() + b"%)" + post + b'"')
            if got != want or not (isinstance(want, tuple) and want and want[0] == "FORMAT"):
                findings.append({"key": key, "where": "libzwerg/lexer.ll",
                                 "msg": "`%s` is documented as `%%(%s%%)` but \"%s%s%s\" scans to %s while the expansion scans to %s" % (
                                     d, body, pre.decode(), d, post.decode(), got, want), "detail": None})
                break
        inst.append((key, {"documented": body.strip()}))
    # a directive letter the documentation does not define must not be a directive
    for ch in "acefghijklmnpqrtuvwyz":
        d = "%" + ch
        if d in rows:
            continue
        got = tree_of(b'"x' + d.encode() + b'"')
        if not (isinstance(got, tuple) and got and got[0] == "FORMAT" and len(got[2]) == 1 and got[2][0][1] == b"x" + d.encode()):
            findings.append({"key": "N1:" + d, "where": "libzwerg/lexer.ll", "msg": "the scanner treats %s, which doc/syntax.rst does not define, as a directive: \"x%s\" scans to %s" % (d, d, got), "detail": None})
    return inst, findings


def n2(prog):
    """infix `A op B` is ?(let x := A; let y := B; x y op): parse_op interpreted from source on operands of several tree kinds.
    The tree it returns must be ASSERT(PRED_SUBX_ANY(SCOPE(...))) whose statements, with nested CATs flattened, are
    SUBX_EVAL<1>(SCOPE A), BIND x, SUBX_EVAL<1>(SCOPE B), BIND y, READ x, READ y, READ op with two different reserved names."""
    from cxxobj import CxxEvaluator, Obj, Vec, StdStr, OutOfBounds
    from absint import Thrown
    from r_scope import tree_types
    inst, findings = [], []
    po = prog.func_opt("(anonymous namespace)::parse_op")
    if po is None:
        raise Broken("anchor parse_op vanished")
    tt = tree_types(prog)
    names = {v: k for k, v in tt.items()}
    ev = CxxEvaluator({"method:release": lambda ev, o, a: o}, {}, prog=prog)

    def mk(kind, children=()):
        t = Obj("tree")
        t.m_tt = ("enum", kind, tt[kind])
        t.m_children = Vec(list(children), "children")
        t.m_str = t.m_cst = t.m_builtin = None
        t.m_scope = None
        return t

    def kd(t):
        return t.m_tt[1] if isinstance(t.m_tt, tuple) else names.get(t.m_tt, t.m_tt)

    def sval(t):
        s_ = getattr(t, "m_str", None)
        return s_.b.decode("latin-1") if isinstance(s_, StdStr) else None

    def cval(t):
        c = getattr(t, "m_cst", None)
        return getattr(getattr(c, "m_value", None), "m_u", None)

    def shape(t):
        if not isinstance(t, Obj):
            return repr(t)
        k = kd(t)
        extra = ("<%s>" % sval(t) if sval(t) is not None else "") + ("<%s>" % cval(t) if cval(t) is not None else "")
        ch = [shape(c) for c in t.m_children.items]
        return k + extra + ("(" + ", ".join(ch) + ")" if ch else "")

    def flat(t):
        if kd(t) == "CAT":
            out = []
            for c in t.m_children.items:
                out += flat(c)
            return out
        return [t]
    key = "N2:parse_op"
    bad = None
    operands = [("CONST", ()), ("ALT", ("NOP", "F_DEBUG")), ("CAT", ("NOP", "F_DEBUG")), ("NOP", ())]
    try:
        for ka, ca in operands:
            for kb, cb in operands[:2]:
                a, b = mk(ka, [mk(x) for x in ca]), mk(kb, [mk(x) for x in cb])
                sa, sb = shape(a), shape(b)
                r = ev.call(po, None, [a, b, StdStr(b"?lt")])
                ok = isinstance(r, Obj) and kd(r) == "ASSERT" and len(r.m_children.items) == 1
                p = r.m_children.items[0] if ok else None
                ok = ok and kd(p) == "PRED_SUBX_ANY" and len(p.m_children.items) == 1 and kd(p.m_children.items[0]) == "SCOPE" and len(p.m_children.items[0].m_children.items) == 1
                st = flat(p.m_children.items[0].m_children.items[0]) if ok else []
                ok = ok and [kd(x) for x in st] == ["SUBX_EVAL", "BIND", "SUBX_EVAL", "BIND", "READ", "READ", "READ"]
                if ok:
                    e1, b1, e2, b2, r1, r2, r3 = st
                    # an operand that is a no-op is represented by NOP either way (maybe_nop)
                    want_a = "SCOPE(%s)" % sa
                    want_b = "SCOPE(%s)" % sb
                    ok = cval(e1) == 1 and cval(e2) == 1 and [shape(c) for c in e1.m_children.items] == [want_a] and [shape(c) for c in e2.m_children.items] == [want_b] \
                        and sval(b1) is not None and sval(b2) is not None and sval(b1) != sval(b2) and sval(r1) == sval(b1) and sval(r2) == sval(b2) and sval(r3) == "?lt"
                if not ok and bad is None:
                    bad = "`A ?lt B` with A = %s, B = %s is built as %s" % (sa, sb, shape(r))
    except (OutOfBounds, Thrown) as x:
        raise Broken("parse_op cannot be evaluated: %s" % x)
    inst.append((key, {"operand_pairs": len(operands) * 2}))
    if bad:
        findings.append({"key": key, "where": po["l"],
                         "msg": "infix comparison is no longer built as ?(let a := A; let b := B; a b op): %s" % bad, "detail": None})
    return inst, findings


# ---------------------------------------------------------------------------
# Y2: fields that are local to a start condition are (re)initialised when the condition is entered

def _lexer_rules():
    """[(first line, last line, start condition)] of the rules section of lexer.ll"""
    lines = open(lexer_path()).read().split("\n")
    # rules section
    idx = [i for i, l in enumerate(lines) if l.strip() == "%%"]
    if len(idx) < 2:
        raise Broken("lexer.ll has no delimited rules section")
    decl = "\n".join(lines[:idx[0]])
    conds = ["INITIAL"] + [c for l in re.findall(r"(?m)^%[xs]\s+(.+)$", decl) for c in l.split()]
    rules = []
    cur = None
    for i in range(idx[0] + 1, idx[1]):
        l = lines[i]
        if l and not l[0].isspace() and not l.startswith(("/*", "//", "}", "#")):
            m = re.match(r"<([A-Z_]+)>", l)
            st = m.group(1) if m else "INITIAL"
            if cur:
                rules.append((cur[0], i, cur[1]))
            cur = (i + 1, st)
    if cur:
        rules.append((cur[0], idx[1], cur[1]))
    return conds, rules


def y2(prog):
    from cfg import CFG
    from r_tables import intval
    inst, findings = [], []
    yl = prog.func_opt("yylex")
    if yl is None:
        raise Broken("anchor yylex vanished")
    conds, rules = _lexer_rules()

    def rule_of(loc):
        if not loc or not loc.startswith("lexer.ll:"):
            return None
        n = int(loc.split(":")[1])
        for a, b, st in rules:
            if a <= n <= b:
                return (a, st)
        return None
    # initial values from fmtlit's constructor
    ctor = [f for f in prog.funcs.values() if f.get("cls") == "fmtlit" and f.get("isctor") and f.get("inits")]
    if not ctor:
        raise Broken("fmtlit constructor vanished")
    initial = {}
    for i in ctor[0]["inits"]:
        v = i.get("init")
        while isinstance(v, dict) and v.get("k") in ("ilist", "ctor") and len(v.get("a", [])) == 1:
            v = v["a"][0]
        if isinstance(v, dict) and v.get("k") in ("int", "bool"):
            initial[i["field"]] = int(v["v"])
    # the action switch: case statements whose bodies carry lexer.ll lines
    actions = {}
    for x in walk(yl["body"]):
        if x.get("k") == "case":
            sub = x
            stmts = []
            # statements of this case: the case's sub statement plus following siblings are not available here;
            # use line ownership instead
    # collect every statement-level node by rule
    by_rule = {}
    for x in walk(yl["body"]):
        if x.get("k") == "block":
            for st in x["s"]:
                r = rule_of(st.get("l"))
                if r and st.get("k") not in ("case", "default"):
                    by_rule.setdefault(r, [])
                    if not any(st is y for y in by_rule[r]):
                        by_rule[r].append(st)
                elif r and st.get("k") == "case":
                    inner = st
                    while isinstance(inner, dict) and inner.get("k") in ("case", "default"):
                        inner = inner.get("sub")
                    if isinstance(inner, dict):
                        r2 = rule_of(inner.get("l"))
                        if r2:
                            by_rule.setdefault(r2, []).append(inner)
    # keep only outermost statements per rule (drop those nested in another kept statement)
    for r, sts in by_rule.items():
        keep = []
        for s in sts:
            if not any(o is not s and any(y is s for y in walk(o)) for o in sts):
                keep.append(s)
        by_rule[r] = keep
    # field access census
    access = {}
    for r, sts in by_rule.items():
        for s in sts:
            plain_writes = {id(unwrap(y["lhs"])) for y in walk(s) if y.get("k") == "asg" and y.get("op") == "="}
            for y in walk(s):
                if y.get("k") == "mem" and y.get("c") == "fmtlit" and "fid" not in y and id(y) not in plain_writes:
                    access.setdefault(y["n"], set()).add(r[1])     # reads (and read-modify-writes) only
    local = {f: next(iter(s)) for f, s in access.items() if len(s) == 1 and next(iter(s)) != "INITIAL" and f in initial}
    if not local:
        raise Broken("no start-condition-local fmtlit field found (anchor level/in_string vanished)")

    def begin_target(node):
        for y in walk_nolambda(node):
            if y.get("k") == "asg" and isinstance(unwrap(y["lhs"]), dict) and unwrap(y["lhs"]).get("n") == "yy_start":
                v = intval(y["rhs"])
                if v is not None:
                    return conds[(v - 1) // 2]
        return None
    entering = {}   # state -> [(rule, assigns set)]
    for r, sts in sorted(by_rule.items()):
        fake = {"q": "yylex[%s:%d]" % (r[1], r[0]), "l": "lexer.ll:%d" % r[0], "body": {"k": "block", "l": "lexer.ll:%d" % r[0], "s": sts}, "allow_break": True}
        g = CFG(fake)
        bn = [(n, begin_target(n.ast)) for n in g.nodes if isinstance(n.ast, dict) and n.kind in ("stmt",) and begin_target(n.ast)]
        for n, tgt in bn:
            if tgt == r[1]:
                continue
            # fields local to the state being left must be at their initial value; fields local to the state being entered
            # may alternatively be assigned here
            def field_state_on_paths(fld):
                """set of abstract states of fld at node n over all paths from entry: 'init' | 'other' | 'unknown'"""
                res = set()
                seen = set()
                stack = [(g.entry.id, "unknown")]
                while stack:
                    nid, stt = stack.pop()
                    if (nid, stt) in seen:
                        continue
                    seen.add((nid, stt))
                    node = g.nodes[nid]
                    if nid == n.id:
                        res.add(stt)
                        continue
                    s2 = stt
                    if isinstance(node.ast, dict) and node.kind == "stmt":
                        for y in walk_nolambda(node.ast):
                            if y.get("k") == "asg" and isinstance(unwrap(y["lhs"]), dict) and unwrap(y["lhs"]).get("k") == "mem" \
                               and unwrap(y["lhs"]).get("c") == "fmtlit" and unwrap(y["lhs"])["n"] == fld:
                                v = intval(y["rhs"])
                                if v is None and isinstance(unwrap(y["rhs"]), dict) and unwrap(y["rhs"]).get("k") == "bool":
                                    v = int(unwrap(y["rhs"])["v"])
                                s2 = "init" if (y["op"] == "=" and v == initial[fld]) else "other"
                            if y.get("k") == "un" and y.get("op") in ("++", "--") and isinstance(unwrap(y["e"]), dict) and unwrap(y["e"]).get("n") == fld:
                                s2 = "other"
                    for t, lab in node.succs:
                        s3 = s2
                        if node.kind == "cond" and isinstance(node.ast, dict):
                            c = unwrap(node.ast)
                            # F == init  /  !F (bool)  /  F
                            if c.get("k") == "bin" and c.get("op") in ("==", "!="):
                                l, rr = unwrap(c["lhs"]), unwrap(c["rhs"])
                                if isinstance(l, dict) and l.get("k") == "mem" and l["n"] == fld and intval(rr) == initial[fld]:
                                    if (c["op"] == "==") == (lab is True):
                                        s3 = "init"
                            if c.get("k") == "mem" and c["n"] == fld and initial[fld] == 0 and lab is False:
                                s3 = "init"
                            for y in walk_nolambda(c):
                                if y.get("k") == "un" and y.get("op") in ("++", "--") and isinstance(unwrap(y["e"]), dict) and unwrap(y["e"]).get("n") == fld:
                                    s3 = "other"
                        stack.append((t, s3))
                return res
            for fld, st in sorted(local.items()):
                if st == r[1]:       # leaving the field's home state
                    sts_ = field_state_on_paths(fld)
                    entering.setdefault(("leave", st, fld), []).append((r, n.loc, sts_))
                if st == tgt:        # entering the field's home state
                    sts_ = field_state_on_paths(fld)
                    entering.setdefault(("enter", st, fld), []).append((r, n.loc, sts_))
    for fld, st in sorted(local.items()):
        ent = entering.get(("enter", st, fld), [])
        lea = entering.get(("leave", st, fld), [])
        if not ent:
            raise Broken("no action enters start condition %s" % st)
        set_on_entry = all(s == {"init"} for _, _, s in ent)
        clean_on_leave = all(s == {"init"} for _, _, s in lea)
        key = "Y2:%s.%s" % (st, fld)
        inst.append((key, {"field": fld, "home_state": st, "initial": initial[fld], "assigned_on_every_entry": set_on_entry,
                           "restored_on_every_exit": clean_on_leave,
                           "entries": [e[1] for e in ent], "exits": [e[1] for e in lea]}))
        if not set_on_entry and not clean_on_leave:
            bad = [e for e in lea if e[2] != {"init"}]
            findings.append({"key": key, "where": "libzwerg/%s" % (bad[0][1] if bad else ent[0][1]),
                             "msg": "fmtlit::%s is only meaningful in start condition %s, but it is neither set to its initial value (%d) when %s is entered (%s) nor guaranteed to hold it when %s is left (%s): a second %%( ... %%) splice in one string starts with stale state" % (
                                 fld, st, initial[fld], st, ", ".join(e[1] for e in ent), st, ", ".join(e[1] for e in bad)),
                             "detail": None})
    return inst, findings


# ---------------------------------------------------------------------------
# N3: the suffix operators and if-then-else build their documented trees (grammar actions interpreted from source)

def n3(prog):
    """The bison actions of `E?`, `E*`, `E+` and `if C then A else B`, interpreted on an operand of every tree kind:
      E?  = ALT over E's alternatives (E itself unless E is already an ALT) plus NOP      -- `E?` is `(E,)`
      E*  = CLOSE_STAR(SCOPE E), except that a closure directly under it is reused: (F*)* = F*, (F+)* = F*
      E+  = CLOSE_PLUS(SCOPE E), except (F*)+ = F* and (F+)+ = F+
      if  = IFELSE(SCOPE C, SCOPE A, SCOPE B)
    Any other rewriting (for instance collapsing `F+?` into `F*`) changes how often a stack is yielded."""
    import grammar
    from absint import Break
    from cxxobj import CxxEvaluator, Obj, Struct, Vec, Buf, Ptr, OutOfBounds, Sym
    from absint import Thrown
    from r_scope import tree_types
    inst, findings = [], []
    tt = tree_types(prog)
    names = {v: k for k, v in tt.items()}
    ev = CxxEvaluator({"method:release": lambda ev, o, a: o}, {}, prog=prog)

    def mk(kind, children=()):
        t = Obj("tree")
        t.m_tt = ("enum", kind, tt[kind])
        t.m_children = Vec(list(children), "children")
        t.m_str = t.m_cst = t.m_builtin = None
        t.m_scope = None
        return t

    def kd(t):
        return t.m_tt[1] if isinstance(t.m_tt, tuple) else names.get(t.m_tt, t.m_tt)

    def shape(t, depth=0):
        if not isinstance(t, Obj) or depth > 6:
            return repr(t)
        k = kd(t)
        ch = [shape(c, depth + 1) for c in t.m_children.items]
        return k + ("(" + ", ".join(ch) + ")" if ch else "")

    def run_action(lhs, rhs, operands):
        stmts, ids, n = grammar.action(prog, lhs, rhs)
        if "yyvsp" not in ids or "yyval" not in ids:
            raise Broken("action of %s: %s does not use yyvsp/yyval (unmodelled)" % (lhs, " ".join(rhs)))
        buf = Buf(16)
        base = 10
        for i in range(16):
            buf.cells[i] = Struct("YYSTYPE", {})
        for pos, val in operands.items():          # $pos
            buf.cells[base + pos - n].t = val
        yyval = Struct("YYSTYPE", {})
        env = {ids["yyvsp"]: Ptr(buf, base), ids["yyval"]: yyval}
        try:
            for s in stmts:
                ev.block(s, env, None)
        except Break:
            pass
        return getattr(yyval, "t", None)
    kinds = [k for k in sorted(tt) if not k.startswith("PRED_")]

    def operand(k):
        if k in ("CLOSE_STAR", "CLOSE_PLUS", "SCOPE", "CAPTURE", "SUBX_EVAL", "BLOCK", "ASSERT"):
            return mk(k, [mk("NOP")])
        if k in ("ALT", "OR", "CAT"):
            return mk(k, [mk("NOP"), mk("F_DEBUG")])
        if k == "IFELSE":
            return mk(k, [mk("NOP"), mk("NOP"), mk("NOP")])
        return mk(k)
    rows = [("E?", ["Statement", "TOK_QMARK"]), ("E*", ["Statement", "TOK_ASTERISK"]), ("E+", ["Statement", "TOK_PLUS"])]
    try:
        for label, rhs in rows:
            key = "N3:" + label
            bad = None
            for k in kinds:
                e = operand(k)
                inner = [shape(x) for x in e.m_children.items]
                before = shape(e)
                r = run_action("Statement", rhs, {1: e})
                if label == "E?":
                    exp_children = (inner if k == "ALT" else [before]) + ["NOP"]
                    ok = isinstance(r, Obj) and kd(r) == "ALT" and [shape(c) for c in r.m_children.items] == exp_children
                    want = "ALT(%s, NOP)" % (", ".join(inner) if k == "ALT" else before)
                else:
                    me = "CLOSE_STAR" if label == "E*" else "CLOSE_PLUS"
                    if k in ("CLOSE_STAR", "CLOSE_PLUS"):
                        res_kind = "CLOSE_STAR" if (label == "E*" or k == "CLOSE_STAR") else "CLOSE_PLUS"
                        want = "%s(%s)" % (res_kind, ", ".join(inner))
                        ok = shape(r) == want
                    else:
                        want = "%s(SCOPE(%s))" % (me, before)
                        ok = shape(r) == want
                if not ok and bad is None:
                    bad = "`%s` with E = %s builds %s; documented meaning is %s" % (label, before, shape(r), want)
            inst.append((key, {"operand_kinds": len(kinds)}))
            if bad:
                findings.append({"key": key, "where": "libzwerg/parser.yy", "msg": bad + ": the rewritten program yields a different multiset of stacks (a stack on a cycle of F is yielded once by F* but twice by (F+,))" if label == "E?" else bad, "detail": None})
        # if-then-else
        bad = None
        for k in ("NOP", "ALT", "SCOPE", "CLOSE_STAR"):
            c, a, b = operand(k), operand("CONST"), operand("OR")
            r = run_action("Statement", ["TOK_IF", "Statement", "TOK_THEN", "Statement", "TOK_ELSE", "Statement"], {2: c, 4: a, 6: b})
            want = "IFELSE(SCOPE(%s), SCOPE(%s), SCOPE(%s))" % (shape(c), shape(a), shape(b))
            ok = shape(r) == want
            if not ok and bad is None:
                bad = "`if C then A else B` builds %s instead of IFELSE(SCOPE C, SCOPE A, SCOPE B)" % shape(r)
        inst.append(("N3:if-then-else", {"operand_kinds": 4}))
        if bad:
            findings.append({"key": "N3:if-then-else", "where": "libzwerg/parser.yy", "msg": bad, "detail": None})
    except (OutOfBounds, Thrown) as x:
        raise Broken("grammar action cannot be evaluated: %s" % x)
    return inst, findings


# ---------------------------------------------------------------------------
# N4 / N5: the scanner simulated (flex's rule selection decided from the patterns, actions interpreted from source)

_SCN = {}


def _scanner(prog):
    import flexsim
    if id(prog) not in _SCN:
        _SCN[id(prog)] = flexsim.Scanner(prog)
    return _SCN[id(prog)]


def _lit(sc, text):
    """bytes denoted by the query `text` that consists of one string literal without directives, or ('error', msg)"""
    import flexsim
    try:
        toks, fired = sc.tokens(text)
    except flexsim.ScanError as x:
        return ("error", str(x)), []
    if [t[0] for t in toks] != ["TOK_LIT_STR", "TOK_EOF"]:
        return ("tokens", [t[0] for t in toks]), fired
    tree = toks[0][1]
    kids = tree[2] if tree else ()
    if len(kids) == 0:
        return b"", fired
    if len(kids) == 1 and not kids[0][2]:
        return kids[0][1], fired
    return ("tree", tree), fired


def n4(prog):
    """string literals denote the documented bytes: for every escape of doc/syntax.rst (named escapes of `man ascii`, \\\\ and \\", octal
    \\N \\NN \\NNN, hex \\xHH, escaped and literal end of line), in the middle, at the end of the literal and before a character that
    could continue it; raw literals keep every escape intact; "a"\\ "b" continuation (also switching raw on and off) equals the
    concatenation; %% is a percent sign.  The rule that fires at each position is decided from lexer.ll's patterns with flex's
    discipline (longest match, then the earlier rule), its action is interpreted from source."""
    inst, findings = [], []
    sc = _scanner(prog)
    named = {"a": 7, "b": 8, "e": 27, "t": 9, "n": 10, "v": 11, "f": 12, "r": 13, "\\": 92, '"': 34}
    cases = []          # (group, source text, expected bytes)
    for ch, code in sorted(named.items()):
        for pre, post in ((b"x", b"y"), (b"", b""), (b"x", b"7")):
            cases.append(("named", b'"' + pre + b"\\" + ch.encode() + post + b'"', pre + bytes([code]) + post))
            cases.append(("raw", b'r"' + pre + b"\\" + ch.encode() + post + b'"', pre + b"\\" + ch.encode() + post))
    for digits in ("0", "1", "3", "7", "07", "12", "40", "101", "377", "000", "001"):
        if digits[0] > "3":
            continue
        v = int(digits, 8)
        posts = [b"", b"y", b"8", b" "] + ([b"7"] if len(digits) == 3 else [])
        for post in posts:
            cases.append(("octal", b'"x\\' + digits.encode() + post + b'"', b"x" + bytes([v]) + post))
            cases.append(("raw", b'r"x\\' + digits.encode() + post + b'"', b"x\\" + digits.encode() + post))
    for hx in ("00", "41", "7f", "80", "ff", "Ab", "aB"):
        for post in (b"", b"y", b"0"):
            cases.append(("hex", b'"x\\x' + hx.encode() + post + b'"', b"x" + bytes([int(hx, 16)]) + post))
            cases.append(("raw", b'r"x\\x' + hx.encode() + post + b'"', b"x\\x" + hx.encode() + post))
    cases += [("eol", b'"foo\\\nbar"', b"foobar"), ("eol", b'"foo\nbar"', b"foo\nbar"), ("eol", b'"\\\n"', b""),
              ("percent", b'"100%%"', b"100%"), ("percent", b'"%%s"', b"%s"), ("percent", b'r"%%"', b"%"),
              ("plain", b'""', b""), ("plain", b'"a b\tc"', b"a b\tc"), ("plain", b'"\x80\xff"', b"\x80\xff"), ("plain", b'"#//*"', b"#//*"),
              ("continuation", b'"a"\\ "b"', b"ab"), ("continuation", b'"a"\\"b"', b"ab"), ("continuation", b'"a"\\\n\t "b"', b"ab"),
              ("continuation", b'"a\\n"\\ r"\\n"', b"a\n\\n"), ("continuation", b'r"\\n"\\ "\\n"', b"\\n\n"), ("continuation", b'""\\ ""', b""),
              ("continuation", b'"a"\\ "b"\\ "c"', b"abc")]
    by_group = {}
    for g, src, want in cases:
        got, fired = _lit(sc, src)
        ok = got == want
        by_group.setdefault(g, []).append((src, want, got, fired, ok))
    for g, rows in sorted(by_group.items()):
        key = "N4:" + g
        inst.append((key, {"literals": len(rows)}))
        bad = [r for r in rows if not r[4]]
        if bad:
            src, want, got, fired, _ = bad[0]
            rule = next(("<%s>%s" % (f[0], f[1]) for f in fired if f[0] == "STRING" and f[2][:1] == b"\\"), None)
            findings.append({"key": key, "where": "libzwerg/lexer.ll",
                             "msg": "the literal %s denotes %r but the scanner builds %r%s (%d of %d literals of this group differ)" % (
                                 src.decode("latin-1"), want, got, (" (the escape is taken by rule %s)" % rule) if rule else "", len(bad), len(rows)),
                             "detail": [(r[0].decode("latin-1"), repr(r[1]), repr(r[2])) for r in bad[:10]]})
    return inst, findings


def n5(prog):
    """layout is transparent: for a set of programs covering every token kind, inserting blanks, tabs, newlines and whitespace-delimited
    comments of all three styles (# ..., // ..., /* ... */ incl. empty, multi-line, starred and ones containing `/`, `*`, quotes and
    comment starters) before the first token, between every two tokens and after the last one gives the scanner the same token
    sequence (token kinds and their texts / string trees)."""
    import flexsim
    inst, findings = [], []
    sc = _scanner(prog)
    programs = [[b"entry", b"?TAG_x", b"(", b"@AT_name", b",", b"child", b"*", b")", b"==", b'"a b"', b"||", b"-1", b"0x1f", b"?0", b"swap"],
                [b"let", b"A", b":=", b"[", b"1", b",", b"2", b"]", b";", b"A", b"elem", b"+", b"{", b"}", b"?(", b")", b"!{", b"}"],
                [b"if", b"?{", b"}", b"then", b"``[", b"]", b"else", b'r"\\n"', b"|", b".x", b"\\dbg", b"?", b"!(", b")", b":", b"!eq"]]
    fillers = {"blank": [b" ", b"  ", b"\t", b"\n", b" \n\t "],
               "hash": [b" # c\n", b" #\n", b" # a \" /* b\n"],
               "slashes": [b" // c\n", b" //\n", b" // a # \" */ b\n"],
               "block": [b" /* c */ ", b" /**/ ", b" /* a\nb */ ", b" /* * / */ ", b" /* \" # // */ ", b" /***/ ", b" /* a **/ ", b" /** a */ ", b" /* a* */ "]}
    n = 0
    for g, fl in sorted(fillers.items()):
        key = "N5:" + g
        bad = None
        cnt = 0
        for toks in programs:
            base_text = b" ".join(toks)
            try:
                base, _ = sc.tokens(base_text)
            except flexsim.ScanError as x:
                raise Broken("the reference program %r does not scan: %s" % (base_text, x))
            if len(base) != len(toks) + 1:
                raise Broken("the reference program %r scans to %d tokens, expected %d" % (base_text, len(base) - 1, len(toks)))
            for f in fl:
                for pos in range(len(toks) + 1):
                    parts = []
                    for i, t in enumerate(toks):
                        parts.append(f if i == pos else b" ")
                        parts.append(t)
                    parts.append(f if pos == len(toks) else b" ")
                    text = b"".join(parts)
                    cnt += 1
                    try:
                        got, _ = sc.tokens(text)
                    except flexsim.ScanError as x:
                        got = ("error", str(x))
                    if got != base and bad is None:
                        where = "before the first token" if pos == 0 else "after the last token" if pos == len(toks) else "between `%s` and `%s`" % (toks[pos - 1].decode(), toks[pos].decode())
                        bad = "inserting %r %s of `%s` changes what the parser sees: %s" % (
                            f.decode("latin-1"), where, base_text.decode("latin-1"),
                            got if isinstance(got, tuple) else [t for t in got if t not in base][:4] or "tokens lost")
        n += cnt
        inst.append((key, {"variants": cnt}))
        if bad:
            findings.append({"key": key, "where": "libzwerg/lexer.ll", "msg": bad, "detail": None})
    return inst, findings


def n6(prog):
    """%( ... %) splices are delimited independently of one another and of what they contain: for embedded texts with nested
    strings, brackets of all three kinds, nested format strings with their own splices, escaped quotes and percent signs, the literal
    "pre%(E%)post" scans to FORMAT(STR pre, sub-query E, STR post), and "%(E1%)mid%(E2%)" to (sub-query E1, STR mid, sub-query E2)
    for every ordered pair - the second splice is found the same way whatever the first one contained (scanner simulated)."""
    import flexsim
    inst, findings = [], []
    sc = _scanner(prog)
    embedded = [b" 1 ", b"x", b"(1, 2)", b"[a b]", b"{ }", b' "s" ', b' ")" ', b' "(" ', b' "a\\"b" ', b' "%( 1 %)" ', b' "%( "%( x %)" %)" ',
                b"((a) [b {c}])", b' "100%%" ', b" a\nb ", b' "]" "[" ']

    def parts(text):
        try:
            toks, _ = sc.tokens(text)
        except flexsim.ScanError as x:
            return ("error", str(x))
        if [t[0] for t in toks] != ["TOK_LIT_STR", "TOK_EOF"]:
            return ("tokens", tuple(t[0] for t in toks))
        out = []
        for tt, s_, kids in toks[0][1][2]:
            if tt == "CAT":
                out.append(("subq", s_))
            elif s_:
                out.append(("str", s_))
        return out
    bad = None
    n = 0
    for e in embedded:
        got = parts(b'"pre%(' + e + b'%)post"')
        n += 1
        want = [("str", b"pre"), ("subq", e), ("str", b"post")]
        if got != want and bad is None:
            bad = '"pre%%(%s%%)post" scans to %s; expected %s' % (e.decode("latin-1"), got, want)
    inst.append(("N6:single", {"literals": n}))
    if bad:
        findings.append({"key": "N6:single", "where": "libzwerg/lexer.ll", "msg": "an embedded expression is not delimited by its own %( %): " + bad, "detail": None})
    bad = None
    n = 0
    for e1 in embedded:
        for e2 in embedded:
            got = parts(b'"%(' + e1 + b"%)mid%(" + e2 + b'%)"')
            n += 1
            want = [("subq", e1), ("str", b"mid"), ("subq", e2)]
            if got != want and bad is None:
                bad = '"%%(%s%%)mid%%(%s%%)" scans to %s; expected %s' % (e1.decode("latin-1"), e2.decode("latin-1"), got, want)
    inst.append(("N6:pairs", {"literals": n}))
    if bad:
        findings.append({"key": "N6:pairs", "where": "libzwerg/lexer.ll", "msg": "the second splice of a literal is scanned differently depending on the first: " + bad, "detail": None})
    return inst, findings


def y6(prog):
    """every byte can be the whole query: the scanner simulated on each of the 256 one-byte queries and on each byte between two words;
    the outcome is a token stream or an error raised by an action - never a memory error inside an action (the catch-all rule formats
    the offending byte into a five-byte buffer: `0x%02x` of a sign-extended char is ten characters)."""
    import flexsim
    inst, findings = [], []
    sc = _scanner(prog)
    bad = None
    n = 0
    outcomes = {"tokens": 0, "rejected": 0}
    for b in range(256):
        for text in (bytes([b]), b"a " + bytes([b]) + b" b"):
            n += 1
            try:
                sc.tokens(text)
                outcomes["tokens"] += 1
            except flexsim.ScanError as x:
                if "memory error" in str(x):
                    bad = bad or "the query %r: %s" % (text, x)
                outcomes["rejected"] += 1
    inst.append(("Y6:every-byte", dict(outcomes, queries=n)))
    if outcomes["rejected"] < 50:
        raise Broken("only %d one-byte queries are rejected: the catch-all rule was not exercised" % outcomes["rejected"])
    if bad:
        findings.append({"key": "Y6:every-byte", "where": "libzwerg/lexer.ll", "msg": bad + ": an invalid byte in the query must be reported, not overflow the scanner's stack", "detail": None})
    return inst, findings
