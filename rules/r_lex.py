"""Scanner/grammar rules: Y1 scanner completeness (flex's own DFA analysis), Y4 %destructor for owning
semantic types, N1 format directives are their documented expansions, Z2 escape tables."""
import os, re, subprocess
from zw import Broken, REPO, walk, calls, unwrap, short


def lexer_path():
    return os.path.join(REPO, "libzwerg/lexer.ll")


def y1(prog):
    inst, findings = [], []
    lp = lexer_path()
    r = subprocess.run(["flex", "-s", "-t", "lexer.ll"], cwd=os.path.dirname(lp), stdout=subprocess.DEVNULL,
                       stderr=subprocess.PIPE)
    err = r.stderr.decode()
    if r.returncode != 0:
        raise Broken("flex failed on lexer.ll: %s" % err[-500:])
    inst.append(("Y1:default-rule", {"flex_-s_diagnostics": err.strip().splitlines()}))
    for line in err.splitlines():
        if "default rule can be matched" in line:
            m = re.match(r"[^:]*:(\d+):", line)
            findings.append({"key": "Y1:default-rule", "where": "libzwerg/lexer.ll:%s" % (m.group(1) if m else "?"),
                             "msg": "flex reports that the default rule can be matched: some input byte in some start condition matches no rule and is ECHOed to stdout instead of being scanned or rejected (%s)" % line.strip(),
                             "detail": None})
    # every exclusive start condition (and INITIAL) has an <<EOF>> rule
    txt = open(lp).read()
    parts = txt.split("\n%%")
    if len(parts) < 2:
        raise Broken("lexer.ll has no rules section")
    decls, rules = parts[0], parts[1]
    conds = re.findall(r"(?m)^%[xs]\s+(.+)$", decls)
    conds = [c for l in conds for c in l.split()]
    eofs = re.findall(r"(?m)^(?:<([A-Z_,*]+)>)?<<EOF>>", rules)
    have = set()
    for e in eofs:
        if e == "":
            have.add("INITIAL")
        elif e == "*":
            have |= set(conds) | {"INITIAL"}
        else:
            have |= set(e.split(","))
    for c in conds + ["INITIAL"]:
        key = "Y1:EOF:" + c
        inst.append((key, {"has_eof_rule": c in have}))
        if c not in have:
            findings.append({"key": key, "where": "libzwerg/lexer.ll", "msg": "start condition %s has no <<EOF>> rule: an unterminated construct would end the scan silently" % c, "detail": None})
    if len(conds) < 2:
        raise Broken("fewer start conditions than confirmed by hand (2)")
    return inst, findings


def n1(prog):
    """format directives are implemented as their documented %( ... %) expansions"""
    inst, findings = [], []
    doc = open(os.path.join(REPO, "doc/syntax.rst")).read()
    rows = dict(re.findall(r"``(%[a-z])`` stands for ``%\((.*?)%\)``", doc))
    if len(rows) < 5:
        raise Broken("fewer documented format directives than confirmed by hand (5): %s" % sorted(rows))
    yl = prog.func_opt("yylex")
    if yl is None:
        raise Broken("anchor yylex vanished")
    # lexer.ll: map each <STRING>"%X" rule to its action's source line range
    lines = open(lexer_path()).read().split("\n")
    rule_at = {}
    for i, ln in enumerate(lines, 1):
        m = re.match(r'<STRING>"(%[a-z])"', ln)
        if m:
            rule_at[m.group(1)] = i
    impl = {}
    for c in calls(yl["body"]):
        if c.get("f") == "tree::push_child" and c.get("l", "").startswith("lexer.ll:"):
            line = int(c["l"].split(":")[1])
            a = unwrap(c["a"][0])
            if isinstance(a, dict) and a.get("k") == "call" and a.get("fn") == "parse_subquery":
                from r_tables import strval
                lit = strval(a["a"][0])
                # which rule does this action belong to: the closest rule line above
                owner = None
                for d, rl in rule_at.items():
                    if rl <= line and (owner is None or rl > rule_at[owner]):
                        owner = d
                nxt = min([rl for rl in rule_at.values() if rl > rule_at.get(owner, 0)] + [10 ** 9]) if owner else 0
                if owner and line < nxt and lit is not None:
                    impl[owner] = (lit, c["l"])
    for d, body in sorted(rows.items()):
        key = "N1:" + d
        got = impl.get(d)
        inst.append((key, {"documented": body.strip(), "implemented": got[0] if got else None}))
        if got is None:
            if d in rule_at:
                raise Broken("the action of <STRING>\"%s\" is not `push_child (parse_subquery (literal))` (unmodelled shape)" % d)
            findings.append({"key": key, "where": "libzwerg/lexer.ll", "msg": "documented directive %s has no scanner rule" % d, "detail": None})
        elif got[0].split() != body.split():
            findings.append({"key": key, "where": "libzwerg/" + got[1],
                             "msg": "`%s` is documented as `%%(%s%%)` but implemented as `%%( %s %%)`" % (d, body, got[0]), "detail": None})
    for d in rule_at:
        if d not in rows:
            findings.append({"key": "N1:" + d, "where": "libzwerg/lexer.ll:%d" % rule_at[d], "msg": "scanner implements directive %s which doc/syntax.rst does not define" % d, "detail": None})
    return inst, findings


def n2(prog):
    """infix `A op B` is built as ?(let ~a~ := A; let ~b~ := B; ~a~ ~b~ op): same reserved names at bind and read"""
    inst, findings = [], []
    po = prog.func_opt("(anonymous namespace)::parse_op")
    tm = prog.func_opt("(anonymous namespace)::parse_op_tmplet")
    if po is None or tm is None:
        raise Broken("anchors parse_op / parse_op_tmplet vanished")
    from r_tables import strval
    tmpl_names = [strval(c["a"][0]) for c in calls(po["body"]) if c.get("fn") == "parse_op_tmplet"]
    words = [strval(c["a"][0]) for c in calls(po["body"]) if c.get("fn") == "parse_word" and strval(c["a"][0]) is not None]
    opread = [c for c in calls(po["body"]) if c.get("fn") == "parse_word" and strval(c["a"][0]) is None]
    wrapped = any(c.get("f") == "tree::create_assert" for c in calls(po["body"])) and \
        any(c.get("f", "").startswith("tree::create_unary<") and "PRED_SUBX_ANY" in c.get("f", "") for c in calls(po["body"])) and \
        any(c.get("f") == "tree::create_scope" for c in calls(po["body"]))
    # template: SUBX_EVAL<1>(SCOPE x) then BIND name
    one = any(c.get("f", "").startswith("tree::create_const<") and "SUBX_EVAL" in c["f"] for c in calls(tm["body"]))
    binds = any(c.get("fn") == "tree_for_id_block" for c in calls(tm["body"]))
    key = "N2:parse_op"
    info = {"bound": tmpl_names, "read": words, "reads_operator": len(opread) == 1, "assert_subx_scope": wrapped, "tmplet": one and binds}
    inst.append((key, info))
    ok = len(tmpl_names) == 2 and tmpl_names == words and len(set(tmpl_names)) == 2 and len(opread) == 1 and wrapped and one and binds
    if not ok:
        findings.append({"key": key, "where": po["l"],
                         "msg": "infix comparison is no longer built as ?(let a := A; let b := B; a b op) with matching reserved names (bound %s, read %s)" % (tmpl_names, words), "detail": info})
    return inst, findings
