"""Scanner/grammar rules: Y1 scanner completeness (flex's own DFA analysis), Y4 %destructor for owning
semantic types, N1 format directives are their documented expansions, Z2 escape tables."""
import os, re, subprocess
from zw import Broken, REPO, walk, calls, unwrap, short


def lexer_path():
    return os.path.join(REPO, "libzwerg/lexer.ll")


def y1(prog):
    inst, findings = [], []
    lp = lexer_path()
    r = subprocess.run(["flex", "-s", "-t", "lexer.ll"], cwd=os.path.dirname(lp), stdout=subprocess.DEVNULL,
                       stderr=subprocess.PIPE)
    err = r.stderr.decode()
    if r.returncode != 0:
        raise Broken("flex failed on lexer.ll: %s" % err[-500:])
    inst.append(("Y1:default-rule", {"flex_-s_diagnostics": err.strip().splitlines()}))
    for line in err.splitlines():
        if "default rule can be matched" in line:
            m = re.match(r"[^:]*:(\d+):", line)
            findings.append({"key": "Y1:default-rule", "where": "libzwerg/lexer.ll:%s" % (m.group(1) if m else "?"),
                             "msg": "flex reports that the default rule can be matched: some input byte in some start condition matches no rule and is ECHOed to stdout instead of being scanned or rejected (%s)" % line.strip(),
                             "detail": None})
    # every exclusive start condition (and INITIAL) has an <<EOF>> rule
    txt = open(lp).read()
    parts = txt.split("\n%%")
    if len(parts) < 2:
        raise Broken("lexer.ll has no rules section")
    decls, rules = parts[0], parts[1]
    conds = re.findall(r"(?m)^%[xs]\s+(.+)$", decls)
    conds = [c for l in conds for c in l.split()]
    eofs = re.findall(r"(?m)^(?:<([A-Z_,*]+)>)?<<EOF>>", rules)
    have = set()
    for e in eofs:
        if e == "":
            have.add("INITIAL")
        elif e == "*":
            have |= set(conds) | {"INITIAL"}
        else:
            have |= set(e.split(","))
    for c in conds + ["INITIAL"]:
        key = "Y1:EOF:" + c
        inst.append((key, {"has_eof_rule": c in have}))
        if c not in have:
            findings.append({"key": key, "where": "libzwerg/lexer.ll", "msg": "start condition %s has no <<EOF>> rule: an unterminated construct would end the scan silently" % c, "detail": None})
    if len(conds) < 2:
        raise Broken("fewer start conditions than confirmed by hand (2)")
    return inst, findings
