"""Purity rules (C12, shared with C03): Q1 no hidden mutable state, Q3 caches insert-only,
Q4 shared sequence storage, W1 type-level witnesses."""
import os, subprocess, tempfile
from zw import walk, walk_nolambda, unwrap, short, Broken, calls, field_chain, VERIF

PROTOCOL_BASES = ("op", "pred", "stringer", "builtin", "zw_cdom")   # shared, const objects: ops of a compiled query, constant domains
STATE_MUTATORS = {"insert", "emplace", "emplace_back", "push_back", "erase", "clear", "operator[]", "try_emplace", "insert_or_assign",
                  "pop_back", "resize", "assign", "swap", "append"}


def lib_units(prog):
    return set(prog.info["units"]["LibzwergCore"] + prog.info["units"]["LibzwergDw"])


def in_lib(prog, f):
    return any(u in lib_units(prog) for u in prog.unit_of.get(f["fid"], []))


def root_ref(e):
    """the variable at the root of an lvalue expression a.b[c].d"""
    e = unwrap(e)
    while isinstance(e, dict):
        if e.get("k") == "mem":
            e = unwrap(e["b"])
        elif e.get("k") == "idx":
            e = unwrap(e["b"])
        elif e.get("k") == "call" and e.get("op") in ("[]", "*", "->"):
            e = unwrap(e["a"][0])
        elif e.get("k") == "un" and e.get("op") == "*":
            e = unwrap(e["e"])
        else:
            break
    return e if isinstance(e, dict) else None


def _automatic_only(prog, cls):
    """True iff every object of class `cls` is a non-static local variable"""
    import re
    pat = re.compile(r"(?<![\w])%s(?![\w])" % re.escape(cls.split("::")[-1]))
    for r in prog.records.values():
        if any(pat.search(fl.get("t", "")) for fl in r.get("fields", [])):
            return False
        if any(pat.search(b if isinstance(b, str) else b.get("q", "")) for b in r.get("bases", [])):
            return False
    for g in prog.globals.values():
        if pat.search(g.get("t", "")):
            return False
    for f in prog.funcs.values():
        body = f.get("body")
        if body is None:
            continue
        ok_ctor = set()
        for x in walk(body):
            if x.get("k") == "decl":
                for v in x["vars"]:
                    if v.get("t") == cls or pat.fullmatch(v.get("t", "")):
                        if v.get("static"):
                            return False
                        if isinstance(v.get("init"), dict):
                            ok_ctor.add(id(v["init"]))
        for x in walk(body):
            if x.get("k") == "ctor" and pat.search(x.get("c", "")) and id(x) not in ok_ctor:
                return False
            if x.get("k") == "new" and pat.search(str(x.get("t", ""))):
                return False
            if x.get("k") == "call" and "<" in (x.get("f") or "") and pat.search(x["f"].split("<", 1)[1]):
                return False
    return True


def q1(prog):
    inst, findings = [], []
    # (i) mutable members / const_cast of this in protocol classes
    n_cls = 0
    # the classes of a compiled query: the protocol classes and, transitively, every repository class one of them holds as a data member
    # (by value, through a smart pointer, in a container): an overload dispatch table inside an op is as shared as the op itself
    import re as _re
    graph = set(q for q in prog.records if any(prog.derives(q, b) for b in PROTOCOL_BASES))
    work = list(graph)
    names = sorted(prog.records, key=len, reverse=True)
    while work:
        q = work.pop()
        for fl in prog.records[q].get("fields", []):
            t = str(fl.get("t", ""))
            for cand in names:
                if cand in graph or len(cand) < 4 or cand not in t:
                    continue
                if _re.search(r"(?<![\w:])" + _re.escape(cand) + r"(?![\w])", t) and prog.rel(prog.records[cand].get("file", "")).startswith("libzwerg/") \
                   and not t.rstrip().endswith("&") and not (t.rstrip().endswith("*") and "const" in t):
                    graph.add(cand)
                    work.append(cand)
    for q, r in sorted(prog.records.items()):
        if q not in graph:
            continue
        n_cls += 1
        for fl in r["fields"]:
            if fl.get("mutable"):
                findings.append({"key": "Q1i:%s::%s" % (q, fl["n"]), "where": fl["l"],
                                 "msg": "data member %s::%s of a compiled-query object is `mutable`: a const next()/result() can keep state outside the per-execution scon" % (q, fl["n"]),
                                 "detail": None})
    inst.append(("Q1i:mutable-members", {"protocol_classes": n_cls}))
    n_fn = 0
    for f in prog.funcs.values():
        c = f.get("cls")
        if not c or not any(prog.derives(c, b) for b in PROTOCOL_BASES):
            continue
        n_fn += 1
        for x in walk(f.get("body")):
            if x.get("k") == "cast" and x.get("ck") in ("const", "cstyle"):
                inner = unwrap(x.get("e"))
                if isinstance(inner, dict) and inner.get("k") == "this" and "const" not in x.get("t", ""):
                    findings.append({"key": "Q1i:%s:const_cast" % f["q"], "where": f["l"],
                                     "msg": "%s casts away the constness of `this`" % f["q"], "detail": None})
    inst.append(("Q1i:const_cast-this", {"methods_scanned": n_fn}))

    # (ii) writes to namespace-scope / static-storage variables in library code
    n_scan = 0
    writes = []
    for f in prog.funcs.values():
        if not in_lib(prog, f):
            continue
        n_scan += 1
        for x in walk(f.get("body")):
            tgt = None
            if x.get("k") == "asg":
                tgt = x["lhs"]
            elif x.get("k") == "un" and x.get("op") in ("++", "--"):
                tgt = x["e"]
            elif x.get("k") == "call" and x.get("op") in ("=", "+=", "-=", "++", "--", "<<=", "|=", "&=") and x.get("ismethod"):
                tgt = x["a"][0]
            elif x.get("k") == "call" and x.get("obj") is not None and x.get("fn") in STATE_MUTATORS and \
                    (x.get("cls") or "").startswith(("std::map<", "std::vector<", "std::set<", "std::unordered_", "std::deque<", "std::list<", "std::multimap<", "std::basic_string<")):
                tgt = x["obj"]
            if tgt is None:
                continue
            r = root_ref(tgt)
            if r and r.get("k") == "ref" and r.get("d") in ("global", "slocal"):
                # direct store only (not through a pointer held in the global)
                writes.append((f, x, r))
    inst.append(("Q1ii:global-writes", {"functions_scanned": n_scan, "writes_found": len(writes)}))
    # balanced counters: a static integer whose ONLY writes are one `++` in a constructor and one `--` in the destructor of the
    # same class, and that class is only ever instantiated as a local variable (automatic storage).  Every scope that raises it lowers
    # it again on every exit (also when unwinding), so no call can observe what an earlier, finished call did: it measures nesting depth
    # of C++ frames, it does not remember.  (Recursion-depth guards are written this way.)  A guard that is a member of another object, a
    # base class, or heap-allocated lives as long as that object - in a pull-based engine across zw_result_next calls - and is NOT exempt.
    by_var = {}
    for f, x, r in writes:
        by_var.setdefault(r.get("id"), []).append((f, x))
    balanced = set()
    for vid, ws in by_var.items():
        if len(ws) != 2 or not all(x.get("k") == "un" for _, x in ws):
            continue
        ops = sorted((x.get("op"), f.get("cls"), f["n"]) for f, x in ws)
        (o1, c1, n1), (o2, c2, n2) = ops
        if o1 == "++" and o2 == "--" and c1 and c1 == c2 and n2 == "~" + n1 and _automatic_only(prog, c1):
            balanced.add(vid)
    inst.append(("Q1ii:balanced-counters", {"exempt_by_structure": len(balanced)}))
    for f, x, r in writes:
        name = r.get("q") or r["n"]
        if (f["q"], name) in GLOBAL_WRITE_EXEMPT:
            continue
        if r.get("id") in balanced:
            continue
        findings.append({"key": "Q1ii:%s:%s" % (f["q"], name), "where": x.get("l") or f["l"],
                         "msg": "%s writes static-storage variable `%s`: state shared by all queries and executions" % (f["q"], name),
                         "detail": None})

    # (iii) function-local statics whose initialiser depends on a parameter
    n_static = 0
    for f in prog.funcs.values():
        if not in_lib(prog, f):
            continue
        body = f.get("body")
        if body is None:
            continue
        pids = {p["id"] for p in f.get("params", [])}
        # locals derived from parameters (one pass fixpoint)
        tainted = set(pids)
        changed = True
        decls = [v for x in walk(body) if x.get("k") == "decl" for v in x["vars"]]
        while changed:
            changed = False
            for v in decls:
                if v["id"] in tainted or v.get("init") is None or v.get("static"):
                    continue
                if any(y.get("k") == "ref" and y.get("id") in tainted for y in walk(v["init"])):
                    tainted.add(v["id"])
                    changed = True
        for v in decls:
            if not v.get("static"):
                continue
            n_static += 1
            dep = [y["n"] for y in walk(v.get("init")) if y.get("k") == "ref" and y.get("id") in tainted] if v.get("init") is not None else []
            uses_this = any(y.get("k") == "this" for y in walk(v.get("init"))) if v.get("init") is not None else False
            if dep or uses_this:
                findings.append({"key": "Q1iii:%s:%s" % (f["q"], v["n"]), "where": "%s" % v["l"],
                                 "msg": "function-local static `%s` in %s is initialised from %s: the value is frozen at the first call and silently reused for every later call"
                                        % (v["n"], f["q"], ", ".join(sorted(set(dep))) or "this"),
                                 "detail": None})
    inst.append(("Q1iii:local-statics", {"local_statics": n_static}))
    return inst, findings


# (function, variable) pairs that may write static storage, each with a reason
GLOBAL_WRITE_EXEMPT = {
}

GLOBAL_WRITE_EXEMPT.update({
    ("value_type::alloc", "last"): "type-id allocator; only called from the static initialisers of the `vtype` constants, never on a parse/execute path",
})

CACHE_CLASSES = {"parent_cache": "m_cache", "root_cache": "m_cache"}
CACHE_OK = {"find", "end", "begin", "cend", "cbegin", "insert", "emplace", "count", "at", "size", "empty", "try_emplace"}


def q3(prog):
    inst, findings = [], []
    for cls, fld in CACHE_CLASSES.items():
        if cls not in prog.records or not any(f["n"] == fld for f in prog.records[cls]["fields"]):
            raise Broken("anchor %s::%s vanished" % (cls, fld))
    n = 0
    for f in prog.funcs.values():
        for x in walk(f.get("body")):
            uses = []
            if x.get("k") == "call" and x.get("obj") is not None:
                o = unwrap(x["obj"])
                if isinstance(o, dict) and o.get("k") == "mem" and o.get("c") in CACHE_CLASSES and o["n"] == CACHE_CLASSES[o["c"]]:
                    n += 1
                    if x.get("fn") not in CACHE_OK:
                        findings.append({"key": "Q3:%s:%s" % (f["q"], x.get("fn")), "where": x["l"],
                                         "msg": "%s calls %s on the %s cache: entries may be dropped or replaced while DIE values that were derived from them are alive" % (f["q"], x.get("fn"), o["c"]),
                                         "detail": None})
            if x.get("k") == "call" and x.get("op") == "[]" and x.get("a"):
                o = unwrap(x["a"][0])
                if isinstance(o, dict) and o.get("k") == "mem" and o.get("c") in CACHE_CLASSES and o["n"] == CACHE_CLASSES[o["c"]]:
                    n += 1
                    findings.append({"key": "Q3:%s:operator[]" % f["q"], "where": x["l"],
                                     "msg": "%s indexes the %s cache with operator[] (inserts/overwrites silently)" % (f["q"], o["c"]), "detail": None})
            if x.get("k") in ("asg",) or (x.get("k") == "call" and x.get("op") == "="):
                lhs = x["lhs"] if x.get("k") == "asg" else x["a"][0]
                o = unwrap(lhs)
                if isinstance(o, dict) and o.get("k") == "mem" and o.get("c") in CACHE_CLASSES and o["n"] == CACHE_CLASSES[o["c"]]:
                    n += 1
                    findings.append({"key": "Q3:%s:assign" % f["q"], "where": x.get("l") or f["l"],
                                     "msg": "%s replaces the %s cache" % (f["q"], o["c"]), "detail": None})
    inst.append(("Q3:cache-uses", {"uses": n}))
    if n < 4:
        raise Broken("fewer cache uses found (%d) than confirmed by hand (4)" % n)
    return inst, findings


VEC_MUT = {"push_back", "emplace_back", "insert", "emplace", "erase", "clear", "pop_back", "resize", "assign", "swap"}


def _owned_operand(e):
    """is e (the object get_seq() is called on) a by-value unique_ptr<value_seq> parameter"""
    e = unwrap(e)
    return isinstance(e, dict) and e.get("k") == "ref" and e.get("d") == "param" and \
        e.get("t", "").startswith("std::unique_ptr<value_seq") and not e.get("t", "").rstrip().endswith("&")


def q4(prog):
    inst, findings = [], []
    n_get = 0
    for f in prog.funcs.values():
        body = f.get("body")
        if body is None:
            continue
        gets = [c for c in calls(body) if c.get("f") == "value_seq::get_seq"]
        if not gets:
            continue
        # variables initialised from get_seq()
        var_src = {}
        for x in walk(body):
            if x.get("k") == "decl":
                for v in x["vars"]:
                    i = v.get("init")
                    if i is None:
                        continue
                    for g in gets:
                        if any(y is g for y in walk(i)):
                            const = "const" in v.get("t", "")
                            var_src[v["id"]] = (g, const, v)
        for g in gets:
            n_get += 1

        def src_of(e):
            """get_seq call feeding expression e (directly or through a non-const variable)"""
            e = unwrap(e)
            if isinstance(e, dict) and e.get("k") == "call" and e.get("f") == "value_seq::get_seq":
                return e
            if isinstance(e, dict) and e.get("k") == "ref" and e.get("id") in var_src and not var_src[e["id"]][1]:
                return var_src[e["id"]][0]
            return None
        muts = []
        for x in walk(body):
            if x.get("k") == "call" and x.get("ismethod") and x.get("fn") in VEC_MUT and x.get("obj") is not None:
                g = src_of(x["obj"])
                if g is not None:
                    muts.append((x.get("l"), g, "%s()" % x["fn"]))
            if x.get("k") == "rfor" and "const" not in x["var"].get("t", ""):
                g = src_of(x["range"])
                if g is not None:
                    vid = x["var"]["id"]
                    for y in walk(x["body"]):
                        if y.get("k") == "call" and y.get("f", "").startswith("std::move<") and \
                           isinstance(unwrap(y["a"][0]), dict) and unwrap(y["a"][0]).get("id") == vid:
                            muts.append((y.get("l"), g, "move out of element"))
        for loc, g, what in muts:
            key = "Q4:%s:%s" % (f["q"], what)
            inst.append((key, {"at": loc, "storage_of": short(g.get("obj"))}))
            if not _owned_operand(g.get("obj")):
                findings.append({"key": key, "where": loc,
                                 "msg": "%s mutates sequence storage obtained through get_seq() of `%s`, which is not an operand it owns: the storage may be shared with a value still on some stack" % (f["q"], short(g.get("obj"))),
                                 "detail": None})
        # sharing constructor
        for x in walk(body):
            if x.get("k") == "ctor" and x.get("c") == "value_seq" and x.get("fid", "").startswith("value_seq::value_seq(std::shared_ptr<"):
                a = unwrap(x["a"][0])
                g = src_of(a)
                key = "Q4:%s:share@%s" % (f["q"], x["l"])
                inst.append((key, {"storage": short(a)}))
                ok = (g is not None and _owned_operand(g.get("obj"))) or \
                     (isinstance(a, dict) and a.get("k") == "call" and a.get("f", "").startswith("std::make_shared<"))
                if not ok:
                    findings.append({"key": key, "where": x["l"],
                                     "msg": "%s builds a value_seq that shares storage `%s` which does not come from a dying operand" % (f["q"], short(a)),
                                     "detail": None})
    if n_get < 5:
        raise Broken("fewer get_seq() uses (%d) than confirmed by hand" % n_get)
    inst.append(("Q4:get_seq-uses", {"uses": n_get}))
    return inst, findings


def w1(prog):
    """type-level facts the protocol relies on (from the type-checked class definitions)"""
    inst, findings = [], []
    want = [("op", "next"), ("op", "state_con"), ("op", "state_des"), ("pred", "result"),
            ("stringer", "next"), ("stringer", "state_con"), ("stringer", "state_des")]
    for cls, m in want:
        r = prog.records.get(cls)
        if r is None:
            raise Broken("class %s vanished" % cls)
        ms = [x for x in r["methods"] if x["n"] == m]
        if not ms:
            raise Broken("%s::%s vanished" % (cls, m))
        key = "W1:%s::%s" % (cls, m)
        inst.append((key, {"const": all(x["const"] for x in ms), "virtual": all(x["virtual"] for x in ms)}))
        if not all(x["const"] for x in ms):
            findings.append({"key": key, "where": ms[0]["l"],
                             "msg": "%s::%s is no longer a const member function: op objects may now carry per-execution state" % (cls, m),
                             "detail": None})
    r = prog.records.get("zw_query")
    if r is None:
        raise Broken("struct zw_query vanished")
    bad = [f for f in r["fields"] if "scon" in f["t"] or "stack" in f["t"]]
    inst.append(("W1:zw_query-holds-no-execution-state", {"fields": [f["n"] + ": " + f["t"][:40] for f in r["fields"]]}))
    for f in bad:
        findings.append({"key": "W1:zw_query::" + f["n"], "where": f["l"],
                         "msg": "zw_query holds execution state (%s) that would be shared by all executions" % f["t"], "detail": None})
    return inst, findings


def q4c(prog):
    """storage that some operation mutates in place (value_seq::m_seq, reached through get_seq()) is never aliased by copying:
    every initialisation/assignment of the field is a fresh allocation, except in the explicit sharing constructor"""
    inst, findings = [], []
    # which field does get_seq() hand out
    gs = prog.func_opt("value_seq::get_seq")
    if gs is None:
        raise Broken("anchor value_seq::get_seq vanished")
    rets = [x for x in walk(gs["body"]) if x.get("k") == "return"]
    fld = None
    if len(rets) == 1:
        e = unwrap(rets[0]["e"])
        if isinstance(e, dict) and e.get("k") == "mem":
            fld = e["n"]
    if fld is None:
        raise Broken("value_seq::get_seq no longer returns a member directly (unmodelled shape)")

    def arms(e):
        u = e
        while isinstance(u, dict) and u.get("k") in ("ilist", "ctor") and len(u.get("a", [])) == 1 and not (u.get("k") == "ctor" and not u.get("cm") and False):
            nxt = u["a"][0]
            if isinstance(nxt, dict) and nxt.get("k") in ("ilist", "ctor", "cond", "call", "ref", "mem"):
                u = nxt
            else:
                break
        if isinstance(u, dict) and u.get("k") == "cond":
            return arms(u["a"]) + arms(u["b"])
        return [u]
    sites = []
    for f in prog.funcs.values():
        if f.get("cls") != "value_seq":
            continue
        for i in f.get("inits", []):
            if i.get("field") == fld and i.get("written"):
                sites.append((f, i["init"], f["l"]))
        for x in walk(f.get("body")):
            if x.get("k") == "asg" and isinstance(unwrap(x["lhs"]), dict) and unwrap(x["lhs"]).get("k") == "mem" and unwrap(x["lhs"])["n"] == fld:
                sites.append((f, x["rhs"], x.get("l") or f["l"]))
            if x.get("k") == "call" and x.get("op") == "=" and x["a"] and isinstance(unwrap(x["a"][0]), dict) and \
               unwrap(x["a"][0]).get("k") == "mem" and unwrap(x["a"][0])["n"] == fld and unwrap(x["a"][0]).get("c") == "value_seq":
                sites.append((f, x["a"][1], x.get("l") or f["l"]))
    if len(sites) < 3:
        raise Broken("fewer initialisations of value_seq::%s than confirmed by hand (3)" % fld)
    for f, init, loc in sites:
        key = "Q4c:%s@%s" % (f["fid"].split("(")[0] + "/" + str(len(f["params"])), loc)
        verdicts = []
        for a in arms(init):
            u = unwrap(a)
            if isinstance(u, dict) and u.get("k") == "call" and u.get("f", "").startswith("std::make_shared<"):
                verdicts.append("fresh")
            elif isinstance(u, dict) and u.get("k") == "ref" and u.get("d") == "param":
                verdicts.append("param:" + u["n"])
            elif isinstance(u, dict) and u.get("k") == "mem" and u["n"] == fld:
                verdicts.append("alias:" + short(u))
            else:
                verdicts.append("other:" + short(u)[:40])
        inst.append((key, {"initialised_from": verdicts}))
        is_sharing_ctor = f.get("isctor") and any(p["t"].startswith("std::shared_ptr<") for p in f["params"])
        for v in verdicts:
            if v.startswith("alias:") or (v.startswith("param:") and not is_sharing_ctor):
                findings.append({"key": key, "where": loc,
                                 "msg": "%s makes the new value share the element storage of another sequence (%s); `add` concatenates in place into that storage, so a copy (the constant of a `[]` literal, a value on the caller's input stack) can be modified by an execution" % (f["q"], v),
                                 "detail": None})
            elif v.startswith("other:"):
                raise Broken("initialiser of value_seq::%s at %s has an unmodelled shape: %s" % (fld, loc, v))
    return inst, findings


def q3b(prog):
    """a cache entry becomes visible only when complete: after the insertion into a cache no call that may throw runs in the
    same function (an exception would leave a half-filled entry that later executions trust)"""
    import r_api
    from cfg import CFG
    inst, findings = [], []
    mt = r_api.may_throw(prog)
    n = 0
    for f in prog.funcs.values():
        if f.get("cls") not in CACHE_CLASSES:
            continue
        g = None
        for x in calls(f.get("body")):
            if x.get("fn") in ("insert", "emplace", "try_emplace", "operator[]") and x.get("obj") is not None:
                o = unwrap(x["obj"])
                if not (isinstance(o, dict) and o.get("k") == "mem" and o.get("c") in CACHE_CLASSES and o["n"] == CACHE_CLASSES[o["c"]]):
                    continue
                n += 1
                g = g or CFG(f)
                node = [nn for nn in g.nodes if isinstance(nn.ast, dict) and any(y is x for y in walk_nolambda(nn.ast))]
                if not node:
                    raise Broken("cache insertion not found in the CFG of %s" % f["q"])
                after = g.reachable(start=node[0].id) - {node[0].id}
                key = "Q3b:%s@%s" % (f["q"], x["l"])
                bad = None
                for i in after:
                    nn = g.nodes[i]
                    if not isinstance(nn.ast, dict):
                        continue
                    thr, wit = mt.stmts_may_throw(f["q"], [nn.ast])
                    if thr:
                        bad = (nn.loc, wit)
                        break
                inst.append((key, {"may_throw_after_insertion": bool(bad)}))
                if bad:
                    findings.append({"key": "Q3b:%s" % f["q"], "where": bad[0] or x["l"],
                                     "msg": "%s inserts the cache entry at %s and afterwards runs code that may throw (%s): an error while the entry is being filled leaves a partial entry that every later execution on the same Dwarf value answers from" % (f["q"], x["l"], " -> ".join(bad[1][:3])),
                                     "detail": None})
    if n < 2:
        raise Broken("fewer cache insertions than confirmed by hand (2)")
    return inst, findings


def q5(prog):
    """libdw's / libdwfl's error indicator (dwarf_errno, dwfl_errno) is process-thread state that is reset only by reading it; calls
    that succeed leave it alone.  Reading it to REPORT a failure that the failing call's own return value has already established is
    fine (throw_libdw).  Using its value to DECIDE whether something failed makes the outcome depend on what was evaluated earlier,
    unless the indicator was cleared first: in every library function, each read of the indicator whose value reaches a condition must
    be preceded, on every CFG path from the function's entry, by a read whose value is discarded (the reset)."""
    from cfg import CFG
    inst, findings = [], []
    IND = ("dwarf_errno", "dwfl_errno")
    n_read = 0
    for f in sorted(prog.funcs.values(), key=lambda f: f["fid"]):
        if not in_lib(prog, f) or f.get("body") is None:
            continue
        reads = [c for c in walk_nolambda(f["body"]) if c.get("k") == "call" and c.get("fn") in IND]
        if not reads:
            continue
        n_read += len(reads)
        g = CFG(f)

        def node_reads(n):
            return [c for c in walk_nolambda(n.ast) if c.get("k") == "call" and c.get("fn") in IND] if isinstance(n.ast, dict) else []
        deciding, resets = [], set()
        for n in g.nodes:
            rs = node_reads(n)
            if not rs:
                continue
            a = n.ast
            # a bare call statement discards the value: the reset
            if n.kind == "stmt" and a.get("k") == "call" and a.get("fn") in IND:
                resets.add(n.id)
                continue
            # the value is tested: the node is a condition, or a declaration that serves as one (`if (int e = dwarf_errno ())`)
            is_cond = n.kind in ("cond", "switch")
            if n.kind == "stmt" and a.get("k") == "decl":
                ids = {v["id"] for v in a.get("vars", [])}
                for m in g.nodes:
                    if m.kind in ("cond", "switch") and isinstance(m.ast, dict) and any(y.get("k") == "ref" and y.get("id") in ids for y in walk_nolambda(m.ast)):
                        is_cond = True
                # `if (T x = init)` is modelled as decl + implicit test of x
                for x in walk_nolambda(f["body"]):
                    if x.get("k") in ("if", "while") and isinstance(x.get("var"), dict) and x["var"].get("id") in ids:
                        is_cond = True
            if is_cond:
                deciding.append(n)
        for n in deciding:
            key = "Q5:%s@%s" % (f["q"], (n.loc or "").split(":")[-1])
            reach = g.reachable(avoid=lambda m: m.id in resets)
            unguarded = n.id in reach
            inst.append((key, {"reset_on_every_path": not unguarded}))
            if unguarded:
                findings.append({"key": "Q5:" + f["q"], "where": "libzwerg/" + str(n.loc or f["l"]),
                                 "msg": "%s decides on the value of libdw's sticky error indicator without clearing it first: a call that succeeded earlier (in this or any earlier "
                                        "evaluation on the thread) may have left it set, so the same operation succeeds or fails depending on history" % f["q"], "detail": None})
    inst.append(("Q5:reads", {"reads_of_the_indicator": n_read}))
    if n_read < 2:
        raise Broken("fewer reads of libdw's error indicator than confirmed by hand (3)")
    return inst, findings


def q6(prog):
    """A compiled query is shared by all its executions and by every application of a closure: the objects of its op graph (ops,
    stringers, predicates, origins) must not change after the query has been built.  For every class of the op graph, every member
    function that may modify its object (r_pred.field_writers: assigns a field, calls a mutating container member on one, or calls
    another such member) must be unreachable, in the call graph over resolved callees (virtual calls resolved to all overriders), from
    the execution entry points next / set_next / result / state_con / state_des of any op-graph class."""
    import r_pred
    inst, findings = [], []
    writers, _ = r_pred.field_writers(prog)
    graph_cls = set()
    for q in prog.records:
        bs = [q] + prog.bases(q)
        if any(b in ("op", "pred", "stringer") for b in bs):
            graph_cls.add(q)
    if len(graph_cls) < 30:
        raise Broken("only %d classes of the op graph found (floor 30)" % len(graph_cls))
    w_graph = {fid for fid in writers if prog.funcs[fid].get("cls") in graph_cls}
    roots = [f for f in prog.funcs.values() if f.get("cls") in graph_cls and f["n"] in ("next", "set_next", "result", "state_con", "state_des") and f.get("body") is not None]
    # call graph over resolved callees; virtual calls go to every overrider
    over = {}
    for f in prog.funcs.values():
        for o in f.get("overrides", []) or []:
            over.setdefault(o, []).append(f["fid"])
    seen, work, via = set(), [f["fid"] for f in roots], {}
    while work:
        fid = work.pop()
        if fid in seen:
            continue
        seen.add(fid)
        f = prog.funcs.get(fid)
        if f is None or f.get("body") is None:
            continue
        for c in walk(f["body"]):
            if c.get("k") != "call" or not c.get("fid"):
                continue
            tgts = [c["fid"]] + (over.get(c["fid"], []) if c.get("virt") else [])
            for t in tgts:
                if t not in seen:
                    via.setdefault(t, fid)
                    work.append(t)
    for fid in sorted(w_graph):
        f = prog.funcs[fid]
        key = "Q6:" + f["q"]
        inst.append((key, {"reachable_from_execution": fid in seen}))
        if fid in seen:
            chain, cur = [], fid
            while cur in via and len(chain) < 6:
                cur = via[cur]
                chain.append(prog.funcs[cur]["q"] if cur in prog.funcs else cur)
            findings.append({"key": key, "where": "libzwerg/" + f["l"],
                             "msg": "%s modifies an object of the compiled query's op graph and is reachable from execution (%s): the query is shared by all of its "
                                    "result sets and closure applications, so live executions change each other's results" % (f["q"], " <- ".join(chain) or "an execution entry point"),
                             "detail": None})
    inst.append(("Q6:classes", {"op_graph_classes": len(graph_cls), "modifying_member_functions": len(w_graph), "execution_entry_points": len(roots)}))
    return inst, findings
