"""Core-word dispatch rules (C11): P1 result numbering, P2 stack profile maintenance, P3 unsupported operand."""
import os
from zw import REPO, null_case_region, walk, walk_nolambda, unwrap, short, Broken, calls, field_chain
from cfg import CFG
from r_pred import VEC_SHAPE


def p2(prog):
    inst, findings = [], []
    meths = [f for f in prog.funcs.values() if f.get("cls") == "stack"]
    if len(meths) < 8:
        raise Broken("fewer stack member functions with bodies than confirmed by hand")
    n = 0
    for f in meths:
        mut = []
        for x in walk(f.get("body")):
            if x.get("k") == "call" and x.get("obj") is not None and x.get("fn") in VEC_SHAPE:
                o = unwrap(x["obj"])
                if isinstance(o, dict) and o.get("k") == "mem" and o.get("c") == "stack" and o["n"] == "m_values" and \
                   isinstance(unwrap(o["b"]), dict) and unwrap(o["b"]).get("k") == "this":
                    mut.append(x)
        if not mut:
            continue
        n += 1
        writes = [x for x in walk(f.get("body")) if x.get("k") == "asg" and isinstance(unwrap(x["lhs"]), dict)
                  and unwrap(x["lhs"]).get("k") == "mem" and unwrap(x["lhs"])["n"] == "m_profile"]
        inits = [i for i in f.get("inits", []) if i.get("field") == "m_profile" and i.get("written")]
        key = "P2:" + f["fid"].split("(")[0]
        inst.append((key, {"mutates_values_at": [m["l"] for m in mut], "profile_writes": len(writes) + len(inits)}))
        if not writes and not inits:
            findings.append({"key": key, "where": f["l"],
                             "msg": "%s changes the number of values on the stack (%s) without updating m_profile: overload dispatch would select on a stale type profile" % (f["q"], mut[0]["fn"]),
                             "detail": None})
    if n < 4:
        raise Broken("fewer stack mutators than confirmed by hand (push, pop, drop, copy constructor)")
    # type-level facts the profile arithmetic relies on
    w = prog.globals.get("selector::W")
    wv = (w.get("init") or {}).get("iv") if w else None
    code_t = [fl["t"] for fl in prog.records.get("value_type", {"fields": []})["fields"] if fl["n"] == "m_code"]
    prof_t = [fl["t"] for fl in prog.records.get("stack", {"fields": []})["fields"] if fl["n"] == "m_profile"]
    ok = wv == 4 and code_t == ["unsigned char"] and prof_t and prof_t[0] in ("unsigned int",)
    inst.append(("P2:witness", {"selector::W": wv, "value_type::m_code": code_t, "stack::m_profile": prof_t}))
    if not ok:
        findings.append({"key": "P2:witness", "where": "libzwerg/selector.hh",
                         "msg": "the profile encoding assumptions changed (selector::W=%s, type code %s, profile %s): 8 bits per slot x W slots no longer fit" % (wv, code_t, prof_t), "detail": None})
    return inst, findings


def _pos_index(prog, cls, nargs):
    """index of the parameter named `pos` in the constructors of value class cls with nargs parameters"""
    idx = set()
    for g in prog.funcs.values():
        if g.get("cls") == cls and g.get("isctor") and len(g["params"]) == nargs:
            for i, p in enumerate(g["params"]):
                if p["n"] == "pos":
                    idx.add(i)
    return idx.pop() if len(idx) == 1 else None


def p1(prog):
    inst, findings = [], []
    prods = sorted(q for q in prog.records if any(b.startswith("value_producer<") for b in prog.bases(q)))
    if len(prods) < 18:
        raise Broken("only %d value_producer classes found (floor 18)" % len(prods))
    for cls in prods:
        nexts = [f for f in prog.funcs.values() if f.get("cls") == cls and f["n"] == "next"]
        if not nexts:
            continue
        f = nexts[0]
        fam = [cls] + prog.bases(cls)
        ctors = [g for g in prog.funcs.values() if g.get("cls") in fam and g.get("isctor")]
        positions = []
        for c in walk(f["body"]):
            args = None
            vcls = None
            if c.get("k") == "call" and c.get("f", "").startswith("std::make_unique<") and c.get("targs"):
                vcls, args = c["targs"][0], c["a"]
            elif c.get("k") == "ctor" and c.get("c", "").startswith("value_") and not c.get("cm"):
                vcls, args = c["c"], c["a"]
            elif c.get("k") == "call" and c.get("fn") == "set_pos":
                positions.append((c["a"][0], c.get("l")))
                continue
            if args is None or not isinstance(vcls, str) or not vcls.startswith(("value_", "zw_value")):
                continue
            pi = _pos_index(prog, vcls, len(args))
            if pi is None:
                continue
            positions.append((args[pi], c.get("l")))
        key = "P1:" + cls
        info = {"positions": [short(p[0]) for p in positions]}
        inst.append((key, info))
        for pe, loc in positions:
            u = unwrap(pe)
            if isinstance(u, dict) and u.get("k") in ("int",) and u["v"] == 0:
                continue
            if isinstance(u, dict) and u.get("k") == "un" and u.get("op") == "++":
                fld = field_chain(u["e"])
                if not u.get("post"):
                    findings.append({"key": key, "where": loc, "msg": "%s numbers its results with a pre-increment (`%s`): positions start at 1 instead of 0" % (cls, short(u)), "detail": None})
                    continue
                if fld and fld[0] == "this" and fld[1]:
                    name = fld[1][0]
                    # zero-initialised in every constructor
                    for g in ctors:
                        init = [i for i in g.get("inits", []) if i.get("field") == name]
                        v = unwrap(init[0]["init"]) if init else None
                        while isinstance(v, dict) and v.get("k") in ("ilist", "ctor") and len(v.get("a", [])) == 1:
                            v = unwrap(v["a"][0])
                        zero = isinstance(v, dict) and ((v.get("k") == "int" and v["v"] == 0) or v.get("k") == "zero" or v.get("iv") == 0)
                        if init and not zero:
                            findings.append({"key": key, "where": g["l"], "msg": "%s initialises its result counter `%s` with `%s`: results are not numbered from 0" % (cls, name, short(init[0]["init"])), "detail": None})
                    # incremented exactly at yields: no other increment of the counter in next()
                    incs = [y for y in walk(f["body"]) if y.get("k") in ("un",) and y.get("op") in ("++", "--") and field_chain(y["e"]) == fld]
                    incs += [y for y in walk(f["body"]) if y.get("k") == "asg" and field_chain(y["lhs"]) == fld]
                    if len(incs) > len([p for p in positions if field_chain(unwrap(p[0]).get("e") if isinstance(unwrap(p[0]), dict) and unwrap(p[0]).get("k") == "un" else None) == fld]):
                        findings.append({"key": key, "where": f["l"], "msg": "%s changes its result counter `%s` other than once per yielded value" % (cls, name), "detail": None})
                continue
            info.setdefault("other", []).append(short(pe))
    return inst, findings


def p3(prog):
    inst, findings = [], []
    f = prog.func_opt("overload_op::next")
    if f is None:
        raise Broken("anchor overload_op::next vanished")
    # the branch taken when no overload matches: `get<0>(find_exec(..)) == nullptr` in any spelling
    hit, region, _ = null_case_region(f, lambda c: c.get("fn") == "find_exec", True, "find_exec")
    diag = any(c.get("fn") == "show_error" for st in region for c in calls(st))
    # no result and no end of stream either: the op goes on to pull the next input (a `return`, even of nullptr, would drop it)
    yields = any(y.get("k") == "return" for st in region for y in walk(st)) or \
        any(c.get("fn") in ("set_next", "emplace") for st in region for c in calls(st))
    inst.append(("P3:overload_op::next", {"diagnostic": diag, "yields_or_feeds": yields}))
    if not diag or yields:
        findings.append({"key": "P3:overload_op::next", "where": hit["l"],
                         "msg": "when no overload matches the operand types, overload_op::next must print a diagnostic and produce nothing (diagnostic=%s, yields/feeds=%s)" % (diag, yields), "detail": None})
    se = prog.func_opt("show_expects")
    if se is None:
        raise Broken("anchor show_expects vanished")
    to_cerr = any(y.get("k") == "ref" and y.get("q") == "std::cerr" for y in walk(se["body"]))
    inst.append(("P3:show_expects", {"writes_cerr": to_cerr}))
    if not to_cerr:
        findings.append({"key": "P3:show_expects", "where": se["l"], "msg": "the unsupported-operand diagnostic is no longer written to std::cerr", "detail": None})
    g = prog.func_opt("overload_pred::result")
    if g is None:
        raise Broken("anchor overload_pred::result vanished")
    hit, region, _ = null_case_region(g, lambda c: c.get("fn") == "find_pred", False, "find_pred")
    rets = [r for st in region for r in walk(st) if r.get("k") == "return"]
    ok = bool(rets) and all(isinstance(unwrap(r.get("e")), dict) and unwrap(r["e"]).get("n") == "fail" for r in rets) and \
        any(c.get("fn") == "show_error" for st in region for c in calls(st))
    inst.append(("P3:overload_pred::result", {"fails_with_diagnostic": ok}))
    if not ok:
        findings.append({"key": "P3:overload_pred::result", "where": g["l"], "msg": "a predicate word applied to unsupported operand types must print a diagnostic and answer `fail` (neither ?x nor !x holds)", "detail": None})
    return inst, findings


def _is_null_return(r):
    e = unwrap(r.get("e")) if r.get("e") is not None else None
    return e is None or (isinstance(e, dict) and (e.get("k") == "null" or short(e) in ("nullptr", "std::unique_ptr{nullptr}")))


# ---------------------------------------------------------------------------
# P2b: the profile invariant, by abstract evaluation of stack's own member functions

class OutOfBounds(Exception):
    """the interpreted code dereferenced an iterator outside its vector: positive evidence of a memory error"""


class _TypeObj:
    def __init__(self, code):
        self._code = code


class _Val:
    def __init__(self, code):
        self.code = code

    def __repr__(self):
        return "T%d" % self.code


class _It:
    """iterator over a _Vec: position counted from the front (reverse=False) or from the back (reverse=True)"""
    def __init__(self, vec, pos, reverse=False):
        self.vec, self.pos, self.reverse = vec, pos, reverse

    def arith(self, op, n):
        return _It(self.vec, self.pos + (n if op == "+" else -n), self.reverse)

    def cmp_with(self, op, other):
        a, b = self.pos, other.pos
        return {"==": a == b, "!=": a != b, "<": a < b, ">": a > b, "<=": a <= b, ">=": a >= b}[op]

    def deref(self):
        i = (len(self.vec.items) - 1 - self.pos) if self.reverse else self.pos
        if not (0 <= i < len(self.vec.items)):
            raise OutOfBounds("element %d of a vector of %d" % (i, len(self.vec.items)))
        return self.vec.items[i]


class _Vec:
    def __init__(self):
        self.items = []


class _Stack:
    def __init__(self):
        self.m_values = _Vec()
        self.m_profile = 0

    def on_store(self, name, val):
        return val & 0xffffffff if name == "m_profile" else val


def p2b(prog, tier="quick"):
    from absint import Evaluator, Thrown
    inst, findings = [], []
    meth = {}
    for n in ("push", "pop", "drop", "need"):
        fs = [f for f in prog.funcs.values() if f.get("cls") == "stack" and f["n"] == n]
        if len(fs) != 1:
            raise Broken("anchor stack::%s vanished" % n)
        meth[n] = fs[0]
    gets = [f for f in prog.funcs.values() if f.get("cls") == "stack" and f["n"] == "get" and not f.get("const")]
    if len(gets) != 1:
        raise Broken("anchor stack::get (non-const) vanished")
    meth["get"] = gets[0]
    w = prog.globals.get("selector::W")
    W = (w.get("init") or {}).get("iv") if w else None
    if W is None:
        raise Broken("selector::W is not a compile-time constant")
    hooks = {
        "method:size": lambda ev, o, a: len(o.items),
        "method:back": lambda ev, o, a: o.items[-1] if o.items else (_ for _ in ()).throw(Broken("back() on an empty vector")),
        "method:pop_back": lambda ev, o, a: o.items.pop(),
        "method:push_back": lambda ev, o, a: o.items.append(a[0]),
        "method:operator[]": lambda ev, o, a: o.items[int(a[0])] if 0 <= int(a[0]) < len(o.items) else (_ for _ in ()).throw(Broken("operator[] outside the value vector")),
        "method:at": lambda ev, o, a: o.items[int(a[0])] if 0 <= int(a[0]) < len(o.items) else (_ for _ in ()).throw(Thrown("std::out_of_range")),
        "method:end": lambda ev, o, a: _It(o, len(o.items)),
        "method:begin": lambda ev, o, a: _It(o, 0),
        "method:rbegin": lambda ev, o, a: _It(o, 0, True),
        "method:erase": lambda ev, o, a: o.items.__delitem__(slice(a[0].pos, a[1].pos)),
        "method:operator*": lambda ev, o, a: o.deref() if isinstance(o, _It) else o,
        "method:operator->": lambda ev, o, a: o.deref() if isinstance(o, _It) else o,
        "method:operator-": lambda ev, o, a: o.arith("-", a[0]),
        "method:operator+": lambda ev, o, a: o.arith("+", a[0]),
        "method:get": lambda ev, o, a: o,
        "method:release": lambda ev, o, a: o,
        "zw_value::get_type": lambda ev, o, a: _TypeObj(o.code),
        "value_type::code": lambda ev, o, a: o._code,
        "stack::need": lambda ev, o, a: ev.call(meth["need"], o, a),
        "stack::get": lambda ev, o, a: ev.call(meth["get"], o, a),
        "stack::pop": lambda ev, o, a: ev.call(meth["pop"], o, a),
        "ctor:std::runtime_error": lambda ev, o, a: "exc",
    }
    ev = Evaluator(hooks, {"selector::W": W}, ptr_lt=True, prog=prog)

    def expect(st):
        v = 0
        for d in range(min(W, len(st.m_values.items))):
            v |= st.m_values.items[-1 - d].code << (8 * d)
        return v & 0xffffffff

    def clone(st):
        c = _Stack()
        c.m_values.items = list(st.m_values.items)
        c.m_profile = st.m_profile
        return c
    codes = (1, 2, 3) if tier == "thorough" else (1, 2)
    maxd = W + 3 if tier == "thorough" else W + 2
    n_eval = 0
    bad = None

    def check(st, what, trace):
        nonlocal bad
        if bad is None and st.m_profile != expect(st):
            bad = "%s: after %s the stack %s has profile %#x, expected %#x" % (what, " ".join(trace), st.m_values.items, st.m_profile, expect(st))
    # all stacks built by pushes
    try:
        return _p2b_body(prog, tier, ev, meth, W, expect, clone, inst, findings)
    except OutOfBounds as e:
        findings.append({"key": "P2b:profile-invariant", "where": "libzwerg/stack.hh",
                         "msg": "a stack member function reads %s while maintaining the profile" % e, "detail": None})
        return inst, findings


def _p2b_body(prog, tier, ev, meth, W, expect, clone, inst, findings):
    from absint import Thrown
    codes = (1, 2, 3) if tier == "thorough" else (1, 2)
    maxd = W + 3 if tier == "thorough" else W + 2
    n_eval = 0
    bad = None

    def check(st, what, trace):
        nonlocal bad
        if bad is None and st.m_profile != expect(st):
            bad = "%s: after %s the stack %s has profile %#x, expected %#x" % (what, " ".join(trace), st.m_values.items, st.m_profile, expect(st))
    frontier = [(_Stack(), [])]
    allst = []
    while frontier:
        st, trace = frontier.pop()
        allst.append((st, trace))
        if len(st.m_values.items) >= maxd:
            continue
        for c in codes:
            s2 = clone(st)
            ev.call(meth["push"], s2, [_Val(c)])
            n_eval += 1
            check(s2, "push", trace + ["push(T%d)" % c])
            frontier.append((s2, trace + ["push(T%d)" % c]))
    for st, trace in allst:
        depth = len(st.m_values.items)
        # runs of pops
        s2 = clone(st)
        t2 = list(trace)
        for i in range(depth):
            ev.call(meth["pop"], s2, [])
            n_eval += 1
            t2 = t2 + ["pop"]
            check(s2, "pop", t2)
        for n in range(depth + 1):
            s3 = clone(st)
            ev.call(meth["drop"], s3, [n])
            n_eval += 1
            check(s3, "drop", trace + ["drop(%d)" % n])
            if depth - n >= 1:
                ev.call(meth["pop"], s3, [])
                check(s3, "pop", trace + ["drop(%d)" % n, "pop"])
    # precondition failures throw
    try:
        ev.call(meth["pop"], _Stack(), [])
        underflow_throws = False
    except Thrown:
        underflow_throws = True
    inst.append(("P2b:profile-invariant", {"stacks": len(allst), "type_codes": len(codes), "max_depth": maxd,
                                            "interpreted_calls": n_eval, "W": W}))
    if bad:
        findings.append({"key": "P2b:profile-invariant", "where": "libzwerg/stack.hh",
                         "msg": "the cached type profile no longer equals the types of the top %d values: %s; overload dispatch then depends on how the stack was built" % (W, bad),
                         "detail": None})
    inst.append(("P2b:underflow", {"pop_on_empty_throws": underflow_throws}))
    if not underflow_throws:
        findings.append({"key": "P2b:underflow", "where": "libzwerg/stack.hh", "msg": "pop on an empty stack no longer raises an error", "detail": None})
    return inst, findings


# ops that by definition keep operand values (and their positions): stack shuffling and value transfer
REPUSH_OK = {
    "op_swap": "shuffling word", "op_rot": "shuffling word", "op_over": "shuffling word", "op_dup": "shuffling word",
    "op_drop_below": "keeps TOS while dropping the slots below it (backtick capture)",
    "op_subx": "transfers the values bound by let / infix operands from the sub-expression's stack",
    "op_lex_closure": "moves captured up-values into the closure",
}


def p1c(prog):
    """an operation that computes a result never hands the popped operand back as that result: results are freshly
    constructed (and so numbered afresh); only the shuffling words re-push operands"""
    import r_stream
    inst, findings = [], []
    n = 0
    for f in r_stream.next_overrides(prog):
        cls = f["cls"].split("<")[0].split("::")[-1]
        popped = {}
        for x in walk(f["body"]):
            if x.get("k") == "decl":
                for v in x["vars"]:
                    i = unwrap(v.get("init"))
                    if isinstance(i, dict) and i.get("k") == "call" and i.get("fn") in ("pop", "pop_as") and i.get("cls") == "stack":
                        popped[v["id"]] = v["n"]
        pushes = [c for c in calls(f["body"]) if c.get("f") == "stack::push"]
        if not pushes:
            continue
        n += 1
        re = []
        for c in pushes:
            a = unwrap(c["a"][0])
            if isinstance(a, dict) and a.get("k") == "ref" and a.get("id") in popped:
                re.append((c["l"], popped[a["id"]]))
        key = "P1c:" + f["q"].split("<")[0]
        if re and cls not in REPUSH_OK:
            findings.append({"key": key, "where": re[0][0],
                             "msg": "%s pushes the operand `%s` it popped back as its result: the value keeps the position number of whatever produced it, so this operation does not number its results afresh (`[5, 6] elem dec pos` would give 0 1)" % (f["q"].split("<")[0], re[0][1]),
                             "detail": None})
        elif not any(i[0] == key for i in inst):
            inst.append((key, {"pushes": len(pushes), "re_pushes_operands": bool(re), "allowed_because": REPUSH_OK.get(cls) if re else None}))
    if n < 15:
        raise Broken("only %d pushing next() overrides found (floor 15)" % n)
    return inst, findings


def p1d(prog):
    """the overload implementations (`operate` members of the word classes) construct their result: a return statement never hands back
    an operand (a parameter, moved or dereferenced), which would carry the position number of whatever produced it"""
    inst, findings = [], []
    n = 0
    for f in sorted(prog.funcs.values(), key=lambda f: f["fid"]):
        if f.get("n") != "operate" or not f.get("cls") or f.get("body") is None or not prog.rel(f.get("file", "")).startswith("libzwerg/"):
            continue
        ops = {p_["id"]: p_["n"] for p_ in f.get("params", []) if "unique_ptr<" in str(p_.get("t", "")) and p_.get("id") is not None}
        if not ops:
            continue
        n += 1
        cls = f["cls"].split("<")[0].split("::")[-1]
        key = "P1d:" + f["q"].split("<")[0]
        bad = None
        for r in walk_nolambda(f["body"]):
            if r.get("k") != "return" or r.get("e") is None:
                continue
            e = unwrap(r["e"])
            for _ in range(8):
                if not isinstance(e, dict):
                    break
                if e.get("k") == "ctor" and len(e.get("a", [])) == 1:
                    e = unwrap(e["a"][0])
                elif e.get("k") == "call" and e.get("fn") in ("move", "forward") and e.get("a"):
                    e = unwrap(e["a"][0])
                elif e.get("k") == "call" and e.get("fn") in ("operator*", "release", "get") and (e.get("obj") is not None or e.get("a")):
                    e = unwrap(e["obj"] if e.get("obj") is not None else e["a"][0])
                elif e.get("k") == "un" and e.get("op") == "*":
                    e = unwrap(e["e"])
                elif e.get("k") == "cast":
                    e = unwrap(e["e"])
                else:
                    break
            if isinstance(e, dict) and e.get("k") == "ref" and e.get("id") in ops:
                bad = (r.get("l"), ops[e["id"]])
        if not any(i[0] == key for i in inst):
            inst.append((key, {"operands": len(ops)}))
        if bad:
            # an operand that is renumbered before it is handed back is a fresh result for all that `pos` can tell
            renum = [c for c in calls(f["body"]) if c.get("fn") == "set_pos" and c.get("obj") is not None and
                     any(y.get("k") == "ref" and y.get("id") in ops and ops[y["id"]] == bad[1] for y in walk_nolambda(c["obj"]))]
            if renum:
                bad = None
        if bad and cls not in REPUSH_OK:
            findings.append({"key": key, "where": str(bad[0] or f["l"]),
                             "msg": "%s returns its operand `%s` as the result: the value keeps the position number of whatever produced it, so this word does not number its result afresh "
                                    "(`\"abc\" elem \"x\" add pos` would give 0 1 2)" % (f["q"].split("<")[0], bad[1]), "detail": None})
    if n < 20:
        raise Broken("only %d overload implementations with value operands found (floor 20)" % n)
    return inst, findings


class _Sel:
    def on_store(self, name, val):
        return val & 0xffffffff if isinstance(val, int) else val


def p4(prog, tier="quick"):
    """overload selection looks at exactly the top n value types: selector{t1..tn}.matches(selector{stack}) iff the stack is at
    least n deep and its top n types are t1..tn with tn on top (abstract evaluation of the selector's shift arithmetic)"""
    from absint import Evaluator
    import itertools
    inst, findings = [], []
    ctors = {}
    for f in prog.funcs.values():
        if f.get("cls") == "selector" and f.get("isctor") and f["q"].startswith("selector::selector<") and \
           all(p["t"] == "value_type" for p in f["params"]) and f["params"]:
            ctors[len(f["params"])] = f
    sctor = [f for f in prog.funcs.values() if f.get("cls") == "selector" and f.get("isctor") and len(f["params"]) == 1 and "stack" in f["params"][0]["t"]]
    m = prog.func_opt("selector::matches")
    if not ctors or len(sctor) != 1 or m is None:
        raise Broken("selector constructors / matches not found")
    w = prog.globals.get("selector::W")
    W = (w.get("init") or {}).get("iv") if w else None
    hooks = {"value_type::code": lambda ev, o, a: o._code,
             "stack::profile": lambda ev, o, a: o.m_profile}
    ev = Evaluator(hooks, {"selector::W": W}, ptr_lt=True, prog=prog)
    codes = (1, 2, 3)
    n_eval = 0
    bad = None
    stacks = [()]
    for d in range(1, (W + 2) if tier == "thorough" else (W + 1)):
        stacks += list(itertools.product(codes, repeat=d))
    if tier != "thorough":
        stacks = [s for s in stacks if len(s) <= 4 or s[0] == 1]
    prof = {}
    for st in stacks:
        so = _Stack()
        v = 0
        for d in range(min(W, len(st))):
            v |= st[-1 - d] << (8 * d)
        so.m_profile = v        # the invariant P2b establishes
        sel = _Sel()
        ev.construct(sctor[0], sel, [so])
        prof[st] = sel
    for n, cf in sorted(ctors.items()):
        for types in itertools.product(codes, repeat=n):
            sel = _Sel()
            ev.construct(cf, sel, [_TypeObj(c) for c in types])
            for st in stacks:
                n_eval += 1
                got = bool(ev.call(m, sel, [prof[st]]))
                want = len(st) >= n and tuple(st[-n:]) == types
                if got != want and bad is None:
                    bad = "selector%s %s a stack with types %s (bottom..top)" % (types, "matches" if got else "does not match", st)
    inst.append(("P4:selector::matches", {"arities": sorted(ctors), "selector_x_stack_pairs": n_eval, "W": W}))
    if bad:
        findings.append({"key": "P4:selector::matches", "where": "libzwerg/selector.hh",
                         "msg": "overload selection no longer looks at exactly the top n value types: %s" % bad, "detail": None})
    return inst, findings


def p2c(prog):
    """stack accessors are guarded exactly: get(d)/top()/pop()/drop(n) on a stack of n values raise the underflow error iff they
    would reach below the bottom, and never read outside the vector (abstract evaluation; out-of-bounds = finding)"""
    from absint import Evaluator, Thrown
    inst, findings = [], []
    fns = {}
    for f in prog.funcs.values():
        if f.get("cls") == "stack" and f["n"] in ("get", "top", "pop", "drop", "need"):
            fns.setdefault(f["n"], []).append(f)
    for n in ("get", "top", "pop", "drop", "need"):
        if n not in fns:
            raise Broken("anchor stack::%s vanished" % n)
    hooks = {
        "method:size": lambda ev, o, a: len(o.items),
        "method:back": lambda ev, o, a: o.items[-1] if o.items else (_ for _ in ()).throw(OutOfBounds("back() of an empty vector")),
        "method:pop_back": lambda ev, o, a: o.items.pop() if o.items else (_ for _ in ()).throw(OutOfBounds("pop_back() on an empty vector")),
        "method:push_back": lambda ev, o, a: o.items.append(a[0]),
        "method:end": lambda ev, o, a: _It(o, len(o.items)),
        "method:begin": lambda ev, o, a: _It(o, 0),
        "method:rbegin": lambda ev, o, a: _It(o, 0, True),
        "method:erase": lambda ev, o, a: o.items.__delitem__(slice(a[0].pos, a[1].pos)) if 0 <= a[0].pos <= a[1].pos <= len(o.items) else (_ for _ in ()).throw(OutOfBounds("erase outside the vector")),
        "method:operator*": lambda ev, o, a: o.deref() if isinstance(o, _It) else o,
        "method:operator->": lambda ev, o, a: o.deref() if isinstance(o, _It) else o,
        "method:operator-": lambda ev, o, a: o.arith("-", a[0]),
        "method:operator+": lambda ev, o, a: o.arith("+", a[0]),
        "method:get": lambda ev, o, a: o,
        "zw_value::get_type": lambda ev, o, a: _TypeObj(o.code),
        "value_type::code": lambda ev, o, a: o._code,
        "ctor:std::runtime_error": lambda ev, o, a: "exc",
    }
    w = prog.globals.get("selector::W")
    W = (w.get("init") or {}).get("iv") if w else 4
    ev = Evaluator(hooks, {"selector::W": W}, ptr_lt=True, prog=prog)
    n_eval = 0
    for name, expect_throw, args_of in (
            ("get", lambda n, d: d >= n, lambda n: range(0, n + 2)),
            ("top", lambda n, d: n == 0, lambda n: [None]),
            ("pop", lambda n, d: n == 0, lambda n: [None]),
            ("drop", lambda n, d: d > n, lambda n: range(0, n + 2))):
        for f in fns[name]:
            bad = None
            for n in range(0, 4):
                for d in args_of(n):
                    st = _Stack()
                    st.m_values.items = [_Val(1 + (i % 2)) for i in range(n)]
                    for i in range(min(W, n)):
                        st.m_profile |= st.m_values.items[-1 - i].code << (8 * i)
                    before = list(st.m_values.items)
                    n_eval += 1
                    try:
                        r = ev.call(f, st, [] if d is None else [d])
                        threw = False
                    except Thrown:
                        threw = True
                    except OutOfBounds as e:
                        bad = bad or "%s(%s) on a stack of %d values reads %s" % (name, "" if d is None else d, n, e)
                        continue
                    if threw != expect_throw(n, d):
                        bad = bad or "%s(%s) on a stack of %d values %s" % (name, "" if d is None else d, n, "raises an error although the operand exists" if threw else "does not raise the underflow error")
                    elif not threw and name == "get" and r is not before[-1 - d]:
                        bad = bad or "get(%d) returns the wrong slot" % d
            key = "P2c:%s" % f["fid"].split("(")[0] + ("const" if f.get("const") else "")
            inst.append((key, {"guarded_exactly": bad is None}))
            if bad:
                findings.append({"key": key, "where": "libzwerg/stack.hh:%s" % f["l"].split(":")[-1],
                                 "msg": "stack accessor bounds check is wrong: %s (a run-time underflow must surface as an error through the API, not as an out-of-bounds read)" % bad,
                                 "detail": None})
    inst.append(("P2c:evaluations", {"calls": n_eval}))
    return inst, findings


# ---------------------------------------------------------------------------
# P5: string words against the byte-string model (source evaluation)

def p5(prog, tier="quick"):
    """length, elem, relem, ?empty, ?find, ?starts, ?ends, add and value_str::cmp interpreted from their source on every byte string
    over the alphabet {a, b, NUL, 0xff} up to a small length, with std::string modelled member by member (a `const char *` argument is
    a C string and stops at its first NUL, as in the library).  The words touch their operands only through those members, so this
    alphabet exercises every distinction they can make: equal/unequal bytes, the terminator value, a byte with the sign bit set,
    empty operands, needles longer than haystacks."""
    import itertools
    from cxxobj import CxxEvaluator, StdStr, Obj, OutOfBounds
    from absint import Thrown
    inst, findings = [], []

    def one(q):
        fs = [f for f in prog.funcs.values() if f["q"] == q and f.get("body") is not None]
        if len(fs) != 1:
            raise Broken("anchor %s vanished" % q)
        return fs[0]
    cmp_enum = None
    for e in prog.enums.values():
        if e["q"] == "cmp_result":
            cmp_enum = {c["n"]: ("enum", c["n"], c["v"]) for c in e["consts"]}
    if cmp_enum is None:
        raise Broken("enum cmp_result vanished")
    hooks = {
        "ctor:pred_result": lambda ev, o, a: a[0],
        "zw_value::as<value_str>": lambda ev, o, a: a[0] if isinstance(a[0], Obj) and a[0]._cls == "value_str" else None,
    }
    ev = CxxEvaluator(hooks, {"dec_constant_dom": "dec"}, prog=prog)
    alpha = [0x61, 0x62, 0x00, 0xff]
    maxlen = 3 if tier == "thorough" else 2
    strs = [b""]
    for n in range(1, maxlen + 1):
        strs += [bytes(t) for t in itertools.product(alpha, repeat=n)]

    def vs(b, pos=0):
        v = Obj("value_str")
        v.m_str, v.m_pos = StdStr(b), pos
        return v

    def pr(r):
        if isinstance(r, bool):
            return "yes" if r else "no"
        return r[1] if isinstance(r, tuple) else r

    def show(b):
        return '"' + "".join(chr(c) if 0x20 < c < 0x7f else "\\x%02x" % c for c in b) + '"'
    seen = set()

    def report(key, f, msg):
        if key not in seen:
            seen.add(key)
            findings.append({"key": key, "where": "libzwerg/" + f["l"], "msg": msg, "detail": None})

    def run(key, f, this, args, what):
        try:
            return True, ev.call(f, this, args)
        except OutOfBounds as x:
            report(key, f, "%s: %s (memory error)" % (what, x))
        except Thrown as x:
            report(key, f, "%s throws (%s)" % (what, x))
        return False, None

    def sval(v):
        s_ = getattr(v, "m_str", None)
        return s_.b if isinstance(s_, StdStr) else None

    def cval(v):
        c = getattr(v, "m_cst", None)
        val = getattr(c, "m_value", None)
        return getattr(val, "m_u", val)
    f_len, f_add = one("op_length_str::operate"), one("op_add_str::operate")
    f_elem, f_relem = one("op_elem_str::operate"), one("op_relem_str::operate")
    n_elem, n_relem = one("(anonymous namespace)::str_elem_producer::next"), one("(anonymous namespace)::str_relem_producer::next")
    f_empty, f_find = one("pred_empty_str::result"), one("pred_find_str::result")
    f_starts, f_ends = one("pred_starts_str::result"), one("pred_ends_str::result")
    f_cmp = one("value_str::cmp")
    n = 0
    for a in strs:
        sa = show(a)
        ok, r = run("P5:length", f_len, _op(ev, f_len), [vs(a, 4)], "`length` of %s" % sa)
        n += 1
        if ok and (cval(r) != len(a) or getattr(r, "m_pos", None) != 0):
            report("P5:length", f_len, "`length` of %s yields %s; the string has %d bytes" % (sa, cval(r), len(a)))
        ok, r = run("P5:?empty", f_empty, _op(ev, f_empty), [vs(a)], "`?empty` on %s" % sa)
        if ok and pr(r) != ("yes" if not a else "no"):
            report("P5:?empty", f_empty, "`?empty` on %s answers %s" % (sa, pr(r)))
        for f_e, nx, nm, want in ((f_elem, n_elem, "elem", list(a)), (f_relem, n_relem, "relem", list(a)[::-1])):
            ok, p = run("P5:" + nm, f_e, _op(ev, f_e), [vs(a)], "`%s` on %s" % (nm, sa))
            if not ok:
                continue
            outs = []
            for _ in range(len(a) + 2):
                ok, v = run("P5:" + nm, nx, p, [], "`%s` on %s" % (nm, sa))
                n += 1
                if not ok or v is None:
                    break
                outs.append(v)
            if not ok:
                continue
            got = [sval(v) for v in outs]
            if got != [bytes([c]) for c in want] or [getattr(v, "m_pos", None) for v in outs] != list(range(len(outs))):
                report("P5:" + nm, nx, "`%s` on %s yields %s numbered %s; expected the bytes %s one by one, numbered from 0" % (
                    nm, sa, [show(g) if g is not None else None for g in got], [getattr(v, "m_pos", None) for v in outs], [show(bytes([c])) for c in want]))
    for a in strs:
        for b in strs:
            sa, sb = show(a), show(b)
            n += 1
            # the operands are the 4th and 6th result of whatever yielded them: the sum is a result of `add` and is numbered 0
            ok, r = run("P5:add", f_add, _op(ev, f_add), [vs(a, 3), vs(b, 5)], "`add` of %s and %s" % (sa, sb))
            if ok and (sval(r) != a + b or getattr(r, "m_pos", None) != 0):
                report("P5:add", f_add, "`add` of %s (position 3) and %s (position 5) yields %s at position %s; expected their concatenation, numbered 0 as the only result of this operation" % (
                    sa, sb, show(sval(r)) if sval(r) is not None else None, getattr(r, "m_pos", None)))
            for key, f, model in (("P5:?find", f_find, b in a), ("P5:?starts", f_starts, a.startswith(b)), ("P5:?ends", f_ends, a.endswith(b))):
                ok, r = run(key, f, _op(ev, f), [vs(a), vs(b)], "`%s` on %s and %s" % (key[3:], sa, sb))
                if ok and pr(r) != ("yes" if model else "no"):
                    report(key, f, "`%s` with haystack %s and needle %s answers %s" % (key[3:], sa, sb, pr(r)))
            ok, r = run("P5:cmp", f_cmp, vs(a), [vs(b)], "comparison of %s and %s" % (sa, sb))
            if ok:
                want = "less" if a < b else ("greater" if a > b else "equal")
                if pr(r) != want:
                    report("P5:cmp", f_cmp, "value_str::cmp answers `%s` for %s and %s: strings compare bytewise over their whole length (`%s` expected); "
                                            "a value would not even equal its own copy when it contains a NUL" % (pr(r), sa, sb, want) if a == b else
                           "value_str::cmp answers `%s` for %s and %s: strings compare bytewise over their whole length (`%s` expected)" % (pr(r), sa, sb, want))
    for k in ("length", "?empty", "elem", "relem", "add", "?find", "?starts", "?ends", "cmp"):
        inst.append(("P5:" + k, {"strings": len(strs), "evaluations": n}))
    return inst, findings


# ---------------------------------------------------------------------------
# P6: sequence words against the list model (source evaluation)

def p6(prog, tier="quick"):
    """length, elem, relem, ?empty, ?find, ?starts, ?ends, add and value_seq::cmp interpreted from their source on every sequence over
    three abstract element values (two types; two ranks of one type) up to a small length.  Elements are touched only through cmp,
    get_type, clone and set_pos, so these three values exercise every distinction the words can make."""
    import itertools
    from cxxobj import CxxEvaluator, Obj, Vec, OutOfBounds
    from absint import Thrown
    inst, findings = [], []

    def one(q):
        fs = [f for f in prog.funcs.values() if f["q"] == q and f.get("body") is not None]
        if len(fs) != 1:
            raise Broken("anchor %s vanished" % q)
        return fs[0]
    cmp_enum = None
    for e in prog.enums.values():
        if e["q"] == "cmp_result":
            cmp_enum = {c["n"]: ("enum", c["n"], c["v"]) for c in e["consts"]}
    if cmp_enum is None:
        raise Broken("enum cmp_result vanished")

    class El:
        def __init__(self, t, r, pos=0):
            self.t, self.r, self.pos = t, r, pos

        @property
        def addr(self):
            return id(self)

        def copy_value(self):
            return El(self.t, self.r, self.pos)

        def key(self):
            return (self.t, self.r)

        def __repr__(self):
            return "%s%d" % ("ab"[self.t - 1], self.r)

    class Ty:
        def __init__(self, c):
            self.m_code = c

        def copy_value(self):
            return Ty(self.m_code)

    def el_cmp(ev, o, a):
        if o.t != a[0].t:
            return cmp_enum["fail"]
        return cmp_enum["less"] if o.r < a[0].r else (cmp_enum["greater"] if o.r > a[0].r else cmp_enum["equal"])
    f_cmp = one("value_seq::cmp")
    hooks = {
        "ctor:pred_result": lambda ev, o, a: a[0],
        "zw_value::as<value_seq>": lambda ev, o, a: a[0] if isinstance(a[0], Obj) and a[0]._cls == "value_seq" else None,
        "zw_value::cmp": lambda ev, o, a: el_cmp(ev, o, a) if isinstance(o, El) else ev.call(f_cmp, o, a),
        "zw_value::clone": lambda ev, o, a: o.copy_value(),
        "zw_value::set_pos": lambda ev, o, a: setattr(o, "pos", a[0]),
        "zw_value::get_type": lambda ev, o, a: Ty(o.t),
        "value_type::operator<": lambda ev, o, a: o.m_code < a[0].m_code,
        "value_type::operator==": lambda ev, o, a: o.m_code == a[0].m_code,
        "value_type::operator!=": lambda ev, o, a: o.m_code != a[0].m_code,
    }
    ev = CxxEvaluator(hooks, {"dec_constant_dom": "dec"}, prog=prog)
    els = [(1, 0), (1, 1), (2, 0)]
    maxlen = 3 if tier == "thorough" else 2
    seqs = [()]
    for n in range(1, maxlen + 1):
        seqs += list(itertools.product(els, repeat=n))

    def vq(items):
        v = Obj("value_seq")
        v.m_seq, v.m_pos = Vec([El(t, r, i) for i, (t, r) in enumerate(items)], "seq_t"), 0
        return v

    def pr(r):
        if isinstance(r, bool):
            return "yes" if r else "no"
        return r[1] if isinstance(r, tuple) else r

    def show(items):
        return "[" + ", ".join("%s%d" % ("ab"[t - 1], r) for t, r in items) + "]"
    seen = set()

    def report(key, f, msg):
        if key not in seen:
            seen.add(key)
            findings.append({"key": key, "where": "libzwerg/" + f["l"], "msg": msg, "detail": None})

    def run(key, f, this, args, what):
        try:
            return True, ev.call(f, this, args)
        except OutOfBounds as x:
            report(key, f, "%s: %s (memory error)" % (what, x))
        except Thrown as x:
            report(key, f, "%s throws (%s)" % (what, x))
        return False, None

    def cval(v):
        c = getattr(v, "m_cst", None)
        val = getattr(c, "m_value", None)
        return getattr(val, "m_u", val)

    def contains(h, nd):
        return any(h[i:i + len(nd)] == nd for i in range(len(h) - len(nd) + 1))

    def model_cmp(a, b):
        if len(a) != len(b):
            return "less" if len(a) < len(b) else "greater"
        for x, y in zip(a, b):
            if x[0] != y[0]:
                return "less" if x[0] < y[0] else "greater"
        for x, y in zip(a, b):
            if x[1] != y[1]:
                return "less" if x[1] < y[1] else "greater"
        return "equal"
    f_len, f_add = one("op_length_seq::operate"), one("op_add_seq::operate")
    f_elem, f_relem = one("op_elem_seq::operate"), one("op_relem_seq::operate")
    n_elem, n_relem = one("(anonymous namespace)::seq_elem_producer::next"), one("(anonymous namespace)::seq_relem_producer::next")
    f_empty, f_find = one("pred_empty_seq::result"), one("pred_find_seq::result")
    f_starts, f_ends = one("pred_starts_seq::result"), one("pred_ends_seq::result")
    n = 0
    for a in seqs:
        sa = show(a)
        ok, r = run("P6:length", f_len, _op(ev, f_len), [vq(a)], "`length` of %s" % sa)
        n += 1
        if ok and (cval(r) != len(a) or getattr(r, "m_pos", None) != 0):
            report("P6:length", f_len, "`length` of %s yields %s" % (sa, cval(r)))
        ok, r = run("P6:?empty", f_empty, _op(ev, f_empty), [vq(a)], "`?empty` on %s" % sa)
        if ok and pr(r) != ("yes" if not a else "no"):
            report("P6:?empty", f_empty, "`?empty` on %s answers %s" % (sa, pr(r)))
        for f_e, nx, nm, want in ((f_elem, n_elem, "elem", list(a)), (f_relem, n_relem, "relem", list(a)[::-1])):
            src = vq(a)
            ok, p = run("P6:" + nm, f_e, _op(ev, f_e), [src], "`%s` on %s" % (nm, sa))
            if not ok:
                continue
            outs = []
            for _ in range(len(a) + 2):
                ok, v = run("P6:" + nm, nx, p, [], "`%s` on %s" % (nm, sa))
                n += 1
                if not ok or v is None:
                    break
                outs.append(v)
            if not ok:
                continue
            got = [v.key() if isinstance(v, El) else None for v in outs]
            if got != want or [getattr(v, "pos", None) for v in outs] != list(range(len(outs))):
                report("P6:" + nm, nx, "`%s` on %s yields %s numbered %s; expected %s numbered from 0" % (nm, sa, got, [getattr(v, "pos", None) for v in outs], want))
            elif any(any(v is x for x in src.m_seq.items) for v in outs):
                report("P6:" + nm, nx, "`%s` hands out the stored element itself instead of a copy" % nm)
    for a in seqs:
        for b in seqs:
            sa, sb = show(a), show(b)
            n += 1
            ok, r = run("P6:add", f_add, _op(ev, f_add), [vq(a), vq(b)], "`add` of %s and %s" % (sa, sb))
            if ok:
                got = [x.key() for x in getattr(r, "m_seq", Vec()).items] if hasattr(r, "m_seq") else None
                if got != list(a + b) or getattr(r, "m_pos", None) != 0:
                    report("P6:add", f_add, "`add` of %s and %s yields %s" % (sa, sb, got))
            for key, f, model in (("P6:?find", f_find, contains(a, b)), ("P6:?starts", f_starts, a[:len(b)] == b), ("P6:?ends", f_ends, len(b) <= len(a) and a[len(a) - len(b):] == b)):
                ok, r = run(key, f, _op(ev, f), [vq(a), vq(b)], "`%s` on %s and %s" % (key[3:], sa, sb))
                if ok and pr(r) != ("yes" if model else "no"):
                    report(key, f, "`%s` with haystack %s and needle %s answers %s" % (key[3:], sa, sb, pr(r)))
            ok, r = run("P6:cmp", f_cmp, vq(a), [vq(b)], "comparison of %s and %s" % (sa, sb))
            if ok and pr(r) != model_cmp(a, b):
                report("P6:cmp", f_cmp, "value_seq::cmp answers `%s` for %s and %s (expected `%s`: by length, then element-wise)" % (pr(r), sa, sb, model_cmp(a, b)))
    for k in ("length", "?empty", "elem", "relem", "add", "?find", "?starts", "?ends", "cmp"):
        inst.append(("P6:" + k, {"sequences": len(seqs), "evaluations": n}))
    return inst, findings


# ---------------------------------------------------------------------------
# P7: the shuffling words against their documented scheme table

def p7(prog):
    """dup / over / swap / rot / drop interpreted from source (their next() together with stack's own push/pop/get/top/need) on a
    stack A B C D of four distinguishable values, against the before/after table of the docstring in builtin-shf.cc; the values
    added by dup/over must be clones (fresh values), the others the very same values; too shallow a stack must raise the underflow
    error and never read outside the value vector."""
    import re
    from cxxobj import CxxEvaluator, Obj, Vec, OutOfBounds
    from absint import Thrown
    inst, findings = [], []
    # the documented table
    src = open(os.path.join(REPO, "libzwerg/builtin-shf.cc")).read()
    table = {}
    for m in re.finditer(r"^\|\s*(\w+)\s*\|\s*([A-D ]+?)\s*\|\s*([A-D ]+?)\s*\|\s*$", src, re.M):
        table[m.group(1)] = (m.group(2).split(), m.group(3).split())
    if set(table) != {"dup", "over", "swap", "rot", "drop"}:
        raise Broken("the scheme table of the shuffling words is no longer in builtin-shf.cc (found %s)" % sorted(table))

    class El:
        def __init__(self, name, code, clone_of=None):
            self.name, self.code, self.clone_of = name, code, clone_of
            self.addr = id(self)

        def copy_value(self):
            return self            # a unique_ptr that is moved keeps pointing at the same value

        def __repr__(self):
            return self.name + ("'" if self.clone_of else "")

    class Ty:
        def __init__(self, c):
            self.m_code = c

        def copy_value(self):
            return Ty(self.m_code)
    w = prog.globals.get("selector::W")
    W = (w.get("init") or {}).get("iv") if w else None
    if W is None:
        raise Broken("selector::W is not a compile-time constant")
    cur = {}
    hooks = {
        "zw_value::clone": lambda ev, o, a: El(o.name, o.code, clone_of=o),
        "zw_value::get_type": lambda ev, o, a: Ty(o.code),
        "value_type::code": lambda ev, o, a: o.m_code,
        "op::next": lambda ev, o, a: cur.pop("stk", None),
        "method:get": lambda ev, o, a: o,
        "method:release": lambda ev, o, a: o,
        "ctor:std::runtime_error": lambda ev, o, a: "exc",
    }
    ev = CxxEvaluator(hooks, {"selector::W": W}, prog=prog)
    push = [f for f in prog.funcs.values() if f.get("cls") == "stack" and f["n"] == "push" and f.get("body") is not None]
    if len(push) != 1:
        raise Broken("anchor stack::push vanished")

    def mkstack(names):
        st = Obj("stack")
        st.m_values, st.m_profile = Vec([], "values"), 0
        els = []
        for i, nm in enumerate(names):
            e = El(nm, 1 + i % 2)
            els.append(e)
            ev.call(push[0], st, [e])
        return st, els
    for word, (before, after) in sorted(table.items()):
        fs = [f for f in prog.funcs.values() if f["q"] == "op_%s::next" % word and f.get("body") is not None]
        if len(fs) != 1:
            raise Broken("anchor op_%s::next vanished" % word)
        f = fs[0]
        key = "P7:" + word
        this = Obj("op_" + word)
        this.m_upstream = Obj("upstream")
        bad = None
        need = {"dup": 1, "over": 2, "swap": 2, "rot": 3, "drop": 1}[word]
        for depth in range(0, len(before) + 1):
            names = before[len(before) - depth:]
            st, els = mkstack(names)
            cur["stk"] = st
            try:
                r = ev.call(f, this, [Obj("scon")])
            except Thrown:
                if depth >= need and bad is None:
                    bad = "`%s` raises an error on the stack %s, which is deep enough" % (word, " ".join(names))
                continue
            except OutOfBounds as x:
                bad = bad or "`%s` on the stack %s: %s" % (word, " ".join(names) or "(empty)", x)
                continue
            if depth < need:
                bad = bad or "`%s` on the too shallow stack %s yields a result instead of the underflow error" % (word, " ".join(names) or "(empty)")
                continue
            if r is not st:
                bad = bad or "`%s` does not yield the stack it pulled" % word
                continue
            got = r.m_values.items
            want = after[len(before) - depth:] if depth == len(before) else None
            if want is None:
                # apply the documented permutation to the suffix that is present
                full_before, full_after = before, after
                keep = len(full_before) - depth
                want = [x for x in full_after if x in names or False]
                # positions: the table's effect only touches the top `need` values
                want = full_after[keep:]
            exp_names = want
            if [g.name for g in got] != exp_names:
                bad = bad or "`%s` turns %s into %s; documented: %s" % (word, " ".join(names), " ".join(repr(g) for g in got), " ".join(exp_names))
                continue
            # clones vs identity: names appearing more often after than before are copies, all others the same objects
            by_name = {e.name: e for e in els}
            seen = set()
            for g in got:
                orig = by_name[g.name]
                if g.name not in seen:
                    seen.add(g.name)
                    if g is not orig and not (g.clone_of is orig and exp_names.count(g.name) > names.count(g.name)):
                        bad = bad or "`%s` replaces the value %s by something else" % (word, g.name)
                else:
                    if g is orig or g.clone_of is not orig:
                        bad = bad or "`%s` pushes the value %s itself a second time instead of a copy: two stack slots would own one value" % (word, g.name)
            # profile consistent with the values (types of the top W values)
            prof = 0
            for d in range(min(W, len(got))):
                prof |= got[-1 - d].code << (8 * d)
            if (r.m_profile & 0xffffffff) != (prof & 0xffffffff):
                bad = bad or "after `%s` the stack's type profile (%#x) does not describe its values (%#x): overload selection would read stale types" % (word, r.m_profile, prof)
        inst.append((key, {"documented": "%s -> %s" % (" ".join(before), " ".join(after))}))
        if bad:
            findings.append({"key": key, "where": "libzwerg/" + f["l"], "msg": bad, "detail": None})
    return inst, findings


_OPS = {}


def _op(ev, f):
    """the operator object a word's operate()/result() runs on: one per word and evaluator, reused for every input, as a compiled
    query reuses it for every stack (state kept in a data member would make later answers depend on earlier inputs)"""
    k = (id(ev), f["fid"])
    if k not in _OPS:
        _OPS[k] = ev.new_object(f.get("cls") or "op")
    return _OPS[k]


def p8(prog):
    """a copy of a value is the value: every clone () override is interpreted on an object of its class whose fields hold distinct
    marker values (the position among them) and the copy must carry every field it is constructed from unchanged - in particular the
    position, which every stack copy (a `,` branch, `let`, a closure step) would otherwise reset or mix up with a neighbouring integer
    field.  Where a class cannot be interpreted with marker fields the rule falls back to the dataflow fact that the copy is built from
    `*this` or from get_pos ()."""
    from cxxobj import CxxEvaluator, Obj, Sym, Vec, OutOfBounds
    from absint import Thrown
    inst, findings = [], []
    clones = [f for f in prog.funcs.values() if f["n"] == "clone" and f.get("body") is not None and f.get("cls") and not f.get("params")
              and prog.rel(f.get("file", "")).startswith("libzwerg/")]
    if len(clones) < 10:
        raise Broken("only %d clone () overrides found (floor 10)" % len(clones))

    def fields_of(cls, seen=None):
        seen = seen or set()
        if cls in seen or cls not in prog.records:
            return []
        seen.add(cls)
        out = []
        for b in prog.records[cls].get("bases", []):
            out += fields_of(b if isinstance(b, str) else b.get("t", ""), seen)
        return out + [(fl["n"], fl.get("t", "")) for fl in prog.records[cls].get("fields", [])]
    for f in sorted(clones, key=lambda f: f["fid"]):
        cls = f["cls"]
        key = "P8:%s::clone" % cls
        flds = fields_of(cls)
        ev = CxxEvaluator({}, {}, prog=prog)
        o = Obj(cls)
        marks = {}
        for i, (n, t) in enumerate(flds):
            tt = t.replace("const ", "").strip()
            if n == "m_pos":
                v = 5
            elif tt in ("unsigned int", "int", "unsigned long", "long", "size_t", "unsigned long long", "Dwarf_Off", "Dwarf_Addr", "Dwarf_Word", "uint64_t", "bool"):
                v = 100 + i if tt != "bool" else True
            elif tt.startswith("std::vector<") or tt.startswith("std::shared_ptr<std::vector<"):
                v = None       # containers are compared by the class's own tests (Q4c); not marked here
            else:
                v = Sym.of("field:" + n)
            if v is not None:
                marks[n] = v
                setattr(o, n, v)
        how, bad = "interpreted", None
        try:
            ev.steps = 0
            r = ev.call(f, o, [])
            if r is None or r is o:
                bad = "clone () hands back %s" % ("nothing" if r is None else "the object itself")
            else:
                for n, v in marks.items():
                    if not isinstance(v, (int, bool)):
                        continue        # members of class type are copied by their own constructors; the integers are what gets mixed up
                    g = getattr(r, n, None)
                    same = g == v
                    if not same and bad is None and hasattr(r, n):
                        bad = "the copy's %s is %r; the original's is %r" % (n, g, v)
                if not hasattr(r, "m_pos") and bad is None:
                    how = "dataflow"
        except (Broken, OutOfBounds, Thrown, AttributeError, TypeError):
            how = "dataflow"
        if how == "dataflow":
            src = [y for y in walk_nolambda(f["body"])]
            uses_this = any(y.get("k") == "un" and y.get("op") == "*" and isinstance(y.get("e"), dict) and y["e"].get("k") == "this" for y in src)
            uses_pos = any((y.get("k") == "call" and y.get("fn") == "get_pos") or (y.get("k") == "mem" and y.get("n") == "m_pos") for y in src)
            if not (uses_this or uses_pos):
                bad = "clone () builds the copy neither from *this nor from get_pos (): the copy loses its position"
        inst.append((key, {"decided_by": how, "fields_marked": len(marks)}))
        if bad:
            findings.append({"key": key, "where": "libzwerg/" + f["l"],
                             "msg": "%s: %s - every stack copy (an ALT branch, `let`, a closure step) would change the value" % (key[3:], bad), "detail": None})
    return inst, findings
