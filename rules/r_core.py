"""Core-word dispatch rules (C11): P1 result numbering, P2 stack profile maintenance, P3 unsupported operand."""
from zw import walk, walk_nolambda, unwrap, short, Broken, calls, field_chain
from cfg import CFG
from r_pred import VEC_SHAPE


def p2(prog):
    inst, findings = [], []
    meths = [f for f in prog.funcs.values() if f.get("cls") == "stack"]
    if len(meths) < 8:
        raise Broken("fewer stack member functions with bodies than confirmed by hand")
    n = 0
    for f in meths:
        mut = []
        for x in walk(f.get("body")):
            if x.get("k") == "call" and x.get("obj") is not None and x.get("fn") in VEC_SHAPE:
                o = unwrap(x["obj"])
                if isinstance(o, dict) and o.get("k") == "mem" and o.get("c") == "stack" and o["n"] == "m_values" and \
                   isinstance(unwrap(o["b"]), dict) and unwrap(o["b"]).get("k") == "this":
                    mut.append(x)
        if not mut:
            continue
        n += 1
        writes = [x for x in walk(f.get("body")) if x.get("k") == "asg" and isinstance(unwrap(x["lhs"]), dict)
                  and unwrap(x["lhs"]).get("k") == "mem" and unwrap(x["lhs"])["n"] == "m_profile"]
        inits = [i for i in f.get("inits", []) if i.get("field") == "m_profile" and i.get("written")]
        key = "P2:" + f["fid"].split("(")[0]
        inst.append((key, {"mutates_values_at": [m["l"] for m in mut], "profile_writes": len(writes) + len(inits)}))
        if not writes and not inits:
            findings.append({"key": key, "where": f["l"],
                             "msg": "%s changes the number of values on the stack (%s) without updating m_profile: overload dispatch would select on a stale type profile" % (f["q"], mut[0]["fn"]),
                             "detail": None})
    if n < 4:
        raise Broken("fewer stack mutators than confirmed by hand (push, pop, drop, copy constructor)")
    # type-level facts the profile arithmetic relies on
    w = prog.globals.get("selector::W")
    wv = (w.get("init") or {}).get("iv") if w else None
    code_t = [fl["t"] for fl in prog.records.get("value_type", {"fields": []})["fields"] if fl["n"] == "m_code"]
    prof_t = [fl["t"] for fl in prog.records.get("stack", {"fields": []})["fields"] if fl["n"] == "m_profile"]
    ok = wv == 4 and code_t == ["unsigned char"] and prof_t and prof_t[0] in ("unsigned int",)
    inst.append(("P2:witness", {"selector::W": wv, "value_type::m_code": code_t, "stack::m_profile": prof_t}))
    if not ok:
        findings.append({"key": "P2:witness", "where": "libzwerg/selector.hh",
                         "msg": "the profile encoding assumptions changed (selector::W=%s, type code %s, profile %s): 8 bits per slot x W slots no longer fit" % (wv, code_t, prof_t), "detail": None})
    return inst, findings


def _pos_index(prog, cls, nargs):
    """index of the parameter named `pos` in the constructors of value class cls with nargs parameters"""
    idx = set()
    for g in prog.funcs.values():
        if g.get("cls") == cls and g.get("isctor") and len(g["params"]) == nargs:
            for i, p in enumerate(g["params"]):
                if p["n"] == "pos":
                    idx.add(i)
    return idx.pop() if len(idx) == 1 else None


def p1(prog):
    inst, findings = [], []
    prods = sorted(q for q in prog.records if any(b.startswith("value_producer<") for b in prog.bases(q)))
    if len(prods) < 18:
        raise Broken("only %d value_producer classes found (floor 18)" % len(prods))
    for cls in prods:
        nexts = [f for f in prog.funcs.values() if f.get("cls") == cls and f["n"] == "next"]
        if not nexts:
            continue
        f = nexts[0]
        fam = [cls] + prog.bases(cls)
        ctors = [g for g in prog.funcs.values() if g.get("cls") in fam and g.get("isctor")]
        positions = []
        for c in walk(f["body"]):
            args = None
            vcls = None
            if c.get("k") == "call" and c.get("f", "").startswith("std::make_unique<") and c.get("targs"):
                vcls, args = c["targs"][0], c["a"]
            elif c.get("k") == "ctor" and c.get("c", "").startswith("value_") and not c.get("cm"):
                vcls, args = c["c"], c["a"]
            elif c.get("k") == "call" and c.get("fn") == "set_pos":
                positions.append((c["a"][0], c.get("l")))
                continue
            if args is None or not isinstance(vcls, str) or not vcls.startswith(("value_", "zw_value")):
                continue
            pi = _pos_index(prog, vcls, len(args))
            if pi is None:
                continue
            positions.append((args[pi], c.get("l")))
        key = "P1:" + cls
        info = {"positions": [short(p[0]) for p in positions]}
        inst.append((key, info))
        for pe, loc in positions:
            u = unwrap(pe)
            if isinstance(u, dict) and u.get("k") in ("int",) and u["v"] == 0:
                continue
            if isinstance(u, dict) and u.get("k") == "un" and u.get("op") == "++":
                fld = field_chain(u["e"])
                if not u.get("post"):
                    findings.append({"key": key, "where": loc, "msg": "%s numbers its results with a pre-increment (`%s`): positions start at 1 instead of 0" % (cls, short(u)), "detail": None})
                    continue
                if fld and fld[0] == "this" and fld[1]:
                    name = fld[1][0]
                    # zero-initialised in every constructor
                    for g in ctors:
                        init = [i for i in g.get("inits", []) if i.get("field") == name]
                        v = unwrap(init[0]["init"]) if init else None
                        while isinstance(v, dict) and v.get("k") in ("ilist", "ctor") and len(v.get("a", [])) == 1:
                            v = unwrap(v["a"][0])
                        zero = isinstance(v, dict) and ((v.get("k") == "int" and v["v"] == 0) or v.get("k") == "zero" or v.get("iv") == 0)
                        if init and not zero:
                            findings.append({"key": key, "where": g["l"], "msg": "%s initialises its result counter `%s` with `%s`: results are not numbered from 0" % (cls, name, short(init[0]["init"])), "detail": None})
                    # incremented exactly at yields: no other increment of the counter in next()
                    incs = [y for y in walk(f["body"]) if y.get("k") in ("un",) and y.get("op") in ("++", "--") and field_chain(y["e"]) == fld]
                    incs += [y for y in walk(f["body"]) if y.get("k") == "asg" and field_chain(y["lhs"]) == fld]
                    if len(incs) > len([p for p in positions if field_chain(unwrap(p[0]).get("e") if isinstance(unwrap(p[0]), dict) and unwrap(p[0]).get("k") == "un" else None) == fld]):
                        findings.append({"key": key, "where": f["l"], "msg": "%s changes its result counter `%s` other than once per yielded value" % (cls, name), "detail": None})
                continue
            info.setdefault("other", []).append(short(pe))
    return inst, findings


def p3(prog):
    inst, findings = [], []
    f = prog.func_opt("overload_op::next")
    if f is None:
        raise Broken("anchor overload_op::next vanished")
    # the branch taken when no overload matches: condition `get<0>(ovl) == nullptr`
    hit = None
    for x in walk(f["body"]):
        if x.get("k") == "if":
            c = x["c"]
            if any(y.get("k") == "call" and y.get("f", "").startswith("std::get<0") for y in walk(c)) and \
               any(y.get("k") == "null" for y in walk(c)):
                hit = x
    if hit is None:
        raise Broken("overload_op::next no longer tests the result of find_exec against nullptr (unmodelled shape)")
    then = hit["then"]
    diag = any(c.get("fn") == "show_error" for c in calls(then))
    yields = any(y.get("k") == "return" for y in walk(then)) or any(c.get("fn") in ("set_next", "emplace") for c in calls(then))
    inst.append(("P3:overload_op::next", {"diagnostic": diag, "yields_or_feeds": yields}))
    if not diag or yields:
        findings.append({"key": "P3:overload_op::next", "where": hit["l"],
                         "msg": "when no overload matches the operand types, overload_op::next must print a diagnostic and produce nothing (diagnostic=%s, yields/feeds=%s)" % (diag, yields), "detail": None})
    se = prog.func_opt("show_expects")
    if se is None:
        raise Broken("anchor show_expects vanished")
    to_cerr = any(y.get("k") == "ref" and y.get("q") == "std::cerr" for y in walk(se["body"]))
    inst.append(("P3:show_expects", {"writes_cerr": to_cerr}))
    if not to_cerr:
        findings.append({"key": "P3:show_expects", "where": se["l"], "msg": "the unsupported-operand diagnostic is no longer written to std::cerr", "detail": None})
    g = prog.func_opt("overload_pred::result")
    if g is None:
        raise Broken("anchor overload_pred::result vanished")
    ok = False
    for x in walk(g["body"]):
        if x.get("k") == "if" and any(y.get("k") == "null" for y in walk(x["c"])):
            rets = [r for r in walk(x["then"]) if r.get("k") == "return"]
            ok = bool(rets) and all(isinstance(unwrap(r["e"]), dict) and unwrap(r["e"]).get("n") == "fail" for r in rets) and \
                any(c.get("fn") == "show_error" for c in calls(x["then"]))
    inst.append(("P3:overload_pred::result", {"fails_with_diagnostic": ok}))
    if not ok:
        findings.append({"key": "P3:overload_pred::result", "where": g["l"], "msg": "a predicate word applied to unsupported operand types must print a diagnostic and answer `fail` (neither ?x nor !x holds)", "detail": None})
    return inst, findings
