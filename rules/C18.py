"""C18 ELF symbols (two clauses): W2 macro/domain/machine pairing, Z1-elf per-machine writer/reader tables."""
import r_elf
from common import apply, maybe_mutants


def run(prog, rep, tier):
    rep.clause = ("W2: every constant whose value expands from GELF_ST_TYPE / GELF_ST_BIND / GELF_ST_VISIBILITY (6 sites, macro provenance from "
                  "the preprocessor) is rendered in the STT / STB / STV domain respectively, and the machine selecting the per-architecture domain "
                  "comes from the symbol's own Dwarf context (library: get_dwctx()->get_machine() of the same object; CLI: "
                  "zw_value_dwarf_machine(zw_value_elfsym_dwarf(&val)) of the same value); Z1-elf: for the generic and every per-machine STT/STB "
                  "domain class and STV, each value its `show` switch renders is a vocabulary word registered with that value in the domain of that "
                  "very machine.")
    rep.clause += (" W3: symbol_producer (constructor, next_module, next) and the module iterator it walks, interpreted from their source against "
                   "an abstract libdwfl (module lists with 0-3 symbols per table, up to three modules, in every order), yield every table entry "
                   "exactly once, in module and table order, numbered 0,1,2,..., each with the index, name and GElf_Sym that libdwfl returned "
                   "for that very entry, raise no error on readable tables and stay exhausted afterwards.")
    rep.not_decided = "how libdwfl itself enumerates modules and tables; the rendering of name/value/size by the CLI."
    apply(rep, "W4", "name, label, binding, visibility, address, size report the stored fields, type and binding in the family of the file's machine (source evaluation; GELF_ST_* macros interpreted)", r_elf.w4(prog), 6)
    apply(rep, "W3", "every symbol-table entry exactly once, in order, numbered from zero (source evaluation of symbol_producer on abstract module tables)", r_elf.w3(prog, tier), 1)
    apply(rep, "W2b", "ELF-domain constants built from symbol fields go through the matching extraction macro", r_elf.w2b(prog), 5)
    apply(rep, "W2", "GELF_ST_* macro paired with its domain and the symbol's machine", r_elf.w2(prog), 6)
    apply(rep, "W5", "codes below LOOS are generic across machines, codes LOOS..HIPROC (inclusive) stay in the machine's own domain (most_enclosing of every per-machine STT/STB domain interpreted)", r_elf.w5(prog), 4)
    import r_pure
    q = r_pure.q1(prog)
    apply(rep, "Q1", "operators and constant domains carry no mutable members (nothing is remembered from one symbol/file to the next)",
          ([i for i in q[0] if i[0].startswith("Q1i:")], [f for f in q[1] if f["key"].startswith("Q1i:")]), 2)
    apply(rep, "Z1e", "per-machine ELF constant names round-trip", r_elf.z1elf(prog), 7)
    import r_core as _rc8
    apply(rep, "P8", "a copied symbol keeps its position and its index in the table (value_symbol::clone interpreted with marker fields)", _rc8.p8(prog), 10)
    maybe_mutants("C18", rep, tier)
