"""C06 cooked view (agreement clauses): G1 one integration predicate, V2 family agreement."""
import r_dw
from common import apply, maybe_mutants


def run(prog, rep, tier):
    rep.clause = ("G1: attr_should_be_integrated excludes exactly DW_AT_sibling and DW_AT_declaration, and every library function that compares "
                  "against DW_AT_specification/DW_AT_abstract_origin (attribute_producer::next, find_attribute) consults it, so `attribute` and "
                  "`@AT_x`/`?AT_x` integrate the same attribute set; V2: for TAG/AT/FORM/OP the sugar predicates, their constant-comparing "
                  "predicate classes, the named constants and every label/form producer that builds a constant from the family's libdw source use "
                  "one `code` parameter and one domain function; M1: in import_partial_units every path from the resolved-import edge "
                  "(dwarf_formref_die succeeded) reaches the push of the imported unit's children onto the traversal stack before returning.")
    rep.clause += (" G2 (owner clause): on the same DIE graphs the DIE handed out with the attribute that `@AT_x` found is the DIE the attribute was read "
                   "from; G3: attribute_producer interpreted from source on DIE graphs (A with optional specification/abstract_origin to S/O, those "
                   "optionally referring on to T or to each other, attribute sets drawn from name/inline/sibling/declaration): raw = own attributes in "
                   "stored order; cooked = own first, then every reachable name not yet yielded exactly once, never another DIE's sibling/"
                   "declaration, numbered from 0, each value_attr wrapped with the DIE it was read from.")
    rep.not_decided = ("in-place inlining of imported units and its order; which of two referenced DIEs wins when both carry the same attribute "
                       "(find_attribute prefers specification, attribute_producer visits the last-scheduled reference first: the documentation fixes no order).")
    apply(rep, "G1", "single integration predicate", r_dw.g1(prog), 3)
    apply(rep, "V2", "family agreement of code and domain", r_dw.v2(prog), 14)
    apply(rep, "G2", "find_attribute finds exactly what is reachable through specification OR abstract_origin (abstract evaluation on DIE graphs)", r_dw.g2(prog), 1)
    apply(rep, "G3", "`attribute` yields own attributes first, then each integrated name once, each wrapped with the DIE it was read from (attribute_producer interpreted on DIE graphs)", r_dw.g3(prog, tier), 1)
    apply(rep, "M2", "`unit` lists every unit in raw mode and exactly the non-partial units in cooked mode, across all Dwarfs of a value (dwarf_unit_producer interpreted on abstract Dwarf lists)", r_dw.m2(prog, tier), 1)
    apply(rep, "M1", "a resolved DW_TAG_imported_unit is always replaced by the unit's children", r_dw.m1(prog), 1)
    apply(rep, "M3", "cooked `child` = raw `child` with every DW_TAG_imported_unit replaced, recursively and in place, by the children of the unit it refers to - partial or not -, the import DIE itself not listed (die_it_producer interpreted on an abstract forest)", r_dw.m3(prog), 2)
    maybe_mutants("C06", rep, tier)
